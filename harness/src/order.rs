//! Independent implementation of the MS-CFB name order (section 2.6.4), written from
//! the specification: shorter names (in UTF-16 code units) sort first; names of equal
//! length are compared code unit by code unit after simple upper-casing of every BMP
//! code unit (surrogates are left unchanged).  The table comes from Perl's UCD.

use crate::upper_table::UPPER;
use std::cmp::Ordering;

pub fn upper_unit(u: u16) -> u16 {
    match UPPER.binary_search_by_key(&u, |&(a, _)| a) {
        Ok(i) => UPPER[i].1,
        Err(_) => u,
    }
}

/// Folded key of a name: its upper-cased UTF-16 code units.
pub fn fold(name: &str) -> Vec<u16> {
    name.encode_utf16().map(upper_unit).collect()
}

pub fn units(name: &str) -> usize {
    name.encode_utf16().count()
}

/// Sort key: (length, folded units) — `Ord` on it is exactly CFB order.
#[derive(Clone, Debug, PartialEq, Eq, Hash)]
pub struct Key(pub Vec<u16>);

impl Key {
    pub fn of(name: &str) -> Key {
        Key(fold(name))
    }
}

impl PartialOrd for Key {
    fn partial_cmp(&self, o: &Key) -> Option<Ordering> {
        Some(self.cmp(o))
    }
}
impl Ord for Key {
    fn cmp(&self, o: &Key) -> Ordering {
        self.0.len().cmp(&o.0.len()).then_with(|| self.0.cmp(&o.0))
    }
}

pub fn compare(a: &str, b: &str) -> Ordering {
    Key::of(a).cmp(&Key::of(b))
}

pub fn compare_units(a: &[u16], b: &[u16]) -> Ordering {
    a.len().cmp(&b.len()).then_with(|| {
        let fa: Vec<u16> = a.iter().map(|&u| upper_unit(u)).collect();
        let fb: Vec<u16> = b.iter().map(|&u| upper_unit(u)).collect();
        fa.cmp(&fb)
    })
}

/// Independent name validity rule (MS-CFB 2.6.1): at most 31 UTF-16 units and none of
/// `/ \ : !`.  (The empty name cannot be expressed through a path.)
pub fn name_is_valid(name: &str) -> bool {
    units(name) <= 31 && !name.chars().any(|c| matches!(c, '/' | '\\' | ':' | '!'))
}

/// True if the character takes part in order/case verdicts: BMP, or a supplementary
/// character that no Unicode version assigns a case mapping (we approximate "caseless"
/// by Rust's own tables: lower == upper == itself).
pub fn char_is_unambiguous(c: char) -> bool {
    if (c as u32) <= 0xFFFF {
        true
    } else {
        let mut up = c.to_uppercase();
        let mut lo = c.to_lowercase();
        up.next() == Some(c) && up.next().is_none() && lo.next() == Some(c) && lo.next().is_none()
    }
}

#[cfg(test)]
mod tests {
    use super::*;
    #[test]
    fn basics() {
        assert_eq!(compare("foo", "FOO"), Ordering::Equal);
        assert_eq!(compare("foo", "barfoo"), Ordering::Less);
        assert_eq!(upper_unit(0x3c3), 0x3a3);
        assert_eq!(upper_unit(0x3c2), 0x3a3);
        assert_eq!(upper_unit(0xdf), 0xdf);
        // format order is by code unit: U+1F600 = D83D DE00 sorts before U+FFFD
        assert_eq!(compare("\u{FFFD}\u{FFFD}", "\u{1F600}"), Ordering::Greater);
    }
}
