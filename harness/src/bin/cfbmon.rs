use cfbmon::common::{Ctx, Tier};
use cfbmon::{guard, props, report::Report};
use std::time::Instant;

fn main() {
    let args: Vec<String> = std::env::args().collect();
    if args.len() < 2 {
        eprintln!("usage: cfbmon <C01..C18|selftest> [--tier quick|thorough] [--seed N] [--shard i/n] [--budget secs] [--max-cases N] [--case N] [--input FILE] [--profile NAME] --out PREFIX");
        std::process::exit(3);
    }
    let mut ctx = Ctx {
        prop: args[1].clone(),
        tier: Tier::Quick,
        seed: 1,
        shard: 0,
        nshards: 1,
        profile: "release".into(),
        budget_s: 20.0,
        max_cases: u64::MAX,
        only_case: None,
        input_file: None,
        out: "/dev/null".into(),
        start: Instant::now(),
        verbose: false,
    };
    let mut cpu_budget: f64 = 0.0;
    let mut i = 2;
    while i < args.len() {
        let a = args[i].as_str();
        let v = args.get(i + 1).cloned().unwrap_or_default();
        match a {
            "--tier" => ctx.tier = if v == "thorough" { Tier::Thorough } else { Tier::Quick },
            "--seed" => ctx.seed = v.parse().unwrap_or(1),
            "--shard" => {
                let mut it = v.split('/');
                ctx.shard = it.next().and_then(|x| x.parse().ok()).unwrap_or(0);
                ctx.nshards = it.next().and_then(|x| x.parse().ok()).unwrap_or(1);
            }
            "--budget" => ctx.budget_s = v.parse().unwrap_or(20.0),
            "--max-cases" => ctx.max_cases = v.parse().unwrap_or(u64::MAX),
            "--case" => ctx.only_case = v.parse().ok(),
            "--input" => ctx.input_file = Some(v.clone()),
            "--profile" => ctx.profile = v.clone(),
            "--out" => ctx.out = v.clone(),
            "--cpu-budget" => cpu_budget = v.parse().unwrap_or(0.0),
            "--verbose" => {
                ctx.verbose = true;
                i += 1;
                continue;
            }
            _ => {
                eprintln!("unknown argument {a}");
                std::process::exit(3);
            }
        }
        i += 2;
    }
    guard::install_panic_hook();
    // no single allocation above 2 GiB (a runaway Vec - the backing store's, or one inside
    // the crate - then ends the worker with an allocation failure, which the driver turns
    // into a finding, instead of waking the kernel's OOM killer)
    guard::set_alloc_cap(2 << 30);
    if ctx.prop != "C14" {
        // C14 installs its own (global, multi-threaded) observer
        guard::install_lock_discipline();
    }
    guard::heartbeat_init(&format!("{}.hb", ctx.out));
    if cpu_budget > 0.0 {
        guard::start_watchdog(cpu_budget, format!("{}.hang", ctx.out));
    }
    let mut rep = Report::new(&ctx.prop);
    let ok = props::dispatch(&ctx, &mut rep);
    if !ok {
        eprintln!("unknown property {}", ctx.prop);
        std::process::exit(3);
    }
    cfbmon::common::finish(&ctx, &rep);
}
