//! M3 of C14: a tiny threaded program for `cargo +nightly miri run`.  Miri's randomised
//! scheduler (-Zmiri-many-seeds) explores thread schedules of the *real* std RwLock and
//! reports deadlocks, data races and undefined behaviour.
//!
//! Readers call read-only methods on a shared `&CompoundFile` while the main thread
//! performs stream writes, set_len and flush through a handle.

use cfb::CompoundFile;
use std::io::{Cursor, Seek, SeekFrom, Write};

fn main() {
    let mut cf = CompoundFile::create(Cursor::new(Vec::new())).unwrap();
    cf.create_storage("/st").unwrap();
    for (p, n) in [("/h", 30usize), ("/d", 10), ("/l", 70), ("/st/x", 5)] {
        let mut s = cf.create_stream(p).unwrap();
        s.write_all(&vec![7u8; n]).unwrap();
    }
    let mut stream = cf.open_stream("/d").unwrap();
    let cf_ref = &cf;
    std::thread::scope(|scope| {
        for r in 0..2 {
            scope.spawn(move || {
                for k in 0..3 {
                    match (r + k) % 3 {
                        0 => {
                            let n = cf_ref.walk().count();
                            assert!(n >= 5);
                        }
                        1 => {
                            let n = cf_ref.read_root_storage().count();
                            assert_eq!(n, 4);
                            let _ = cf_ref.entry("/d").unwrap().len();
                        }
                        _ => {
                            assert!(cf_ref.exists("/st/x"));
                            assert!(cf_ref.is_stream("/h"));
                            let _ = cf_ref.read_storage("/st").unwrap().count();
                        }
                    }
                }
            });
        }
        // the writer is this thread (stream handles are !Send)
        for op in 0..4 {
            match op % 4 {
                0 => {
                    stream.seek(SeekFrom::End(0)).unwrap();
                    stream.write_all(&[1, 2, 3, 4, 5]).unwrap();
                }
                1 => stream.flush().unwrap(),
                2 => stream.set_len(40).unwrap(),
                _ => {
                    stream.write_all(&[9; 9]).unwrap();
                    stream.flush().unwrap();
                }
            }
        }
    });
    drop(stream);
    let n = cf.walk().count();
    assert_eq!(n, 6);
    println!("c14_miri: done");
}
