//! Run context shared by all property drivers.

use crate::report::{Report, J};
use crate::rng::Rng;
use std::time::Instant;

#[derive(Clone, Copy, Debug, PartialEq, Eq)]
pub enum Tier {
    Quick,
    Thorough,
}

pub struct Ctx {
    pub prop: String,
    pub tier: Tier,
    pub seed: u64,
    pub shard: u64,
    pub nshards: u64,
    pub profile: String,
    /// Wall-clock budget of this shard in seconds (a cap on work, never a verdict).
    pub budget_s: f64,
    pub max_cases: u64,
    pub only_case: Option<u64>,
    pub input_file: Option<String>,
    pub out: String,
    pub start: Instant,
    pub verbose: bool,
}

impl Ctx {
    pub fn quick(&self) -> bool {
        self.tier == Tier::Quick
    }
    pub fn elapsed(&self) -> f64 {
        self.start.elapsed().as_secs_f64()
    }
    pub fn time_left(&self) -> bool {
        self.elapsed() < self.budget_s
    }
    /// Iterator protocol: `while let Some(case) = ctx.next_case(&mut i)`.
    pub fn next_case(&self, i: &mut u64) -> Option<u64> {
        if let Some(c) = self.only_case {
            if *i == 0 {
                *i = 1;
                crate::guard::case_begin(c);
                return Some(c);
            }
            crate::guard::case_end();
            return None;
        }
        if *i >= self.max_cases || !self.time_left() {
            crate::guard::case_end();
            return None;
        }
        let c = *i;
        *i += 1;
        crate::guard::case_begin(c);
        Some(c)
    }
    pub fn prop_num(&self) -> u64 {
        self.prop.trim_start_matches('C').parse().unwrap_or(0)
    }
    /// Deterministic generator for a case: seed -> property -> shard -> case.
    pub fn case_rng(&self, case: u64) -> Rng {
        Rng::derive(self.seed, &[self.prop_num(), self.shard, case])
    }
    /// How to regenerate a case (stored in every replay file).
    pub fn regen(&self, case: u64) -> J {
        J::obj(vec![
            ("property", J::s(&self.prop)),
            ("tier", J::s(if self.quick() { "quick" } else { "thorough" })),
            ("seed", J::Int(self.seed as i128)),
            ("shard", J::Int(self.shard as i128)),
            ("nshards", J::Int(self.nshards as i128)),
            ("case", J::Int(case as i128)),
            ("profile", J::s(&self.profile)),
        ])
    }
    pub fn witness(&self, case: u64, body: Vec<(&str, J)>) -> J {
        let mut v = vec![("regen", self.regen(case))];
        v.extend(body);
        J::obj(v)
    }
}

pub fn finish(ctx: &Ctx, rep: &Report) {
    if let Err(e) = rep.write(&ctx.out) {
        eprintln!("cannot write {}: {e}", ctx.out);
        std::process::exit(3);
    }
}
