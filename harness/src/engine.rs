//! History engine: explicit step lists executed against the real `cfb` crate and the
//! abstract model side by side.  Monitors (per-property code in `props/`) call the
//! helpers here between steps.

use crate::backend::{MonFile, Shared};
use crate::model::{self, EntryView, Expect, Kind, Model, Op, Out};
use crate::order;
use cfb::{CompoundFile, OpenOptions, Stream, Version};
use std::io::{self, BufRead, ErrorKind, Read, Seek, SeekFrom, Write};
use std::time::{Duration, SystemTime, UNIX_EPOCH};

pub type CF = CompoundFile<MonFile>;

#[derive(Clone, Copy, Debug, PartialEq, Eq)]
pub enum OpenHow {
    Open,
    Create,
    CreateNew,
}

#[derive(Clone, Copy, Debug, PartialEq, Eq)]
pub enum Mode {
    Permissive,
    Strict,
}

#[derive(Clone, Debug, PartialEq, Eq)]
pub enum Step {
    Api(Op),
    HOpen { slot: usize, path: String, how: OpenHow },
    HRead { slot: usize, n: usize },
    HReadExact { slot: usize, n: usize },
    /// fill_buf, then consume `num/8` of what was returned.
    HFill { slot: usize, eighths: u8 },
    HWrite { slot: usize, len: usize },
    HWriteAll { slot: usize, len: usize },
    /// write_all of `payload(tag, len)`: the same bytes every time (C15 cycles).
    HWriteTag { slot: usize, len: usize, tag: u64 },
    HSeek { slot: usize, from: SeekFrom },
    HSetLen { slot: usize, n: u64 },
    HFlush { slot: usize },
    HPos { slot: usize },
    HLen { slot: usize },
    HReadToEnd { slot: usize },
    /// flush, then drop the handle.
    HClose { slot: usize },
    /// drop without explicit flush (Drop flushes and swallows errors).
    HDrop { slot: usize },
    FlushFile,
    Reopen(Mode),
}

impl Step {
    pub fn name(&self) -> &'static str {
        match self {
            Step::Api(op) => op.name(),
            Step::HOpen { how: OpenHow::Open, .. } => "open_stream",
            Step::HOpen { how: OpenHow::Create, .. } => "create_stream",
            Step::HOpen { how: OpenHow::CreateNew, .. } => "create_new_stream",
            Step::HRead { .. } => "read",
            Step::HReadExact { .. } => "read_exact",
            Step::HFill { .. } => "fill_buf",
            Step::HWrite { .. } => "write",
            Step::HWriteAll { .. } | Step::HWriteTag { .. } => "write_all",
            Step::HSeek { .. } => "seek",
            Step::HSetLen { .. } => "set_len",
            Step::HFlush { .. } => "stream_flush",
            Step::HPos { .. } => "stream_position",
            Step::HLen { .. } => "len",
            Step::HReadToEnd { .. } => "read_to_end",
            Step::HClose { .. } => "close",
            Step::HDrop { .. } => "drop",
            Step::FlushFile => "flush",
            Step::Reopen(Mode::Permissive) => "reopen",
            Step::Reopen(Mode::Strict) => "reopen_strict",
        }
    }
}

/// Lengths from here on exceed 0xFFFFFFFA sectors of 4096 bytes.
pub const UNREPRESENTABLE_LEN: u64 = 1 << 45;
/// A version 3 directory entry has 32 bits for the stream length.
pub const V3_UNREPRESENTABLE_LEN: u64 = 1 << 32;

pub fn unrepresentable_len(version: Version, n: u64) -> bool {
    n >= UNREPRESENTABLE_LEN || (version == Version::V3 && n >= V3_UNREPRESENTABLE_LEN)
}

/// `HWriteTag` with this tag writes zeros (whole sectors of zeros over existing data are a
/// case of their own for a writer that treats zero sectors specially).
pub const ZERO_TAG: u64 = u64::MAX;
/// `HWriteTag` with this tag writes valid UTF-8 text (three-byte characters, so that a
/// character straddles every power-of-two buffer window).
pub const UTF8_TAG: u64 = u64::MAX - 1;

/// Which of two equivalent std trait methods a step uses is a pure function of its
/// arguments and the handle's position, so that every replay makes the same choice:
/// `seek_relative(d)` for `seek(SeekFrom::Current(d))`.
pub fn use_seek_relative(d: i64, pos: u64) -> bool {
    (d as u64 ^ pos) % 2 == 0
}
/// `read_exact` assembled from `read_vectored` calls (two slices at a time).
pub fn use_vectored_exact(n: usize, pos: u64) -> bool {
    n >= 2 && (n as u64 + pos) % 2 == 1
}
/// What `read_exact` does, through `read_vectored`: fill the buffer or fail with
/// UnexpectedEof at the end (everything up to the end consumed).
pub fn read_exact_vectored<R: Read>(r: &mut R, buf: &mut [u8]) -> io::Result<()> {
    let mut filled = 0;
    while filled < buf.len() {
        let rest = &mut buf[filled..];
        let cut = rest.len() / 3 + 1;
        let k = if rest.len() >= 2 {
            let (a, b) = rest.split_at_mut(cut);
            let mut sl = [std::io::IoSliceMut::new(a), std::io::IoSliceMut::new(b)];
            r.read_vectored(&mut sl)
        } else {
            r.read(rest)
        };
        match k {
            Ok(0) => return Err(io::Error::new(ErrorKind::UnexpectedEof, "failed to fill whole buffer")),
            Ok(k) => filled += k,
            Err(e) if e.kind() == ErrorKind::Interrupted => {}
            Err(e) => return Err(e),
        }
    }
    Ok(())
}
/// `read_to_string` for `read_to_end`.
pub fn use_read_to_string(len: u64, pos: u64) -> bool {
    (len + pos) % 2 == 0
}

/// Payload of the j-th write of a case: never zero, so stale bytes are distinguishable
/// from zero fill and a read identifies the write it observed.
pub fn payload(j: u64, len: usize) -> Vec<u8> {
    if j == ZERO_TAG {
        return vec![0u8; len];
    }
    if j == UTF8_TAG {
        // valid UTF-8 of exactly `len` bytes: three-byte characters, ASCII padding
        let mut s = String::with_capacity(len);
        let mut k = 0u32;
        while s.len() + 3 <= len {
            s.push(char::from_u32(0x3042 + (k % 80)).unwrap_or('\u{3042}'));
            k += 1;
            if k % 7 == 0 && s.len() < len {
                s.push((b'a' + (k % 26) as u8) as char);
            }
        }
        while s.len() < len {
            s.push('.');
        }
        return s.into_bytes();
    }
    (0..len).map(|i| 1 + ((j.wrapping_mul(131).wrapping_add(i as u64 * 7)) % 255) as u8).collect()
}

#[derive(Clone, Debug)]
pub struct HModel {
    pub names: Vec<String>,
    pub pos: u64,
    pub dirty: bool,
    pub uid: u64,
}

#[derive(Clone, Debug)]
pub struct Divergence {
    pub step_index: usize,
    pub step: String,
    pub expected: String,
    pub observed: String,
    pub signature: String,
}

pub struct Session {
    pub cf: Option<CF>,
    pub shared: Shared,
    pub version: Version,
    pub bufsize: Option<usize>,
    pub model: Model,
    pub streams: Vec<Option<Stream<MonFile>>>,
    pub hm: Vec<Option<HModel>>,
    pub write_counter: u64,
    pub api_seq: u32,
    pub steps_done: usize,
    /// wall-clock readings around the last API call (C17 range checks)
    pub last_call_window: (SystemTime, SystemTime),
}

pub fn st_to_ns(t: SystemTime) -> i128 {
    match t.duration_since(UNIX_EPOCH) {
        Ok(d) => d.as_nanos() as i128,
        Err(e) => -(e.duration().as_nanos() as i128),
    }
}

pub fn ns_to_st(ns: i128) -> Option<SystemTime> {
    if ns >= 0 {
        let secs = (ns / 1_000_000_000) as u64;
        let sub = (ns % 1_000_000_000) as u32;
        UNIX_EPOCH.checked_add(Duration::new(secs, sub))
    } else {
        let a = -ns;
        let secs = u64::try_from(a / 1_000_000_000).ok()?;
        let sub = (a % 1_000_000_000) as u32;
        UNIX_EPOCH.checked_sub(Duration::new(secs, sub))
    }
}

/// Observed SystemTime -> ticks; a time that is not on the 100 ns grid or outside the
/// tick range maps to a sentinel that matches nothing.
pub fn observed_ticks(t: SystemTime) -> u64 {
    let ns = st_to_ns(t);
    if ns % 100 != 0 {
        return u64::MAX - 7;
    }
    let ticks = ns / 100 + model::EPOCH_TICKS as i128;
    if ticks < 0 || ticks > u64::MAX as i128 {
        return u64::MAX - 7;
    }
    ticks as u64
}

pub fn view_of(e: &cfb::Entry) -> EntryView {
    let kind = if e.is_root() {
        Kind::Root
    } else if e.is_storage() {
        Kind::Storage
    } else {
        Kind::Stream
    };
    EntryView {
        path: e.path().to_string_lossy().into_owned(),
        name: e.name().to_string(),
        kind,
        len: e.len(),
        clsid: *e.clsid().as_bytes(),
        state: e.state_bits(),
        ctime: Some(observed_ticks(e.created())),
        mtime: Some(observed_ticks(e.modified())),
    }
}

fn fold_path(p: &str) -> Vec<Vec<u16>> {
    p.split('/').filter(|s| !s.is_empty()).map(order::fold).collect()
}

/// Compares an expected view (times may be unknown) with an observed one.
pub fn view_matches(exp: &EntryView, obs: &EntryView) -> Result<(), String> {
    if fold_path(&exp.path) != fold_path(&obs.path) {
        return Err(format!("path {:?} vs {:?}", exp.path, obs.path));
    }
    if exp.name != obs.name {
        return Err(format!("name {:?} vs {:?} at {}", exp.name, obs.name, exp.path));
    }
    if exp.kind != obs.kind {
        return Err(format!("kind {:?} vs {:?} at {}", exp.kind, obs.kind, exp.path));
    }
    let exp_len = if exp.kind == Kind::Stream { exp.len } else { obs.len };
    if exp_len != obs.len {
        return Err(format!("len {} vs {} at {}", exp.len, obs.len, exp.path));
    }
    if exp.clsid != obs.clsid {
        return Err(format!("clsid {:02x?} vs {:02x?} at {}", exp.clsid, obs.clsid, exp.path));
    }
    if exp.state != obs.state {
        return Err(format!("state {:#x} vs {:#x} at {}", exp.state, obs.state, exp.path));
    }
    if let Some(t) = exp.ctime {
        if Some(t) != obs.ctime {
            return Err(format!("created {:?} vs {:?} at {}", exp.ctime, obs.ctime, exp.path));
        }
    }
    if let Some(t) = exp.mtime {
        if Some(t) != obs.mtime {
            return Err(format!("modified {:?} vs {:?} at {}", exp.mtime, obs.mtime, exp.path));
        }
    }
    Ok(())
}

pub fn list_matches(exp: &[EntryView], obs: &[EntryView]) -> Result<(), String> {
    if exp.len() != obs.len() {
        return Err(format!(
            "{} entries expected, {} observed (expected {:?}, observed {:?})",
            exp.len(),
            obs.len(),
            exp.iter().map(|e| e.path.as_str()).collect::<Vec<_>>(),
            obs.iter().map(|e| e.path.as_str()).collect::<Vec<_>>()
        ));
    }
    for (i, (a, b)) in exp.iter().zip(obs.iter()).enumerate() {
        view_matches(a, b).map_err(|e| format!("entry #{i}: {e}"))?;
    }
    Ok(())
}

pub fn out_matches(exp: &Out, obs: &Out) -> Result<(), String> {
    match (exp, obs) {
        (Out::Unit, Out::Unit) => Ok(()),
        (Out::Bool(a), Out::Bool(b)) if a == b => Ok(()),
        (Out::Num(a), Out::Num(b)) if a == b => Ok(()),
        (Out::Handle(a), Out::Handle(b)) if a == b => Ok(()),
        (Out::Bytes(a), Out::Bytes(b)) => {
            if a == b {
                Ok(())
            } else {
                Err(describe_bytes_diff(a, b))
            }
        }
        (Out::Entry(a), Out::Entry(b)) => view_matches(a, b),
        (Out::List(a), Out::List(b)) => list_matches(a, b),
        _ => Err(format!("expected {}, observed {}", short_out(exp), short_out(obs))),
    }
}

pub fn describe_bytes_diff(exp: &[u8], obs: &[u8]) -> String {
    if exp.len() != obs.len() {
        return format!("{} bytes expected, {} observed", exp.len(), obs.len());
    }
    let first = exp.iter().zip(obs.iter()).position(|(a, b)| a != b).unwrap_or(0);
    let count = exp.iter().zip(obs.iter()).filter(|(a, b)| a != b).count();
    format!("{} of {} bytes differ, first at offset {} (expected {:#04x}, observed {:#04x})", count, exp.len(), first, exp[first], obs[first])
}

pub fn short_out(o: &Out) -> String {
    match o {
        Out::Unit => "()".into(),
        Out::Bool(b) => format!("{b}"),
        Out::Num(n) => format!("{n}"),
        Out::Handle(n) => format!("handle(len={n})"),
        Out::Bytes(b) => format!("{} bytes (fnv {:016x})", b.len(), crate::rng::fnv64(b)),
        Out::Entry(e) => format!("entry {:?} {:?} len={}", e.path, e.kind, e.len),
        Out::List(l) => format!("list {:?}", l.iter().map(|e| e.path.as_str()).collect::<Vec<_>>()),
    }
}

pub fn short_expect(e: &Expect) -> String {
    match e {
        Expect::Ok(o) => format!("Ok({})", short_out(o)),
        Expect::Refuse { kinds, classes } => format!("Err(one of {:?}) because {:?}", kinds, classes),
    }
}

pub fn expect_class(e: &Expect) -> String {
    match e {
        Expect::Ok(_) => "ok".into(),
        Expect::Refuse { classes, .. } => {
            let mut c: Vec<&str> = classes.to_vec();
            c.sort();
            c.dedup();
            format!("refuse:{}", c.join("+"))
        }
    }
}

/// What the model says a handle step must do.
#[derive(Clone, Debug)]
pub enum HExpect {
    /// read(n): any k with the contract; bytes must equal model[pos..pos+k]
    ReadContract { avail: Vec<u8>, n: usize },
    Exact(Out),
    FailKind(Vec<ErrorKind>),
    WriteContract { n: usize },
}

impl Session {
    pub fn create(version: Version, bufsize: Option<usize>) -> io::Result<Session> {
        Session::create_over(version, bufsize, Vec::new())
    }

    /// Like `create`, on a store that already holds `old` (a recycled buffer, a file opened
    /// without truncation): the new compound file is written over its beginning.
    pub fn create_over(version: Version, bufsize: Option<usize>, old: Vec<u8>) -> io::Result<Session> {
        let (file, shared) = MonFile::new(old);
        let cf = match (version, bufsize) {
            (Version::V4, Some(b)) => OpenOptions::new().max_buffer_size(b).create_with(file)?,
            (v, None) => CompoundFile::create_with_version(v, file)?,
            (v, Some(b)) => {
                let cf = CompoundFile::create_with_version(v, file)?;
                let file = cf.into_inner();
                OpenOptions::new().max_buffer_size(b).open_with(file)?
            }
        };
        Ok(Session::from_parts(cf, shared, version, bufsize, Model::new()))
    }

    pub fn from_parts(cf: CF, shared: Shared, version: Version, bufsize: Option<usize>, model: Model) -> Session {
        let now = SystemTime::now();
        Session { cf: Some(cf), shared, version, bufsize, model, streams: Vec::new(), hm: Vec::new(), write_counter: 0, api_seq: 0, steps_done: 0, last_call_window: (now, now) }
    }

    /// Opens existing bytes (e.g. a synthesised image) with the given model.
    pub fn open_bytes(bytes: Vec<u8>, mode: Mode, bufsize: Option<usize>, model: Model) -> io::Result<Session> {
        let (file, shared) = MonFile::new(bytes);
        let cf = open_with(file, mode, bufsize)?;
        let version = cf.version();
        Ok(Session::from_parts(cf, shared, version, bufsize, model))
    }

    pub fn cf(&mut self) -> &mut CF {
        self.cf.as_mut().expect("compound file present")
    }

    pub fn any_dirty(&self) -> bool {
        self.hm.iter().flatten().any(|h| h.dirty)
    }

    pub fn open_slots(&self) -> Vec<usize> {
        self.hm.iter().enumerate().filter(|(_, h)| h.is_some()).map(|(i, _)| i).collect()
    }

    pub fn free_slot(&self) -> usize {
        self.hm.iter().position(|h| h.is_none()).unwrap_or(self.hm.len())
    }

    pub fn handle_on(&self, names: &[String]) -> Option<usize> {
        let key: Vec<_> = names.iter().map(|n| order::fold(n)).collect();
        self.hm.iter().position(|h| h.as_ref().map(|h| h.names.iter().map(|n| order::fold(n)).collect::<Vec<_>>() == key).unwrap_or(false))
    }

    /// True if some open handle refers to an object at or below `names`.
    pub fn handle_under(&self, names: &[String]) -> bool {
        let key: Vec<_> = names.iter().map(|n| order::fold(n)).collect();
        self.hm.iter().flatten().any(|h| {
            let hk: Vec<_> = h.names.iter().map(|n| order::fold(n)).collect();
            hk.len() >= key.len() && hk[..key.len()] == key[..]
        })
    }

    fn ensure_slot(&mut self, slot: usize) {
        while self.streams.len() <= slot {
            self.streams.push(None);
            self.hm.push(None);
        }
    }

    /// Executes an API-level op on the live file.
    pub fn exec_api(&mut self, op: &Op) -> Result<Out, io::Error> {
        self.api_seq += 1;
        self.shared.set_api(self.api_seq);
        let t0 = SystemTime::now();
        let r = exec_api_on(self.cf.as_mut().unwrap(), op);
        self.last_call_window = (t0, SystemTime::now());
        r
    }

    /// Runs one step on model and implementation; returns a divergence if the observed
    /// outcome is not admissible.
    pub fn run(&mut self, step: &Step) -> Option<Divergence> {
        let idx = self.steps_done;
        self.steps_done += 1;
        let r = self.run_inner(step);
        r.err().map(|(expected, observed, sig)| Divergence { step_index: idx, step: format!("{:?}", step), expected, observed, signature: format!("{} | {}", step.name(), sig) })
    }

    fn run_inner(&mut self, step: &Step) -> Result<(), (String, String, String)> {
        match step {
            Step::Api(op) => {
                let exp = self.model.apply(op);
                let obs = self.exec_api(op);
                self.adopt_and_compare(&exp, obs)
            }
            Step::HOpen { slot, path, how } => {
                let op = match how {
                    OpenHow::Open => Op::OpenStream(path.clone()),
                    OpenHow::Create => Op::CreateStream(path.clone()),
                    OpenHow::CreateNew => Op::CreateNewStream(path.clone()),
                };
                let exp = self.model.apply(&op);
                self.api_seq += 1;
                self.shared.set_api(self.api_seq);
                let cf = self.cf.as_mut().unwrap();
                let r = match how {
                    OpenHow::Open => cf.open_stream(path),
                    OpenHow::Create => cf.create_stream(path),
                    OpenHow::CreateNew => cf.create_new_stream(path),
                };
                match r {
                    Ok(stream) => {
                        let obs = Ok(Out::Handle(stream.len()));
                        let res = self.adopt_and_compare(&exp, obs);
                        if res.is_ok() {
                            self.ensure_slot(*slot);
                            let names = model::normalise(path).unwrap();
                            let uid = self.model.get(&names).map(|n| n.uid).unwrap_or(0);
                            self.streams[*slot] = Some(stream);
                            self.hm[*slot] = Some(HModel { names, pos: 0, dirty: false, uid });
                        }
                        res
                    }
                    Err(e) => self.adopt_and_compare(&exp, Err(e)),
                }
            }
            Step::FlushFile => {
                self.api_seq += 1;
                self.shared.set_api(self.api_seq);
                match self.cf.as_mut().unwrap().flush() {
                    Ok(()) => Ok(()),
                    Err(e) => Err(("Ok(())".into(), format!("Err({:?}: {})", e.kind(), e), format!("ok | err:{:?}", e.kind()))),
                }
            }
            Step::Reopen(mode) => {
                // close every handle first (flush + drop)
                for slot in self.open_slots() {
                    if let Some(mut s) = self.streams[slot].take() {
                        let _ = s.flush();
                    }
                    self.hm[slot] = None;
                }
                let cf = self.cf.take().unwrap();
                let file = cf.into_inner();
                match open_with(file, *mode, self.bufsize) {
                    Ok(cf) => {
                        self.cf = Some(cf);
                        Ok(())
                    }
                    Err(e) => {
                        // keep a usable object for the caller: reopen from bytes permissively if possible
                        let bytes = self.shared.bytes();
                        let (f2, sh2) = MonFile::new(bytes);
                        if let Ok(cf) = open_with(f2, Mode::Permissive, self.bufsize) {
                            self.cf = Some(cf);
                            self.shared = sh2;
                        }
                        Err(("Ok(reopened)".into(), format!("Err({:?}: {})", e.kind(), e), format!("ok | err:{:?}", e.kind())))
                    }
                }
            }
            _ => self.run_handle_step(step),
        }
    }

    /// While a handle holds unflushed writes, the length a *query* reports for that
    /// stream is whatever has been written back so far - not predictable, and outside
    /// every property; make the expectation a wildcard there.
    fn relax_dirty_lens(&self, exp: &Expect, obs: &Result<Out, io::Error>) -> Expect {
        let dirty: Vec<Vec<Vec<u16>>> = self.hm.iter().flatten().filter(|h| h.dirty).map(|h| h.names.iter().map(|n| order::fold(n)).collect()).collect();
        if dirty.is_empty() {
            return exp.clone();
        }
        let patch = |e: &EntryView, o: Option<&EntryView>| -> EntryView {
            let mut e = e.clone();
            if e.kind == Kind::Stream && dirty.contains(&fold_path(&e.path)) {
                if let Some(o) = o {
                    e.len = o.len;
                }
            }
            e
        };
        match (exp, obs) {
            (Expect::Ok(Out::Entry(e)), Ok(Out::Entry(o))) => Expect::Ok(Out::Entry(patch(e, Some(o)))),
            (Expect::Ok(Out::List(l)), Ok(Out::List(ol))) if l.len() == ol.len() => Expect::Ok(Out::List(l.iter().zip(ol.iter()).map(|(e, o)| patch(e, Some(o))).collect())),
            _ => exp.clone(),
        }
    }

    fn adopt_and_compare(&mut self, exp: &Expect, obs: Result<Out, io::Error>) -> Result<(), (String, String, String)> {
        let exp = &self.relax_dirty_lens(exp, &obs);
        match (exp, obs) {
            (Expect::Ok(e), Ok(o)) => match out_matches(e, &o) {
                Ok(()) => {
                    self.adopt_times(&o);
                    Ok(())
                }
                Err(why) => Err((short_expect(exp), format!("Ok({}) [{}]", short_out(&o), why), "ok | value-mismatch".to_string())),
            },
            (Expect::Refuse { kinds, .. }, Err(e)) => {
                if kinds.contains(&e.kind()) {
                    Ok(())
                } else {
                    Err((short_expect(exp), format!("Err({:?}: {})", e.kind(), e), format!("{} | err:{:?}", expect_class(exp), e.kind())))
                }
            }
            (Expect::Ok(_), Err(e)) => Err((short_expect(exp), format!("Err({:?}: {})", e.kind(), e), format!("ok | err:{:?}", e.kind()))),
            (Expect::Refuse { .. }, Ok(o)) => Err((short_expect(exp), format!("Ok({})", short_out(&o)), format!("{} | ok", expect_class(exp)))),
        }
    }

    /// Wall-clock times (new storages, touch) are unknown to the model until first
    /// observed; adopt them so that they must stay constant afterwards.
    pub fn adopt_times(&mut self, o: &Out) {
        let views: Vec<&EntryView> = match o {
            Out::Entry(e) => vec![e],
            Out::List(l) => l.iter().collect(),
            _ => return,
        };
        for v in views {
            if let Some(names) = model::normalise(&v.path) {
                if let Some(n) = self.model.get_mut(&names) {
                    if n.ctime.is_none() {
                        n.ctime = v.ctime;
                    }
                    if n.mtime.is_none() {
                        n.mtime = v.mtime;
                    }
                }
            }
        }
    }

    fn run_handle_step(&mut self, step: &Step) -> Result<(), (String, String, String)> {
        let slot = match step {
            Step::HRead { slot, .. } | Step::HReadExact { slot, .. } | Step::HFill { slot, .. } | Step::HWrite { slot, .. } | Step::HWriteAll { slot, .. } | Step::HWriteTag { slot, .. } | Step::HSeek { slot, .. } | Step::HSetLen { slot, .. } | Step::HFlush { slot } | Step::HPos { slot } | Step::HLen { slot } | Step::HReadToEnd { slot } | Step::HClose { slot } | Step::HDrop { slot } => *slot,
            _ => unreachable!(),
        };
        if self.hm.get(slot).map(|h| h.is_none()).unwrap_or(true) {
            return Ok(()); // handle not open (its HOpen was refused): skip
        }
        self.api_seq += 1;
        self.shared.set_api(self.api_seq);
        let mut h = self.hm[slot].clone().unwrap();
        let data_len = self.model.get(&h.names).map(|n| n.data.len() as u64).unwrap_or(0);
        let mk = |e: String, o: String, s: &str| Err((e, o, s.to_string()));
        let stream = self.streams[slot].as_mut().unwrap();
        let result: Result<(), (String, String, String)> = match step {
            Step::HRead { n, .. } => {
                let mut buf = vec![0u8; *n];
                // every third raw read goes through read_vectored with the buffer split in
                // two slices: the bytes delivered fill the slices in order, without holes
                let rr = if *n >= 2 && (*n as u64 + h.pos) % 3 == 0 {
                    let (a, b) = buf.split_at_mut(*n / 3 + 1);
                    let mut sl = [std::io::IoSliceMut::new(a), std::io::IoSliceMut::new(b)];
                    stream.read_vectored(&mut sl)
                } else {
                    stream.read(&mut buf)
                };
                match rr {
                    Ok(k) => {
                        let avail = (data_len - h.pos) as usize;
                        let node = self.model.get(&h.names).unwrap();
                        let want_zero = *n == 0 || avail == 0;
                        if (k == 0) != want_zero || k > (*n).min(avail) {
                            mk(format!("read({n}) at {} of {}: 1..=min(n, avail) bytes (0 only at end)", h.pos, data_len), format!("Ok({k})"), "contract | count")
                        } else if buf[..k] != node.data[h.pos as usize..h.pos as usize + k] {
                            mk(format!("bytes model[{}..{}]", h.pos, h.pos as usize + k), describe_bytes_diff(&node.data[h.pos as usize..h.pos as usize + k], &buf[..k]), "contract | bytes")
                        } else {
                            h.pos += k as u64;
                            Ok(())
                        }
                    }
                    Err(e) => mk("Ok(k)".into(), format!("Err({:?}: {e})", e.kind()), "ok | err"),
                }
            }
            Step::HReadExact { n, .. } => {
                let mut buf = vec![0u8; *n];
                let avail = (data_len - h.pos) as usize;
                let rr = if use_vectored_exact(*n, h.pos) { read_exact_vectored(stream, &mut buf) } else { stream.read_exact(&mut buf) };
                match rr {
                    Ok(()) => {
                        let node = self.model.get(&h.names).unwrap();
                        if *n > avail {
                            mk("Err(UnexpectedEof)".into(), "Ok".into(), "eof | ok")
                        } else if buf[..] != node.data[h.pos as usize..h.pos as usize + n] {
                            mk("exact bytes".into(), describe_bytes_diff(&node.data[h.pos as usize..h.pos as usize + n], &buf), "ok | bytes")
                        } else {
                            h.pos += *n as u64;
                            Ok(())
                        }
                    }
                    Err(e) => {
                        if *n > avail && e.kind() == ErrorKind::UnexpectedEof {
                            // like read_exact on a byte vector with a cursor (std's default
                            // implementation): everything up to the end has been consumed
                            let p = stream.stream_position().unwrap_or(u64::MAX);
                            if p != data_len {
                                mk(format!("position {} (the end) after read_exact ran into the end, as for a byte vector with a cursor", data_len), format!("{p}"), "eof | position")
                            } else {
                                h.pos = p;
                                Ok(())
                            }
                        } else {
                            mk(if *n > avail { "Err(UnexpectedEof)".into() } else { "Ok".into() }, format!("Err({:?}: {e})", e.kind()), "ok | err")
                        }
                    }
                }
            }
            Step::HFill { eighths, .. } => match stream.fill_buf() {
                Ok(slice) => {
                    let node = self.model.get(&h.names).unwrap();
                    let rest = &node.data[h.pos as usize..];
                    let l = slice.len();
                    if (l == 0) != rest.is_empty() || l > rest.len() {
                        mk(format!("non-empty prefix of the {} remaining bytes", rest.len()), format!("{l} bytes"), "contract | count")
                    } else if slice != &rest[..l] {
                        let d = describe_bytes_diff(&rest[..l], slice);
                        mk("prefix of model[pos..]".into(), d, "contract | bytes")
                    } else {
                        // eighths = 255: consume exactly one byte if there is one (an outcome
                        // that does not depend on how much fill_buf offered)
                        let k = if *eighths == 255 { l.min(1) } else { l * (*eighths as usize).min(8) / 8 };
                        stream.consume(k);
                        h.pos += k as u64;
                        Ok(())
                    }
                }
                Err(e) => mk("Ok(slice)".into(), format!("Err({:?}: {e})", e.kind()), "ok | err"),
            },
            Step::HWrite { len, .. } | Step::HWriteAll { len, .. } | Step::HWriteTag { len, .. } => {
                let j = if let Step::HWriteTag { tag, .. } = step {
                    *tag
                } else {
                    self.write_counter += 1;
                    self.write_counter - 1
                };
                let data = payload(j, *len);
                let all = !matches!(step, Step::HWrite { .. });
                let r = if all { stream.write_all(&data).map(|_| *len) } else { stream.write(&data) };
                match r {
                    Ok(k) => {
                        if k > *len || (*len > 0 && k == 0) {
                            mk(format!("write({len}) accepts 1..={len} bytes"), format!("Ok({k})"), "contract | count")
                        } else {
                            let node = self.model.get_mut(&h.names).unwrap();
                            let end = h.pos as usize + k;
                            if node.data.len() < end {
                                node.data.resize(end, 0);
                            }
                            node.data[h.pos as usize..end].copy_from_slice(&data[..k]);
                            h.pos = end as u64;
                            if k > 0 {
                                h.dirty = true;
                            }
                            Ok(())
                        }
                    }
                    Err(e) => mk("Ok(k)".into(), format!("Err({:?}: {e})", e.kind()), "ok | err"),
                }
            }
            Step::HSeek { from, .. } => {
                let target: i128 = match from {
                    SeekFrom::Start(n) => *n as i128,
                    SeekFrom::End(d) => data_len as i128 + *d as i128,
                    SeekFrom::Current(d) => h.pos as i128 + *d as i128,
                };
                let r = match from {
                    SeekFrom::Current(d) if use_seek_relative(*d, h.pos) => stream.seek_relative(*d).and_then(|()| stream.stream_position()),
                    _ => stream.seek(*from),
                };
                let after = stream.stream_position();
                if target < 0 || target > data_len as i128 {
                    match r {
                        Err(e) if e.kind() == ErrorKind::InvalidInput => match after {
                            Ok(p) if p == h.pos => Ok(()),
                            other => mk(format!("position unchanged ({}) after refused seek", h.pos), format!("{other:?}"), "refuse:out_of_range | position-moved"),
                        },
                        Err(e) => mk("Err(InvalidInput)".into(), format!("Err({:?}: {e})", e.kind()), "refuse:out_of_range | err-kind"),
                        Ok(p) => mk("Err(InvalidInput)".into(), format!("Ok({p})"), "refuse:out_of_range | ok"),
                    }
                } else {
                    match r {
                        Ok(p) if p as i128 == target => {
                            h.pos = p;
                            Ok(())
                        }
                        Ok(p) => mk(format!("Ok({target})"), format!("Ok({p})"), "ok | value-mismatch"),
                        Err(e) => mk(format!("Ok({target})"), format!("Err({:?}: {e})", e.kind()), "ok | err"),
                    }
                }
            }
            // A length beyond anything a compound file can hold (more sectors than the FAT
            // can number) has no byte-array counterpart: the call must answer with an error -
            // not a panic, not an endless allocation - and change nothing.  (A dirty buffer
            // may be written back by the attempt; the model's content is unaffected by that.)
            // (4 GiB ... 32 TiB: a version 4 file can hold that, and nothing here wants such a
            // stream: the step is skipped; a version 3 file cannot - next arm)
            Step::HSetLen { n, .. } if *n >= V3_UNREPRESENTABLE_LEN && *n < UNREPRESENTABLE_LEN && self.version == Version::V4 => Ok(()),
            Step::HSetLen { n, .. } if unrepresentable_len(self.version, *n) => match stream.set_len(*n) {
                Ok(()) => mk("Err(_): no compound file can hold that length".into(), "Ok(())".into(), "refuse:unrepresentable_length | ok"),
                Err(_) => Ok(()),
            },
            Step::HSetLen { n, .. } => match stream.set_len(*n) {
                Ok(()) => {
                    let node = self.model.get_mut(&h.names).unwrap();
                    let changed = node.data.len() as u64 != *n;
                    node.data.resize(*n as usize, 0);
                    h.pos = h.pos.min(*n);
                    if changed {
                        h.dirty = false;
                    }
                    Ok(())
                }
                Err(e) => mk("Ok(())".into(), format!("Err({:?}: {e})", e.kind()), "ok | err"),
            },
            Step::HFlush { .. } => match stream.flush() {
                Ok(()) => {
                    h.dirty = false;
                    Ok(())
                }
                Err(e) => mk("Ok(())".into(), format!("Err({:?}: {e})", e.kind()), "ok | err"),
            },
            Step::HPos { .. } => match stream.stream_position() {
                Ok(p) if p == h.pos => Ok(()),
                other => mk(format!("Ok({})", h.pos), format!("{other:?}"), "ok | value-mismatch"),
            },
            Step::HLen { .. } => {
                let l = stream.len();
                if l == data_len && stream.is_empty() == (data_len == 0) {
                    Ok(())
                } else {
                    mk(format!("{data_len}"), format!("{l}"), "ok | value-mismatch")
                }
            }
            Step::HReadToEnd { .. } if use_read_to_string(data_len, h.pos) => {
                let mut text = String::new();
                let node = self.model.get(&h.names).unwrap();
                let rest = node.data[h.pos as usize..].to_vec();
                let valid = std::str::from_utf8(&rest).is_ok();
                match stream.read_to_string(&mut text) {
                    Ok(k) => {
                        if !valid || k != text.len() || text.as_bytes() != &rest[..] {
                            mk(if valid { "rest of the stream as text".into() } else { "Err(InvalidData): the rest of the stream is not UTF-8".into() }, format!("Ok({k})"), "read_to_string | ok | value")
                        } else {
                            h.pos = data_len;
                            Ok(())
                        }
                    }
                    Err(e) if e.kind() == ErrorKind::InvalidData && !valid => {
                        // the default implementation reads to the end first, then validates
                        h.pos = data_len;
                        Ok(())
                    }
                    Err(e) => mk(if valid { "Ok(n)".into() } else { "Err(InvalidData)".into() }, format!("Err({:?}: {e})", e.kind()), "read_to_string | err"),
                }
            }
            Step::HReadToEnd { .. } => {
                let mut v = Vec::new();
                match stream.read_to_end(&mut v) {
                    Ok(k) => {
                        let node = self.model.get(&h.names).unwrap();
                        let rest = &node.data[h.pos as usize..];
                        if k != v.len() || v != rest {
                            let d = if v.len() == rest.len() { describe_bytes_diff(rest, &v) } else { format!("{} bytes expected, {} observed", rest.len(), v.len()) };
                            mk("rest of the stream".into(), d, "ok | bytes")
                        } else {
                            h.pos = data_len;
                            Ok(())
                        }
                    }
                    Err(e) => mk("Ok(n)".into(), format!("Err({:?}: {e})", e.kind()), "ok | err"),
                }
            }
            Step::HClose { .. } => {
                let r = stream.flush();
                self.streams[slot] = None;
                self.hm[slot] = None;
                return match r {
                    Ok(()) => Ok(()),
                    Err(e) => mk("Ok(())".into(), format!("Err({:?}: {e})", e.kind()), "ok | err"),
                };
            }
            Step::HDrop { .. } => {
                self.streams[slot] = None;
                self.hm[slot] = None;
                return Ok(());
            }
            _ => unreachable!(),
        };
        // len()/position are always current: cheap check after every handle step
        if result.is_ok() {
            let stream = self.streams[slot].as_mut().unwrap();
            let new_len = self.model.get(&h.names).map(|n| n.data.len() as u64).unwrap_or(0);
            let l = stream.len();
            // stream_position() is a seek(Current(0)); on a handle with unwritten changes it
            // is only made every other time, so that a seek which wrongly writes the
            // buffer back does not do so unseen inside this probe before the workload's
            // own next call arrives
            let probe = !h.dirty || h.pos.wrapping_add(new_len) % 2 == 0;
            let p = if probe { stream.stream_position() } else { Ok(h.pos) };
            self.hm[slot] = Some(h.clone());
            if l != new_len {
                return mk(format!("len() = {new_len} after {}", step.name()), format!("{l}"), "len-not-current");
            }
            match p {
                Ok(p) if p == h.pos => {}
                other => return mk(format!("stream_position() = {} after {}", h.pos, step.name()), format!("{other:?}"), "position-mismatch"),
            }
        } else {
            self.hm[slot] = Some(h);
        }
        result
    }

    /// Flushes and closes every handle (used before dumps / reopen).
    pub fn close_all(&mut self) -> Option<Divergence> {
        for slot in self.open_slots() {
            if let Some(d) = self.run(&Step::HClose { slot }) {
                return Some(d);
            }
        }
        None
    }

    /// Flush every dirty handle (keeps them open).
    pub fn flush_all(&mut self) -> Option<Divergence> {
        for slot in self.open_slots() {
            if self.hm[slot].as_ref().map(|h| h.dirty).unwrap_or(false) {
                if let Some(d) = self.run(&Step::HFlush { slot }) {
                    return Some(d);
                }
            }
        }
        None
    }
}

pub fn open_with(file: MonFile, mode: Mode, bufsize: Option<usize>) -> io::Result<CF> {
    // The two builder calls commute; which comes first is a pure function of the image
    // size (so a replay makes the same choice).
    let n = file.st.len();
    let strict_first = (n / 512 + n / 4096) % 2 == 1;
    let mut o = OpenOptions::new();
    if strict_first && mode == Mode::Strict {
        o = o.strict();
    }
    if let Some(b) = bufsize {
        o = o.max_buffer_size(b);
    }
    if !strict_first && mode == Mode::Strict {
        o = o.strict();
    }
    o.open_with(file)
}

pub fn uuid_of(b: &[u8; 16]) -> uuid::Uuid {
    uuid::Uuid::from_bytes(*b)
}

/// Executes one API-level op on a compound file over any backend.
pub fn exec_api_on<F: Read + Write + Seek>(cf: &mut CompoundFile<F>, op: &Op) -> Result<Out, io::Error> {
    let ticks_to_st = |ns: i128| ns_to_st(ns).unwrap_or(UNIX_EPOCH);
    Ok(match op {
        Op::CreateStorage(p) => {
            cf.create_storage(p)?;
            Out::Unit
        }
        Op::CreateStorageAll(p) => {
            cf.create_storage_all(p)?;
            Out::Unit
        }
        Op::CreateStream(p) => {
            let s = cf.create_stream(p)?;
            Out::Handle(s.len())
        }
        Op::CreateNewStream(p) => {
            let s = cf.create_new_stream(p)?;
            Out::Handle(s.len())
        }
        Op::RemoveStream(p) => {
            cf.remove_stream(p)?;
            Out::Unit
        }
        Op::RemoveStorage(p) => {
            cf.remove_storage(p)?;
            Out::Unit
        }
        Op::RemoveStorageAll(p) => {
            cf.remove_storage_all(p)?;
            Out::Unit
        }
        Op::OpenStream(p) => {
            let s = cf.open_stream(p)?;
            Out::Handle(s.len())
        }
        Op::Exists(p) => Out::Bool(cf.exists(p)),
        Op::IsStream(p) => Out::Bool(cf.is_stream(p)),
        Op::IsStorage(p) => Out::Bool(cf.is_storage(p)),
        Op::Entry(p) => Out::Entry(view_of(&cf.entry(p)?)),
        Op::RootEntry => Out::Entry(view_of(&cf.root_entry())),
        Op::ReadStorage(p) => Out::List(cf.read_storage(p)?.map(|e| view_of(&e)).collect()),
        Op::ReadRootStorage => Out::List(cf.read_root_storage().map(|e| view_of(&e)).collect()),
        Op::Walk => Out::List(cf.walk().map(|e| view_of(&e)).collect()),
        Op::WalkStorage(p) => Out::List(cf.walk_storage(p)?.map(|e| view_of(&e)).collect()),
        Op::SetClsid(p, c) => {
            cf.set_storage_clsid(p, uuid_of(c))?;
            Out::Unit
        }
        Op::SetState(p, s) => {
            cf.set_state_bits(p, *s)?;
            Out::Unit
        }
        Op::SetCreated(p, t) => {
            cf.set_created_time(p, ticks_to_st(*t))?;
            Out::Unit
        }
        Op::SetModified(p, t) => {
            cf.set_modified_time(p, ticks_to_st(*t))?;
            Out::Unit
        }
        Op::Touch(p) => {
            cf.touch(p)?;
            Out::Unit
        }
    })
}

// ---------------------------------------------------------------------------
// Dumps

/// Complete logical dump through the public API: walk() in pre-order plus every
/// stream's bytes through a fresh handle.
pub fn dump_live<F: Read + Seek>(cf: &mut CompoundFile<F>) -> Result<Vec<(EntryView, Vec<u8>)>, String> {
    let entries: Vec<cfb::Entry> = cf.walk().collect();
    let mut out = Vec::with_capacity(entries.len());
    for e in entries {
        let v = view_of(&e);
        let data = if e.is_stream() {
            let mut s = cf.open_stream(e.path()).map_err(|er| format!("open_stream({:?}) failed: {er}", e.path()))?;
            let mut buf = Vec::new();
            s.read_to_end(&mut buf).map_err(|er| format!("read_to_end({:?}) failed: {er}", e.path()))?;
            if buf.len() as u64 != e.len() {
                return Err(format!("{:?}: entry len {} but read_to_end gave {}", e.path(), e.len(), buf.len()));
            }
            buf
        } else {
            Vec::new()
        };
        out.push((v, data));
    }
    Ok(out)
}

/// Compares two dumps (expected may contain unknown times).
pub fn dumps_match(exp: &[(EntryView, Vec<u8>)], obs: &[(EntryView, Vec<u8>)]) -> Result<(), String> {
    if exp.len() != obs.len() {
        return Err(format!("{} objects expected, {} observed: expected {:?}, observed {:?}", exp.len(), obs.len(), exp.iter().map(|e| e.0.path.as_str()).collect::<Vec<_>>(), obs.iter().map(|e| e.0.path.as_str()).collect::<Vec<_>>()));
    }
    for (a, b) in exp.iter().zip(obs.iter()) {
        view_matches(&a.0, &b.0)?;
        if a.0.kind == Kind::Stream && a.1 != b.1 {
            return Err(format!("content of {}: {}", a.0.path, describe_bytes_diff(&a.1, &b.1)));
        }
    }
    Ok(())
}

impl Session {
    /// Full comparison of the live object with the model (no handle may be dirty).
    /// `deep`: also check entry() for every path, read_storage for every storage and a
    /// few absent paths.
    pub fn check_against_model(&mut self, deep: bool) -> Result<usize, String> {
        let exp = self.model.dump();
        let cf = self.cf.as_mut().unwrap();
        let obs = dump_live(cf)?;
        dumps_match(&exp, &obs)?;
        // adopt unknown times
        for (v, _) in &obs {
            if let Some(names) = model::normalise(&v.path) {
                if let Some(n) = self.model.get_mut(&names) {
                    if n.ctime.is_none() {
                        n.ctime = v.ctime;
                    }
                    if n.mtime.is_none() {
                        n.mtime = v.mtime;
                    }
                }
            }
        }
        if deep {
            let paths = self.model.all_paths();
            for (p, k) in &paths {
                let exp_e = self.model.apply(&Op::Entry(p.clone()));
                let obs_e = exec_api_on(self.cf.as_mut().unwrap(), &Op::Entry(p.clone()));
                if let (Expect::Ok(e), Ok(o)) = (&exp_e, &obs_e) {
                    out_matches(e, o).map_err(|w| format!("entry({p}): {w}"))?;
                } else {
                    return Err(format!("entry({p}) failed: {:?}", obs_e.err().map(|e| e.to_string())));
                }
                if *k != Kind::Stream {
                    let exp_l = self.model.apply(&Op::ReadStorage(p.clone()));
                    let obs_l = exec_api_on(self.cf.as_mut().unwrap(), &Op::ReadStorage(p.clone()));
                    if let (Expect::Ok(e), Ok(o)) = (&exp_l, &obs_l) {
                        out_matches(e, o).map_err(|w| format!("read_storage({p}): {w}"))?;
                    } else {
                        return Err(format!("read_storage({p}) failed: {:?}", obs_l.err().map(|e| e.to_string())));
                    }
                }
                let cf = self.cf.as_mut().unwrap();
                let (ex, is, ig) = (cf.exists(p), cf.is_stream(p), cf.is_storage(p));
                if !ex || is != (*k == Kind::Stream) || ig == is {
                    return Err(format!("exists/is_stream/is_storage({p}) = {ex}/{is}/{ig} for a {k:?}"));
                }
            }
        }
        Ok(obs.len())
    }
}

/// Reopens a byte image in the given mode and dumps it.
pub fn dump_bytes(bytes: &[u8], mode: Mode) -> Result<Vec<(EntryView, Vec<u8>)>, String> {
    let (file, _sh) = MonFile::new(bytes.to_vec());
    let mut cf = open_with(file, mode, None).map_err(|e| format!("open ({mode:?}) failed: {e}"))?;
    dump_live(&mut cf)
}
