//! Structure-aware corruption of valid images (C05, C11) and the documented-deviation
//! injector (C16).  Driven by refparse's field map.

use crate::refparse::{self, rd16, rd32, rd64, wr16, wr32, wr64, Field, FieldClass, Image, DIFSECT, END, FATSECT, FREE, NOSTREAM};
use crate::rng::Rng;
use std::collections::BTreeMap;

pub struct FieldIndex {
    pub by_class: BTreeMap<FieldClass, Vec<Field>>,
    pub classes: Vec<FieldClass>,
}

pub fn index_fields(img: &Image) -> FieldIndex {
    let mut by_class: BTreeMap<FieldClass, Vec<Field>> = BTreeMap::new();
    for f in refparse::field_map(img) {
        by_class.entry(f.class).or_default().push(f);
    }
    let classes = by_class.keys().cloned().collect();
    FieldIndex { by_class, classes }
}

fn sectorish(rng: &mut Rng, img: &Image, own: u32, old: u32) -> u32 {
    let n = img.nsect as u32;
    match rng.below(14) {
        0 => own,                                  // self loop
        1 => rng.below(n.max(1) as u64) as u32,    // some sector (another chain / upstream)
        2 => n,                                    // first out of range
        3 => n + 1 + rng.below(1000) as u32,
        4 => 0x7FFF_FFFF,
        5 => FREE,
        6 => END,
        7 => FATSECT,
        8 => DIFSECT,
        9 => 0xFFFF_FFFB,
        10 => 0,
        11 => old.wrapping_add(1),
        12 => old.wrapping_sub(1),
        _ => rng.next_u32(),
    }
}

fn countish(rng: &mut Rng, old: u32) -> u32 {
    match rng.below(9) {
        0 => 0,
        1 => 1,
        2 => old.wrapping_add(1),
        3 => old.wrapping_sub(1),
        4 => 0xFFFF_FFFF,
        5 => 0x7FFF_FFFF,
        6 => rng.below(20) as u32,
        7 => old.wrapping_mul(2),
        _ => rng.next_u32(),
    }
}

/// Which classes a workload wants to emphasise.
#[derive(Clone, Copy, PartialEq, Eq)]
pub enum Emphasis {
    Any,
    /// What permissive open never walks: stream start sectors/sizes, the root's mini
    /// stream, MiniFAT/FAT cells, sibling links (C11).
    PostOpen,
}

/// Applies one field-level mutation; returns its description.
pub fn mutate_field(rng: &mut Rng, bytes: &mut [u8], img: &Image, idx: &FieldIndex, emph: Emphasis) -> String {
    use FieldClass::*;
    let post_open: &[FieldClass] = &[DirStart, DirSize, MiniFatCell, FatCell, DirLeft, DirRight, DirChild, DirStart, DirSize, MiniFatCell, HdrFirstMiniFat, DirType];
    let class = if emph == Emphasis::PostOpen && rng.chance(4, 5) {
        let c = *rng.pick(post_open);
        if idx.by_class.contains_key(&c) {
            c
        } else {
            *rng.pick(&idx.classes)
        }
    } else {
        *rng.pick(&idx.classes)
    };
    let fields = &idx.by_class[&class];
    // prefer cells / entries that are in use
    let mut f = rng.pick(fields).clone();
    for _ in 0..6 {
        let in_use = match class {
            FatCell | MiniFatCell | DifatCell => rd32(bytes, f.off) != FREE,
            DirNameUnit | DirNameLen | DirType | DirColor | DirLeft | DirRight | DirChild | DirClsid | DirState | DirCtime | DirMtime | DirStart | DirSize => img.entries.get(f.ctx as usize).map(|e| e.obj_type != 0).unwrap_or(false),
            _ => true,
        };
        if in_use || rng.chance(1, 5) {
            break;
        }
        f = rng.pick(fields).clone();
    }
    if f.off + f.width as usize > bytes.len() {
        return format!("{:?}@{} (beyond truncated file)", class, f.off);
    }
    let desc;
    match class {
        HdrMinor | HdrBom | HdrReserved => {
            let v = rng.next_u32() as u16;
            wr16(bytes, f.off, v);
            desc = format!("{:?}={:#x}", class, v);
        }
        HdrMajor => {
            let v = *rng.pick(&[0u16, 2, 3, 4, 5, 0xFFFF]);
            wr16(bytes, f.off, v);
            desc = format!("major={v}");
        }
        HdrSectorShift | HdrMiniShift => {
            let v = *rng.pick(&[0u16, 6, 7, 9, 12, 16, 31, 0xFFFF]);
            wr16(bytes, f.off, v);
            desc = format!("{:?}={v}", class);
        }
        HdrCutoff | HdrTransSig => {
            let v = *rng.pick(&[0u32, 64, 4095, 4096, 4097, 0xFFFF_FFFF]);
            wr32(bytes, f.off, v);
            desc = format!("{:?}={v}", class);
        }
        HdrNumDir | HdrNumFat | HdrNumMiniFat | HdrNumDifat => {
            let old = rd32(bytes, f.off);
            let v = countish(rng, old);
            wr32(bytes, f.off, v);
            desc = format!("{:?}: {old} -> {v:#x}", class);
        }
        HdrFirstDir | HdrFirstMiniFat | HdrFirstDifat | DifatCell | DifatNext | FatCell | MiniFatCell | DirStart => {
            let old = rd32(bytes, f.off);
            let v = sectorish(rng, img, f.ctx, old);
            wr32(bytes, f.off, v);
            desc = format!("{:?}[{}]: {old:#x} -> {v:#x}", class, f.ctx);
        }
        DirNameUnit => {
            let v = *rng.pick(&[0u16, 0xD800, 0xDC00, 0xDFFF, 0xDBFF, '/' as u16, ':' as u16, '!' as u16, '\\' as u16, 'a' as u16, '.' as u16, 0xFFFF, 0x3C3]);
            wr16(bytes, f.off, v);
            desc = format!("name unit of entry {} = {v:#x}", f.ctx);
        }
        DirNameLen => {
            let old = rd16(bytes, f.off);
            let v = *rng.pick(&[0u16, 1, 2, 3, 62, 64, 65, 66, 0xFFFF, old.wrapping_add(2), old.wrapping_sub(2)]);
            wr16(bytes, f.off, v);
            desc = format!("name length of entry {}: {old} -> {v}", f.ctx);
        }
        DirType => {
            let v = *rng.pick(&[0u8, 1, 2, 5, 3, 4, 0xFF]);
            bytes[f.off] = v;
            desc = format!("type of entry {} = {v}", f.ctx);
        }
        DirColor => {
            let v = *rng.pick(&[0u8, 1, 2, 0xFF]);
            bytes[f.off] = v;
            desc = format!("colour of entry {} = {v}", f.ctx);
        }
        DirLeft | DirRight | DirChild => {
            let n = img.entries.len() as u32;
            let old = rd32(bytes, f.off);
            let v = match rng.below(9) {
                0 => f.ctx,
                1 => 0,
                2 => rng.below(n.max(1) as u64) as u32,
                3 => n,
                4 => 0xFFFF_FFFE,
                5 => NOSTREAM,
                6 => 0xFFFF_FFFB,
                7 => n.wrapping_sub(1),
                _ => rng.next_u32(),
            };
            wr32(bytes, f.off, v);
            desc = format!("{:?} of entry {}: {old:#x} -> {v:#x}", class, f.ctx);
        }
        DirSize => {
            let old = rd64(bytes, f.off);
            let v = match rng.below(16) {
                14 => u64::MAX - 63,
                15 => u64::MAX & !63,
                0 => 0,
                1 => 4095,
                2 => 4096,
                3 => (1u64 << 32) - 1,
                4 => 1u64 << 32,
                5 => 1u64 << 63,
                6 => u64::MAX,
                7 => old.wrapping_add(1),
                8 => old.wrapping_sub(1),
                9 => old.wrapping_add(64),
                10 => old.wrapping_mul(2),
                11 => old / 2,
                12 => rng.below(100_000),
                _ => rng.next_u64(),
            };
            wr64(bytes, f.off, v);
            desc = format!("size of entry {}: {old} -> {v:#x}", f.ctx);
        }
        DirClsid | DirState | DirCtime | DirMtime => {
            for k in 0..f.width as usize {
                bytes[f.off + k] = rng.next_u32() as u8;
            }
            desc = format!("{:?} of entry {} randomised", class, f.ctx);
        }
    }
    desc
}

/// Regular chain (sector ids) of an entry according to the image's FAT (bounded walk).
fn regular_chain(img: &Image, start: u32) -> Vec<u32> {
    let mut v = Vec::new();
    let mut cur = start;
    while (cur as usize) < img.nsect && v.len() <= img.nsect {
        v.push(cur);
        match img.fat_get(cur) {
            Some(n) => cur = n,
            None => break,
        }
    }
    v
}

/// Coordinated deviations: two or three fields changed together so that each change alone
/// would be refused (or harmless) but the combination is accepted by open.  Returns the
/// description, or None if the image offers no place for the chosen recipe.
pub fn compound(rng: &mut Rng, bytes: &mut [u8], img: &Image) -> Option<String> {
    let regular: Vec<&refparse::RawEntry> = img.entries.iter().filter(|e| e.obj_type == 2 && e.size >= 4096 && (e.start as usize) < img.nsect).collect();
    match rng.below(8) {
        6 | 7 => {
            // a stream entry names a chain the format keeps for itself (MiniFAT, directory,
            // mini stream container, a FAT sector, a DIFAT sector) as its data, with a length
            // to match: open looks at no stream's chain, so the file is accepted, and resizing,
            // removing or overwriting the stream then works on the library's own structures
            let streams: Vec<&refparse::RawEntry> = img.entries.iter().filter(|e| e.obj_type == 2).collect();
            if streams.is_empty() {
                return None;
            }
            let e = *rng.pick(&streams);
            let (what, chain): (&str, Vec<u32>) = match rng.below(5) {
                0 => ("MiniFAT chain", img.minifat_chain.clone()),
                1 => ("directory chain", img.dir_chain.clone()),
                2 => ("mini stream container", img.ministream_chain.clone()),
                3 => ("FAT sector", img.fat_sectors.last().map(|s| vec![*s]).unwrap_or_default()),
                _ => ("DIFAT sector", img.difat_sectors.first().map(|s| vec![*s]).unwrap_or_default()),
            };
            if chain.is_empty() {
                return None;
            }
            let from = if rng.chance(2, 3) { 0 } else { rng.usize_below(chain.len()) };
            let held = ((chain.len() - from) * img.sector_len) as u64;
            let len = match rng.below(4) {
                0 => held,
                1 => held.saturating_sub(rng.below(img.sector_len as u64)).max(4096),
                2 => held + img.sector_len as u64,
                _ => held.max(4096),
            };
            wr32(bytes, e.off + 116, chain[from]);
            wr64(bytes, e.off + 120, len);
            Some(format!("compound: stream entry {} starts at sector {} of the {what} (position {from} of {}), size {} -> {len}", e.idx, chain[from], chain.len(), e.size))
        }
        5 => {
            // a live entry's free link points at an unallocated slot that still carries links
            // and a name (a "deleted" entry that was never cleaned)
            let n = img.entries.len() as u32;
            let free: Vec<&refparse::RawEntry> = img.entries.iter().filter(|e| e.obj_type == 0).collect();
            let live: Vec<&refparse::RawEntry> = img.entries.iter().filter(|e| e.obj_type != 0).collect();
            if free.is_empty() || live.len() < 2 {
                return None;
            }
            let u = *rng.pick(&free);
            let owner = *rng.pick(&live);
            let (off, which) = if owner.left == NOSTREAM && owner.idx != 0 {
                (owner.off + 68, "left")
            } else if owner.right == NOSTREAM && owner.idx != 0 {
                (owner.off + 72, "right")
            } else if owner.child == NOSTREAM && owner.obj_type != 2 {
                (owner.off + 76, "child")
            } else {
                return None;
            };
            wr32(bytes, off, u.idx);
            // dirt in the free slot: a name and links (back into the tree, to itself, out of range)
            let name: Vec<u16> = "zz".encode_utf16().collect();
            if rng.chance(1, 2) {
                for (i, c) in name.iter().enumerate() {
                    wr16(bytes, u.off + 2 * i, *c);
                }
                wr16(bytes, u.off + 64, 6);
            }
            let target = match rng.below(4) {
                0 => owner.idx,
                1 => u.idx,
                2 => n + 1000,
                _ => (*rng.pick(&live)).idx,
            };
            wr32(bytes, u.off + *rng.pick(&[68usize, 72, 76]), target);
            Some(format!("compound: {which} link of entry {} -> unallocated slot {} which keeps a link to {target}", owner.idx, u.idx))
        }
        0 => {
            // an allocated entry cut out of the tree (an orphan, as left by a writer that
            // deletes by unlinking) and adopted as the "child" of a stream
            let n = img.entries.len() as u32;
            let cands: Vec<&refparse::RawEntry> = img.entries.iter().filter(|e| e.idx != 0 && e.obj_type != 0 && e.obj_type != 5).collect();
            if cands.len() < 2 {
                return None;
            }
            let x = (*rng.pick(&cands)).idx;
            // the link that refers to x
            let mut cut = None;
            for e in img.entries.iter().filter(|e| e.obj_type != 0) {
                for (k, v) in [(68usize, e.left), (72, e.right), (76, e.child)] {
                    if v == x && v < n {
                        cut = Some((e.off + k, e.idx));
                    }
                }
            }
            let (cut_off, by) = cut?;
            let streams: Vec<&refparse::RawEntry> = cands.iter().cloned().filter(|e| e.obj_type == 2 && e.idx != x).collect();
            if streams.is_empty() {
                return None;
            }
            let s = *rng.pick(&streams);
            wr32(bytes, cut_off, NOSTREAM);
            wr32(bytes, s.off + 76, x);
            Some(format!("compound: entry {x} unlinked from entry {by} and set as the child of stream entry {}", s.idx))
        }
        1 => {
            // a chain that returns to its first sector, under a length far beyond the chain
            let e = *rng.pick(&regular.iter().cloned().filter(|e| regular_chain(img, e.start).len() >= 2).collect::<Vec<_>>().get(..).filter(|v| !v.is_empty())?);
            let chain = regular_chain(img, e.start);
            let last = *chain.last()?;
            let off = img.fat_cell_off(last as usize)?;
            wr32(bytes, off, e.start);
            let len = *rng.pick(&[1u64 << 40, u32::MAX as u64, 1 << 31, e.size * 1000 + 7, (1 << 32) + 5000]);
            wr64(bytes, e.off + 120, len);
            Some(format!("compound: FAT[{last}] -> {} (first sector of entry {}) and its size {} -> {len:#x}", e.start, e.idx, e.size))
        }
        2 => {
            // a chain whose last link is FREESECT (the tail sector is both in the chain and free)
            let multi: Vec<&refparse::RawEntry> = regular.iter().cloned().filter(|e| regular_chain(img, e.start).len() >= 2).collect();
            if multi.is_empty() {
                return None;
            }
            let e = if rng.chance(1, 2) { *multi.iter().max_by_key(|e| regular_chain(img, e.start).last().cloned().unwrap_or(0))? } else { *rng.pick(&multi) };
            let chain = regular_chain(img, e.start);
            let last = *chain.last()?;
            let off = img.fat_cell_off(last as usize)?;
            wr32(bytes, off, FREE);
            Some(format!("compound: FAT[{last}] (tail of entry {}'s chain) = FREESECT", e.idx))
        }
        3 => {
            // two streams share their chain (cross-link)
            if regular.len() < 2 {
                return None;
            }
            let a = *rng.pick(&regular);
            let b = *rng.pick(&regular);
            if a.idx == b.idx {
                return None;
            }
            wr32(bytes, b.off + 116, a.start);
            if rng.chance(1, 2) {
                wr64(bytes, b.off + 120, a.size);
            }
            Some(format!("compound: entry {} starts at entry {}'s first sector {}", b.idx, a.idx, a.start))
        }
        _ => {
            // the chain's tail points into the middle of another stream's chain, with a size to match
            if regular.len() < 2 {
                return None;
            }
            let a = *rng.pick(&regular);
            let b = *rng.pick(&regular);
            if a.idx == b.idx {
                return None;
            }
            let ca = regular_chain(img, a.start);
            let cb = regular_chain(img, b.start);
            let last = *ca.last()?;
            let into = *rng.pick(&cb);
            let off = img.fat_cell_off(last as usize)?;
            wr32(bytes, off, into);
            wr64(bytes, a.off + 120, a.size + b.size);
            Some(format!("compound: tail FAT[{last}] of entry {} -> sector {into} of entry {}'s chain; size {} -> {}", a.idx, b.idx, a.size, a.size + b.size))
        }
    }
}

/// Whole-file damage: truncation, extension, byte flips.
pub fn mutate_file(rng: &mut Rng, bytes: &mut Vec<u8>) -> String {
    match rng.below(6) {
        0 => {
            let n = rng.below(bytes.len() as u64 + 1) as usize;
            bytes.truncate(n);
            format!("truncated to {n}")
        }
        1 => {
            // truncate at a structure boundary +- 1
            let sl = if bytes.len() > 30 && rd16(bytes, 30) == 12 { 4096 } else { 512 };
            let k = rng.below((bytes.len() / sl) as u64 + 1) as usize * sl;
            let n = (k as i64 + *rng.pick(&[-1i64, 0, 1, 64, 128])).clamp(0, bytes.len() as i64) as usize;
            bytes.truncate(n);
            format!("truncated to {n}")
        }
        2 => {
            let n = *rng.pick(&[1usize, 63, 511, 512, 513, 4095, 4096, 5000]);
            for _ in 0..n {
                bytes.push(rng.next_u32() as u8);
            }
            format!("extended by {n} garbage bytes")
        }
        3 => {
            let n = *rng.pick(&[512usize, 4096, 8192]);
            bytes.extend(std::iter::repeat(0xFF).take(n));
            format!("extended by {n} 0xFF bytes")
        }
        _ => {
            let k = rng.range(1, 8);
            for _ in 0..k {
                if bytes.is_empty() {
                    break;
                }
                let o = rng.usize_below(bytes.len());
                bytes[o] ^= 1 << rng.below(8);
            }
            format!("{k} random bit flips")
        }
    }
}

/// Short random byte string with a valid header prefix.
pub fn random_with_magic(rng: &mut Rng) -> Vec<u8> {
    let v4 = rng.chance(1, 2);
    let len = *rng.pick(&[512usize, 513, 1024, 1536, 2048, 4096, 8192, 12288]);
    let mut b: Vec<u8> = (0..len).map(|_| if rng.chance(1, 3) { 0xFF } else if rng.chance(1, 2) { 0 } else { rng.next_u32() as u8 }).collect();
    b[..8].copy_from_slice(&refparse::MAGIC);
    for x in b[8..24].iter_mut() {
        *x = 0;
    }
    wr16(&mut b, 24, 0x3E);
    wr16(&mut b, 26, if v4 { 4 } else { 3 });
    wr16(&mut b, 28, 0xFFFE);
    wr16(&mut b, 30, if v4 { 12 } else { 9 });
    wr16(&mut b, 32, 6);
    wr32(&mut b, 56, 4096);
    let n = (len / if v4 { 4096 } else { 512 }).max(1) as u32;
    for off in [44usize, 48, 60, 64, 68, 72, 76, 80] {
        let v = match rng.below(5) {
            0 => rng.below(n as u64 + 2) as u32,
            1 => END,
            2 => FREE,
            3 => 0,
            _ => rng.next_u32(),
        };
        wr32(&mut b, off, v);
    }
    b
}

/// "Amplification" inputs for the memory bound of C05: a small file whose DIFAT
/// sectors all name the same FAT sector, header counts set high.
pub fn amplification_input(rng: &mut Rng) -> Vec<u8> {
    let v4 = rng.chance(1, 2);
    let sl = if v4 { 4096 } else { 512 };
    let n_difat = rng.range(1, 3) as usize;
    let total = 2 + n_difat; // fat sector 0, dir sector 1, difat sectors 2..
    let mut b = vec![0u8; (total + 1) * sl];
    b[..8].copy_from_slice(&refparse::MAGIC);
    wr16(&mut b, 24, 0x3E);
    wr16(&mut b, 26, if v4 { 4 } else { 3 });
    wr16(&mut b, 28, 0xFFFE);
    wr16(&mut b, 30, if v4 { 12 } else { 9 });
    wr16(&mut b, 32, 6);
    wr32(&mut b, 40, if v4 { 1 } else { 0 });
    wr32(&mut b, 44, *rng.pick(&[1u32, 109, 10000, 0xFFFF_FFFF]));
    wr32(&mut b, 48, 1);
    wr32(&mut b, 56, 4096);
    wr32(&mut b, 60, END);
    wr32(&mut b, 68, 2);
    wr32(&mut b, 72, n_difat as u32);
    for i in 0..109 {
        wr32(&mut b, 76 + 4 * i, 0);
    }
    // FAT sector 0
    let base = sl;
    for i in 0..sl / 4 {
        wr32(&mut b, base + 4 * i, FREE);
    }
    wr32(&mut b, base, FATSECT);
    wr32(&mut b, base + 4, END);
    for k in 0..n_difat {
        wr32(&mut b, base + 4 * (2 + k), DIFSECT);
    }
    // dir sector 1: root + blanks
    let d = 2 * sl;
    for e in 0..sl / 128 {
        let o = d + 128 * e;
        wr32(&mut b, o + 68, NOSTREAM);
        wr32(&mut b, o + 72, NOSTREAM);
        wr32(&mut b, o + 76, NOSTREAM);
    }
    for (i, u) in "Root Entry".encode_utf16().enumerate() {
        wr16(&mut b, d + 2 * i, u);
    }
    wr16(&mut b, d + 64, 22);
    b[d + 66] = 5;
    b[d + 67] = 1;
    wr32(&mut b, d + 116, END);
    // DIFAT sectors all naming FAT sector 0
    for k in 0..n_difat {
        let o = (3 + k) * sl;
        for i in 0..sl / 4 - 1 {
            wr32(&mut b, o + 4 * i, 0);
        }
        wr32(&mut b, o + sl - 4, if k + 1 < n_difat { 3 + k as u32 } else { END });
    }
    b
}
