//! Independent MS-CFB *writer* with free choice of the physical layout (C04, C16).
//! Imports nothing from `cfb`.  Given a logical tree (the abstract `Model`), it emits a
//! spec-valid image under a randomly chosen legal layout: sector roles permuted over the
//! file with FREE sectors in between, fragmented non-monotone chains, directory entries
//! in random slots with unallocated gaps, sibling trees built by textbook red-black
//! insertion in random order, mini sectors permuted with free ones, FAT/DIFAT sectors
//! anywhere.

use crate::model::{Kind, Model, Node};
use crate::order::Key;
use crate::refparse::{wr16, wr32, wr64, DIFSECT, END, FATSECT, FREE, MAGIC, NOSTREAM};
use crate::rng::Rng;

#[derive(Clone, Debug)]
pub struct Layout {
    pub version: u16,
    /// Extra FREE sectors scattered over the file (fraction of used sectors, percent).
    pub free_pct: u64,
    /// Unallocated directory slots in between (percent of entries).
    pub dir_gap_pct: u64,
    pub free_mini_pct: u64,
    pub permute_sectors: bool,
    pub permute_chains: bool,
    pub rb_trees: bool,
    /// Extra FAT sectors' worth of file to force (pads with FREE sectors) - for DIFAT.
    pub min_total_sectors: usize,
    /// Bytes that no stream owns carry garbage instead of zeros: the rest of a stream's
    /// final (mini) sector, FREE sectors and free mini sectors.  The format does not
    /// define those bytes; other writers routinely leave old data there.
    pub dirty_slack: bool,
    /// FAT sectors beyond what the sector count needs (all FREESECT, listed in the
    /// DIFAT): an over-provisioned FAT is legal.
    pub spare_fat: usize,
    /// Header minor version (SHOULD be 0x3E; other writers use 0x3B, 0x21, ...).
    pub minor_version: u16,
    /// Paint the top node of a sibling tree red where that creates no red-red edge inside
    /// the tree (its children are black or absent).  The crate validates colours per edge
    /// of a sibling tree only.
    pub red_tops: bool,
    /// One DIFAT sector more than the FAT sectors need at the end of the DIFAT chain (all
    /// entries FREESECT); only in images that have a DIFAT chain at all.
    pub spare_difat: bool,
    /// When there is no mini stream (root length 0), the root entry's start sector field is
    /// not END_OF_CHAIN but whatever the writer had there - zero from a zero-initialised
    /// entry, or a stale sector number.  MS-CFB constrains the field only if the mini
    /// stream exists.
    pub stale_root_start: bool,
}

impl Layout {
    pub fn random(rng: &mut Rng) -> Layout {
        Layout {
            version: if rng.chance(1, 2) { 3 } else { 4 },
            free_pct: *rng.pick(&[0, 0, 10, 40]),
            dir_gap_pct: *rng.pick(&[0, 20, 60]),
            free_mini_pct: *rng.pick(&[0, 15, 50]),
            permute_sectors: rng.chance(3, 4),
            permute_chains: rng.chance(3, 4),
            rb_trees: rng.chance(4, 5),
            min_total_sectors: 0,
            dirty_slack: rng.chance(1, 3),
            spare_fat: *rng.pick(&[0usize, 0, 0, 1, 2]),
            minor_version: *rng.pick(&[0x3Eu16, 0x3E, 0x3E, 0x3E, 0x3B, 0x21, 0x3F, 0]),
            red_tops: rng.chance(1, 6),
            spare_difat: rng.chance(1, 2),
            stale_root_start: rng.chance(1, 3),
        }
    }
    /// The layout family the library's own writer produces (used as a control).
    pub fn canonical(version: u16) -> Layout {
        Layout { version, free_pct: 0, dir_gap_pct: 0, free_mini_pct: 0, permute_sectors: false, permute_chains: false, rb_trees: false, min_total_sectors: 0, dirty_slack: false, spare_fat: 0, minor_version: 0x3E, red_tops: false, spare_difat: false, stale_root_start: false }
    }
}

#[derive(Clone, Debug, Default)]
pub struct Features {
    pub fragmented_chain: bool,
    pub dir_gaps: bool,
    pub red_nodes: bool,
    pub out_of_order_fat: bool,
    pub difat_chain: bool,
    pub free_inside: bool,
    pub entries: usize,
    pub total_sectors: usize,
    pub max_tree_depth: usize,
}

// ---------------------------------------------------------------- red-black tree

#[derive(Clone)]
struct RbNode {
    key: Key,
    left: usize,
    right: usize,
    parent: usize,
    red: bool,
}

const NIL: usize = usize::MAX;

struct RbTree {
    n: Vec<RbNode>,
    root: usize,
}

impl RbTree {
    fn new() -> RbTree {
        RbTree { n: Vec::new(), root: NIL }
    }
    fn rotate_left(&mut self, x: usize) {
        let y = self.n[x].right;
        self.n[x].right = self.n[y].left;
        if self.n[y].left != NIL {
            let l = self.n[y].left;
            self.n[l].parent = x;
        }
        self.n[y].parent = self.n[x].parent;
        let p = self.n[x].parent;
        if p == NIL {
            self.root = y;
        } else if self.n[p].left == x {
            self.n[p].left = y;
        } else {
            self.n[p].right = y;
        }
        self.n[y].left = x;
        self.n[x].parent = y;
    }
    fn rotate_right(&mut self, x: usize) {
        let y = self.n[x].left;
        self.n[x].left = self.n[y].right;
        if self.n[y].right != NIL {
            let r = self.n[y].right;
            self.n[r].parent = x;
        }
        self.n[y].parent = self.n[x].parent;
        let p = self.n[x].parent;
        if p == NIL {
            self.root = y;
        } else if self.n[p].right == x {
            self.n[p].right = y;
        } else {
            self.n[p].left = y;
        }
        self.n[y].right = x;
        self.n[x].parent = y;
    }
    /// Textbook (CLRS) insertion with fix-up; returns the node index.
    fn insert(&mut self, key: Key) -> usize {
        let z = self.n.len();
        self.n.push(RbNode { key, left: NIL, right: NIL, parent: NIL, red: true });
        let mut y = NIL;
        let mut x = self.root;
        while x != NIL {
            y = x;
            x = if self.n[z].key < self.n[x].key { self.n[x].left } else { self.n[x].right };
        }
        self.n[z].parent = y;
        if y == NIL {
            self.root = z;
        } else if self.n[z].key < self.n[y].key {
            self.n[y].left = z;
        } else {
            self.n[y].right = z;
        }
        let mut z2 = z;
        while self.n[z2].parent != NIL && self.n[self.n[z2].parent].red {
            let p = self.n[z2].parent;
            let g = self.n[p].parent;
            if g == NIL {
                break;
            }
            if p == self.n[g].left {
                let u = self.n[g].right;
                if u != NIL && self.n[u].red {
                    self.n[p].red = false;
                    self.n[u].red = false;
                    self.n[g].red = true;
                    z2 = g;
                } else {
                    if z2 == self.n[p].right {
                        z2 = p;
                        self.rotate_left(z2);
                    }
                    let p = self.n[z2].parent;
                    let g = self.n[p].parent;
                    self.n[p].red = false;
                    self.n[g].red = true;
                    self.rotate_right(g);
                }
            } else {
                let u = self.n[g].left;
                if u != NIL && self.n[u].red {
                    self.n[p].red = false;
                    self.n[u].red = false;
                    self.n[g].red = true;
                    z2 = g;
                } else {
                    if z2 == self.n[p].left {
                        z2 = p;
                        self.rotate_right(z2);
                    }
                    let p = self.n[z2].parent;
                    let g = self.n[p].parent;
                    self.n[p].red = false;
                    self.n[g].red = true;
                    self.rotate_left(g);
                }
            }
        }
        let r = self.root;
        self.n[r].red = false;
        z
    }
    fn depth(&self, x: usize) -> usize {
        if x == NIL {
            0
        } else {
            1 + self.depth(self.n[x].left).max(self.depth(self.n[x].right))
        }
    }
}

// ---------------------------------------------------------------- flattening

struct Flat<'a> {
    node: &'a Node,
    slot: u32,
    left: u32,
    right: u32,
    child: u32,
    red: bool,
    start: u32,
}

pub fn clsid_to_disk(c: &[u8; 16]) -> [u8; 16] {
    [c[3], c[2], c[1], c[0], c[5], c[4], c[7], c[6], c[8], c[9], c[10], c[11], c[12], c[13], c[14], c[15]]
}

/// Emits an image of `model` under `layout`.  Storage times that are unknown (None)
/// are written as 0.
pub fn synthesize(model: &Model, layout: &Layout, rng: &mut Rng) -> (Vec<u8>, Features) {
    let sl: usize = if layout.version == 3 { 512 } else { 4096 };
    let mut feat = Features::default();
    // ---- 1. directory slots
    let mut nodes: Vec<&Node> = Vec::new();
    fn collect<'a>(n: &'a Node, out: &mut Vec<&'a Node>) {
        out.push(n);
        for c in n.children.values() {
            collect(c, out);
        }
    }
    collect(&model.root, &mut nodes);
    let n_alloc = nodes.len();
    let per_dir = sl / 128;
    let gaps = (n_alloc as u64 * layout.dir_gap_pct / 100) as usize;
    let mut n_slots = n_alloc + gaps;
    n_slots = (n_slots + per_dir - 1) / per_dir * per_dir;
    let mut slot_ids: Vec<u32> = (1..n_slots as u32).collect();
    if layout.dir_gap_pct > 0 || layout.permute_chains {
        rng.shuffle(&mut slot_ids);
    }
    let mut flats: Vec<Flat> = Vec::with_capacity(n_alloc);
    for (i, n) in nodes.iter().enumerate() {
        let slot = if i == 0 { 0 } else { slot_ids[i - 1] };
        flats.push(Flat { node: n, slot, left: NOSTREAM, right: NOSTREAM, child: NOSTREAM, red: false, start: 0 });
    }
    feat.dir_gaps = n_slots > n_alloc && flats.iter().any(|f| (f.slot as usize) >= n_alloc);
    feat.entries = n_alloc;
    // index of each node in `flats` by uid path: use pointer identity
    let index_of = |n: &Node, flats: &Vec<Flat>| flats.iter().position(|f| std::ptr::eq(f.node, n)).unwrap();
    // ---- 2. sibling trees
    for i in 0..flats.len() {
        let parent = flats[i].node;
        if parent.kind == Kind::Stream || parent.children.is_empty() {
            continue;
        }
        let kids: Vec<usize> = parent.children.values().map(|c| index_of(c, &flats)).collect();
        if layout.rb_trees {
            let mut order: Vec<usize> = (0..kids.len()).collect();
            rng.shuffle(&mut order);
            let mut t = RbTree::new();
            let mut tree_to_flat: Vec<usize> = Vec::new();
            for &k in &order {
                let fi = kids[k];
                t.insert(Key::of(&flats[fi].node.name));
                tree_to_flat.push(fi);
            }
            for (ti, node) in t.n.iter().enumerate() {
                let fi = tree_to_flat[ti];
                flats[fi].left = if node.left == NIL { NOSTREAM } else { flats[tree_to_flat[node.left]].slot };
                flats[fi].right = if node.right == NIL { NOSTREAM } else { flats[tree_to_flat[node.right]].slot };
                flats[fi].red = node.red;
                if node.red {
                    feat.red_nodes = true;
                }
            }
            flats[i].child = flats[tree_to_flat[t.root]].slot;
            if layout.red_tops {
                let top = &t.n[t.root];
                let black = |x: usize| x == NIL || !t.n[x].red;
                if black(top.left) && black(top.right) {
                    flats[tree_to_flat[t.root]].red = true;
                    feat.red_nodes = true;
                }
            }
            feat.max_tree_depth = feat.max_tree_depth.max(t.depth(t.root));
        } else {
            // all-black degenerate chain in order (what the library writes for ascending inserts)
            for w in 0..kids.len() {
                let fi = kids[w];
                flats[fi].red = false;
                flats[fi].right = if w + 1 < kids.len() { flats[kids[w + 1]].slot } else { NOSTREAM };
            }
            flats[i].child = flats[kids[0]].slot;
            feat.max_tree_depth = feat.max_tree_depth.max(kids.len());
        }
    }
    // ---- 3. mini sectors
    let mut mini_need: Vec<(usize, usize)> = Vec::new(); // (flat index, count)
    let mut total_mini = 0usize;
    for (i, f) in flats.iter().enumerate() {
        if f.node.kind == Kind::Stream && !f.node.data.is_empty() && f.node.data.len() < 4096 {
            let c = (f.node.data.len() + 63) / 64;
            mini_need.push((i, c));
            total_mini += c;
        }
    }
    let free_mini = (total_mini as u64 * layout.free_mini_pct / 100) as usize;
    let m_total = total_mini + if total_mini > 0 { free_mini } else { 0 };
    let mut mini_ids: Vec<u32> = (0..m_total as u32).collect();
    if layout.permute_chains {
        rng.shuffle(&mut mini_ids);
    } else if free_mini > 0 {
        // keep order but drop random ones as free
    }
    // the highest mini sector must be in use only if we want root size minimal; a free tail is
    // legal as long as root size covers it (root size = 64 * m_total)
    let mut minifat: Vec<u32> = vec![FREE; m_total];
    let mut mini_chains: Vec<(usize, Vec<u32>)> = Vec::new();
    let mut cursor = 0;
    for &(fi, c) in &mini_need {
        let ids: Vec<u32> = mini_ids[cursor..cursor + c].to_vec();
        cursor += c;
        for w in 0..ids.len() {
            minifat[ids[w] as usize] = if w + 1 < ids.len() { ids[w + 1] } else { END };
        }
        mini_chains.push((fi, ids));
    }
    // ---- 4. count regular sectors
    let per_fat = sl / 4;
    let dir_sectors = n_slots / per_dir;
    let minifat_sectors = (m_total + per_fat - 1) / per_fat;
    let ministream_sectors = (m_total * 64 + sl - 1) / sl;
    let mut stream_need: Vec<(usize, usize)> = Vec::new();
    let mut stream_sectors = 0;
    for (i, f) in flats.iter().enumerate() {
        if f.node.kind == Kind::Stream && f.node.data.len() >= 4096 {
            let c = (f.node.data.len() + sl - 1) / sl;
            stream_need.push((i, c));
            stream_sectors += c;
        }
    }
    let used0 = dir_sectors + minifat_sectors + ministream_sectors + stream_sectors;
    let mut free_sectors = (used0 as u64 * layout.free_pct / 100) as usize;
    let (mut f_count, mut d_count);
    loop {
        // fixpoint for FAT / DIFAT sector counts
        f_count = 1;
        d_count = 0;
        loop {
            let total = used0 + free_sectors + f_count + d_count;
            let nf = (total + per_fat - 1) / per_fat + layout.spare_fat;
            let nd = if nf > 109 { (nf - 109 + per_fat - 2) / (per_fat - 1) + usize::from(layout.spare_difat) } else { 0 };
            if nf == f_count && nd == d_count {
                break;
            }
            f_count = nf;
            d_count = nd;
        }
        let total = used0 + free_sectors + f_count + d_count;
        if total >= layout.min_total_sectors {
            break;
        }
        free_sectors += layout.min_total_sectors - total;
    }
    let total = used0 + free_sectors + f_count + d_count;
    feat.total_sectors = total;
    feat.difat_chain = d_count > 0;
    feat.free_inside = free_sectors > 0;
    // ---- 5. assign sector ids to roles
    let mut ids: Vec<u32> = (0..total as u32).collect();
    if layout.permute_sectors {
        rng.shuffle(&mut ids);
    }
    let take = |n: usize, ids: &mut Vec<u32>| -> Vec<u32> {
        let k = ids.len() - n;
        ids.split_off(k)
    };
    let mut fat_ids = take(f_count, &mut ids);
    let difat_ids = take(d_count, &mut ids);
    let mut dir_ids = take(dir_sectors, &mut ids);
    let mut minifat_ids = take(minifat_sectors, &mut ids);
    let mut ministream_ids = take(ministream_sectors, &mut ids);
    let mut stream_ids: Vec<(usize, Vec<u32>)> = Vec::new();
    for &(fi, c) in &stream_need {
        let mut v = take(c, &mut ids);
        if !layout.permute_chains {
            v.sort();
        }
        stream_ids.push((fi, v));
    }
    if !layout.permute_chains {
        fat_ids.sort();
        dir_ids.sort();
        minifat_ids.sort();
        ministream_ids.sort();
    }
    // ids left over are FREE sectors
    feat.out_of_order_fat = fat_ids.windows(2).any(|w| w[0] > w[1]) || fat_ids.first().map(|&f| f != 0).unwrap_or(false);
    feat.fragmented_chain = stream_ids.iter().any(|(_, v)| v.windows(2).any(|w| w[1] != w[0] + 1)) || dir_ids.windows(2).any(|w| w[1] != w[0] + 1);
    // ---- 6. FAT
    let mut fat: Vec<u32> = vec![FREE; f_count * per_fat];
    let link = |fat: &mut Vec<u32>, chain: &[u32]| {
        for w in 0..chain.len() {
            fat[chain[w] as usize] = if w + 1 < chain.len() { chain[w + 1] } else { END };
        }
    };
    for &f in &fat_ids {
        fat[f as usize] = FATSECT;
    }
    for &d in &difat_ids {
        fat[d as usize] = DIFSECT;
    }
    link(&mut fat, &dir_ids);
    link(&mut fat, &minifat_ids);
    link(&mut fat, &ministream_ids);
    for (_, v) in &stream_ids {
        link(&mut fat, v);
    }
    // ---- 7. start sectors
    for (fi, ids) in &mini_chains {
        flats[*fi].start = ids[0];
    }
    for (fi, ids) in &stream_ids {
        flats[*fi].start = ids[0];
    }
    // ---- 8. write
    let mut out = vec![0u8; (total + 1) * sl];
    out[..8].copy_from_slice(&MAGIC);
    wr16(&mut out, 24, layout.minor_version);
    wr16(&mut out, 26, layout.version);
    wr16(&mut out, 28, 0xFFFE);
    wr16(&mut out, 30, if layout.version == 3 { 9 } else { 12 });
    wr16(&mut out, 32, 6);
    wr32(&mut out, 40, if layout.version == 3 { 0 } else { dir_sectors as u32 });
    wr32(&mut out, 44, f_count as u32);
    wr32(&mut out, 48, dir_ids[0]);
    wr32(&mut out, 52, 0);
    wr32(&mut out, 56, 4096);
    wr32(&mut out, 60, if minifat_ids.is_empty() { END } else { minifat_ids[0] });
    wr32(&mut out, 64, minifat_ids.len() as u32);
    wr32(&mut out, 68, if difat_ids.is_empty() { END } else { difat_ids[0] });
    wr32(&mut out, 72, difat_ids.len() as u32);
    for i in 0..109 {
        wr32(&mut out, 76 + 4 * i, if i < f_count { fat_ids[i] } else { FREE });
    }
    let off = |id: u32| (id as usize + 1) * sl;
    // DIFAT sectors
    let per_difat = per_fat - 1;
    for (k, &d) in difat_ids.iter().enumerate() {
        let base = off(d);
        for i in 0..per_difat {
            let fi = 109 + k * per_difat + i;
            wr32(&mut out, base + 4 * i, if fi < f_count { fat_ids[fi] } else { FREE });
        }
        wr32(&mut out, base + sl - 4, if k + 1 < difat_ids.len() { difat_ids[k + 1] } else { END });
    }
    // FAT sectors
    for (k, &f) in fat_ids.iter().enumerate() {
        let base = off(f);
        for i in 0..per_fat {
            wr32(&mut out, base + 4 * i, fat[k * per_fat + i]);
        }
    }
    // MiniFAT sectors
    for (k, &s) in minifat_ids.iter().enumerate() {
        let base = off(s);
        for i in 0..per_fat {
            let mi = k * per_fat + i;
            wr32(&mut out, base + 4 * i, if mi < m_total { minifat[mi] } else { FREE });
        }
    }
    // directory: blank entries first
    for s in 0..n_slots {
        let base = off(dir_ids[s / per_dir]) + 128 * (s % per_dir);
        wr32(&mut out, base + 68, NOSTREAM);
        wr32(&mut out, base + 72, NOSTREAM);
        wr32(&mut out, base + 76, NOSTREAM);
    }
    let root_start = if !ministream_ids.is_empty() {
        ministream_ids[0]
    } else if layout.stale_root_start {
        // zero, or the first sector of some stream's chain
        match stream_ids.first() {
            Some((_, ids)) if !ids.is_empty() && total % 2 == 1 => ids[0],
            _ => 0,
        }
    } else {
        END
    };
    for f in &flats {
        let s = f.slot as usize;
        let base = off(dir_ids[s / per_dir]) + 128 * (s % per_dir);
        let units: Vec<u16> = f.node.name.encode_utf16().collect();
        for (i, u) in units.iter().enumerate() {
            wr16(&mut out, base + 2 * i, *u);
        }
        wr16(&mut out, base + 64, ((units.len() + 1) * 2) as u16);
        out[base + 66] = match f.node.kind {
            Kind::Root => 5,
            Kind::Storage => 1,
            Kind::Stream => 2,
        };
        out[base + 67] = if f.red { 0 } else { 1 };
        wr32(&mut out, base + 68, f.left);
        wr32(&mut out, base + 72, f.right);
        wr32(&mut out, base + 76, f.child);
        if f.node.kind != Kind::Stream {
            out[base + 80..base + 96].copy_from_slice(&clsid_to_disk(&f.node.clsid));
            wr64(&mut out, base + 100, f.node.ctime.unwrap_or(0));
            wr64(&mut out, base + 108, f.node.mtime.unwrap_or(0));
        }
        wr32(&mut out, base + 96, f.node.state);
        match f.node.kind {
            Kind::Root => {
                wr32(&mut out, base + 116, root_start);
                wr64(&mut out, base + 120, (m_total * 64) as u64);
            }
            Kind::Storage => {
                wr32(&mut out, base + 116, 0);
                wr64(&mut out, base + 120, 0);
            }
            Kind::Stream => {
                wr32(&mut out, base + 116, if f.node.data.is_empty() { END } else { f.start });
                wr64(&mut out, base + 120, f.node.data.len() as u64);
            }
        }
    }
    // bytes nobody owns
    let junk = |out: &mut Vec<u8>, lo: usize, hi: usize| {
        for (i, b) in out[lo..hi].iter_mut().enumerate() {
            *b = 0x81 | (((lo + i) * 37) as u8);
        }
    };
    if layout.dirty_slack {
        for &s in &ids {
            junk(&mut out, off(s), off(s) + sl);
        }
        // the whole mini stream first (free mini sectors and every tail); data overwrites below
        for &s in &ministream_ids {
            junk(&mut out, off(s), off(s) + sl);
        }
    }
    // stream data
    for (fi, ids) in &stream_ids {
        let data = &flats[*fi].node.data;
        for (k, &s) in ids.iter().enumerate() {
            let lo = k * sl;
            let hi = ((k + 1) * sl).min(data.len());
            out[off(s)..off(s) + (hi - lo)].copy_from_slice(&data[lo..hi]);
            if layout.dirty_slack && hi - lo < sl {
                junk(&mut out, off(s) + (hi - lo), off(s) + sl);
            }
        }
    }
    let per_mini = sl / 64;
    for (fi, ids) in &mini_chains {
        let data = &flats[*fi].node.data;
        for (k, &m) in ids.iter().enumerate() {
            let lo = k * 64;
            let hi = ((k + 1) * 64).min(data.len());
            let sec = ministream_ids[m as usize / per_mini];
            let o = off(sec) + 64 * (m as usize % per_mini);
            out[o..o + (hi - lo)].copy_from_slice(&data[lo..hi]);
        }
    }
    (out, feat)
}

// ---------------------------------------------------------------- random logical trees

pub const SYNTH_NAMES: &[&str] = &[
    "a", "A1", "b", "Bb", "c", "ab", "ba", "zz", "abc", "abd", "x1", "m", "mm", "n", "o", "p", "q", "r", "s", "t", "u", "v", "w",
    "\u{e9}", "\u{3c3}x", "\u{3a3}", "\u{df}", "\u{ff}", "\u{131}x", "\u{17f}t", "\u{b5}", "\u{1c6}", "\u{1fb3}",
    "\u{65e5}\u{672c}", "\u{1F600}", "a\u{1F600}", "\u{FFFD}\u{FFFD}", "\u{E000}b", "\u{FF41}", "\u{20000}", "\u{1D11E}z",
    "Storage 1", "stream.bin", "name_of_exactly_31_utf16_units_", "\u{1}CompObj", "\u{5}SummaryInformation", "Workbook", "WordDocument",
    "d1", "d2", "d3", "d4", "d5", "d6", "d7", "d8", "d9", "e1", "e2", "e3", "e4", "e5", "e6", "e7", "e8", "e9",
    "_a", "a_", "[b", "]b", "^b", "`b", "B_", "b^", "__SRP_0", "Module1", "_VBA_PR", "ThisWor", "{c", "~c", "@c", "Ab", "aB", "ZZ", "zy",
    "a\0", "ab\0\0", "\0", "\0a",
    "\u{1c5}a", "\u{1c4}b", "\u{1c8}x", "\u{1c7}y", "\u{1f2}m", "\u{1f1}n", "\u{1fb6}", "\u{1f80}", "\u{1f84}", "\u{1ff3}", "\u{1ff6}", "\u{1fc3}", "\u{1fc6}",
    "\u{65e5}\u{672c}\u{8a9e}\u{306e}\u{6587}\u{66f8}\u{540d}\u{524d}\u{9577}\u{3044}\u{65e5}\u{672c}\u{8a9e}\u{306e}\u{6587}\u{66f8}\u{540d}\u{524d}\u{9577}\u{3044}\u{65e5}\u{672c}\u{8a9e}\u{306e}\u{6587}\u{66f8}\u{540d}\u{524d}\u{9577}\u{3044}\u{7d42}",
    "\u{2126}", "\u{3c9}", "\u{212b}", "\u{e5}", "\u{1e9e}", "\u{3f4}", "\u{3b8}", "\u{212a}", "k", "\u{1F680}", "n\u{1F600}", "n\u{1F680}", "\u{10400}", "\u{10401}",
];

/// A root holding the given streams (and nothing else).
pub fn flat_model(items: &[(String, Vec<u8>)]) -> Model {
    let mut m = Model::new();
    for (name, data) in items {
        let uid = m.fresh_uid();
        let node = Node { name: name.clone(), kind: Kind::Stream, clsid: [0; 16], state: 0, ctime: Some(0), mtime: Some(0), data: data.clone(), children: Default::default(), uid };
        m.root.children.insert(Key::of(name), node);
    }
    m
}

/// Lengthens the chains of up to two mini streams by one free mini sector each (filled with
/// garbage), as a writer does that shortens a stream by updating only its length.  Both
/// open modes accept that; it is applied after the image passed its self-check.
pub fn overlong_mini_chains(bytes: &mut [u8], rng: &mut Rng) -> usize {
    let img = match crate::refparse::parse(bytes) {
        Ok(i) => i,
        Err(_) => return 0,
    };
    let root_size = img.entries.first().map(|e| e.size).unwrap_or(0);
    let n_mini = (root_size / 64) as usize;
    let mut free: Vec<u32> = (0..img.minifat.len().min(n_mini) as u32).filter(|&m| img.minifat[m as usize] == FREE).collect();
    let mut done = 0;
    let minis: Vec<&crate::refparse::RawEntry> = img.entries.iter().filter(|e| e.obj_type == 2 && e.size > 0 && e.size < 4096).collect();
    for e in minis.iter().take(8) {
        if free.is_empty() || done >= 2 {
            break;
        }
        if !rng.chance(1, 2) {
            continue;
        }
        let mut probs = Vec::new();
        let chain = img.mini_chain(e.start, "stream", &mut probs);
        let (last, m) = match (chain.last(), free.pop()) {
            (Some(&l), Some(m)) => (l, m),
            _ => break,
        };
        if let (Some(o_last), Some(o_m), Some(data)) = (img.minifat_cell_off(last as usize), img.minifat_cell_off(m as usize), img.mini_sector_off(m)) {
            wr32(bytes, o_last, m);
            wr32(bytes, o_m, END);
            for (i, b) in bytes[data..data + 64].iter_mut().enumerate() {
                *b = 0xC1 ^ (i as u8);
            }
            done += 1;
        }
    }
    done
}

/// The same for regular streams: up to two chains get one FREE sector appended (garbage
/// inside), so that the chain is longer than the stream's length needs.
pub fn overlong_regular_chains(bytes: &mut [u8], rng: &mut Rng) -> usize {
    let img = match crate::refparse::parse(bytes) {
        Ok(i) => i,
        Err(_) => return 0,
    };
    let mut free: Vec<u32> = (0..img.nsect.min(img.fat.len()) as u32).filter(|&x| img.fat[x as usize] == FREE).collect();
    let mut done = 0;
    for e in img.entries.iter().filter(|e| e.obj_type == 2 && e.size >= 4096).take(8) {
        if free.is_empty() || done >= 2 {
            break;
        }
        if !rng.chance(1, 2) {
            continue;
        }
        let mut probs = Vec::new();
        let chain = img.chain(e.start, "stream", &mut probs);
        let (last, x) = match (chain.last(), free.pop()) {
            (Some(&l), Some(x)) => (l, x),
            _ => break,
        };
        if let (Some(o_last), Some(o_x)) = (img.fat_cell_off(last as usize), img.fat_cell_off(x as usize)) {
            wr32(bytes, o_last, x);
            wr32(bytes, o_x, END);
            let data = img.sector_off(x);
            for (i, b) in bytes[data..data + img.sector_len].iter_mut().enumerate() {
                *b = 0xD1 ^ (i as u8);
            }
            done += 1;
        }
    }
    done
}

/// A session on a synthesised image of `model` whose unowned bytes carry garbage
/// (`Layout::dirty_slack`); None if the image fails its self-check or does not open
/// (never a verdict: the caller falls back to a fresh file).
pub fn dirty_foreign_session(model: &Model, version: cfb::Version, bufsize: Option<usize>, rng: &mut Rng) -> Option<crate::engine::Session> {
    let mut layout = Layout::random(rng);
    layout.version = if version == cfb::Version::V3 { 3 } else { 4 };
    layout.dirty_slack = true;
    layout.spare_fat = 0;
    // half of the images keep their sectors in order, so that the file often ends with the
    // tail of a stream; such a file may end right after its last used byte
    if rng.chance(1, 2) {
        layout.permute_sectors = false;
        layout.free_pct = 0;
    }
    let (mut bytes, _f) = synthesize(model, &layout, rng);
    if crate::props::foreign::self_check(model, &bytes).is_err() {
        return None;
    }
    if rng.chance(1, 2) {
        if let Ok(img) = crate::refparse::parse(&bytes) {
            let last = img.nsect as u32 - 1;
            let mut probs = Vec::new();
            for e in img.entries.iter().filter(|e| e.obj_type == 2 && e.size >= 4096 && e.size % img.sector_len as u64 != 0) {
                let chain = img.chain(e.start, "stream", &mut probs);
                if chain.last() == Some(&last) {
                    bytes.truncate(img.sector_off(last) + (e.size % img.sector_len as u64) as usize);
                    break;
                }
            }
        }
    }
    if rng.chance(1, 2) {
        // some writers leave 0 (or a stale number) in the start-sector field of an empty
        // stream; a stream of length 0 owns no sector whatever that field says
        if let Ok(img) = crate::refparse::parse(&bytes) {
            for e in img.entries.iter().filter(|e| e.obj_type == 2 && e.size == 0) {
                wr32(&mut bytes, e.off + 116, *rng.pick(&[0u32, 0, 1, 3]));
            }
        }
    }
    if rng.chance(1, 2) {
        overlong_mini_chains(&mut bytes, rng);
    }
    if rng.chance(1, 2) && bytes.len() % 512 == 0 {
        overlong_regular_chains(&mut bytes, rng);
    }
    let mode = if rng.chance(1, 2) { crate::engine::Mode::Strict } else { crate::engine::Mode::Permissive };
    crate::engine::Session::open_bytes(bytes, mode, bufsize, model.clone()).ok()
}

pub fn random_model(rng: &mut Rng, max_nodes: usize, max_size: u64) -> Model {
    let mut m = Model::new();
    let n = rng.range(0, max_nodes as u64) as usize;
    let mut storages: Vec<Vec<String>> = vec![vec![]];
    // root metadata
    if rng.chance(1, 2) {
        for b in m.root.clsid.iter_mut() {
            *b = rng.next_u32() as u8;
        }
        m.root.state = rng.next_u32();
        m.root.mtime = Some(rng.next_u64() >> rng.below(8));
        m.root.ctime = Some(if rng.chance(1, 2) { 0 } else { rng.next_u64() >> 3 });
    }
    let mut tag = 1000u64;
    for _ in 0..n {
        let parent = rng.pick(&storages).clone();
        if parent.len() >= 4 {
            continue;
        }
        let name = (*rng.pick(SYNTH_NAMES)).to_string();
        let mut path = parent.clone();
        path.push(name.clone());
        if m.get(&path).is_some() {
            continue;
        }
        let uid = m.fresh_uid();
        let is_storage = rng.chance(1, 4);
        let mut node = Node { name: name.clone(), kind: if is_storage { Kind::Storage } else { Kind::Stream }, clsid: [0; 16], state: if rng.chance(1, 3) { rng.next_u32() } else { 0 }, ctime: Some(0), mtime: Some(0), data: Vec::new(), children: Default::default(), uid };
        if is_storage {
            if rng.chance(1, 2) {
                for b in node.clsid.iter_mut() {
                    *b = rng.next_u32() as u8;
                }
            }
            node.ctime = Some(rng.next_u64() >> rng.below(10));
            node.mtime = Some(rng.next_u64() >> rng.below(10));
            storages.push(path.clone());
        } else {
            let len = crate::gen::pick_size(rng, max_size) as usize;
            tag += 1;
            node.data = crate::engine::payload(tag, len);
        }
        m.get_mut(&parent).unwrap().children.insert(Key::of(&name), node);
    }
    m
}

/// Repaints the sibling trees of a valid image (typically one the library wrote: all black)
/// the way another writer might have left them: some nodes red, never a red node under a
/// red parent, tops of sibling trees black.  The library does not check black heights and
/// neither does the format's rule set here, so every such colouring is a legal file.
/// Returns the number of nodes painted red (0 = image unchanged or not parseable).
pub fn repaint_red(bytes: &mut [u8], rng: &mut Rng) -> usize {
    let img = match crate::refparse::parse(bytes) {
        Ok(i) => i,
        Err(_) => return 0,
    };
    const NONE: u32 = 0xFFFF_FFFF;
    let n = img.entries.len();
    let mut painted = 0;
    let mut seen = vec![false; n];
    // (node, parent_is_red); tops come from the child link of every storage / the root
    let mut stack: Vec<(u32, bool, bool)> = Vec::new();
    for e in &img.entries {
        if (e.obj_type == 1 || e.obj_type == 5) && e.child != NONE {
            stack.push((e.child, false, true));
        }
    }
    while let Some((id, parent_red, top)) = stack.pop() {
        let i = id as usize;
        if i >= n || seen[i] {
            continue;
        }
        seen[i] = true;
        let e = &img.entries[i];
        if e.obj_type != 1 && e.obj_type != 2 {
            continue;
        }
        let red = !top && !parent_red && rng.chance(1, 2);
        bytes[e.off + 67] = if red { 0 } else { 1 };
        if red {
            painted += 1;
        }
        if e.left != NONE {
            stack.push((e.left, red, false));
        }
        if e.right != NONE {
            stack.push((e.right, red, false));
        }
    }
    painted
}
