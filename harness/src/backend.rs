//! MonFile: the monitored, perturbable, fault-injecting backing store that every
//! workload hands to `cfb`.  It behaves like `std::io::Cursor<Vec<u8>>` (writes past
//! the end zero-extend, seeking past the end is allowed) and is the central
//! observation point: byte snapshots without flush, an event log of every underlying
//! call, short/interrupted transfers, and one-shot or sticky failures of the k-th
//! call of a given kind.

use crate::rng::Rng;
use std::io::{self, ErrorKind, Read, Seek, SeekFrom, Write};
use std::sync::{Arc, Mutex, MutexGuard};

pub const K_READ: u8 = 1;
pub const K_WRITE: u8 = 2;
pub const K_SEEK: u8 = 4;
pub const K_FLUSH: u8 = 8;

pub fn kind_name(k: u8) -> &'static str {
    match k {
        K_READ => "read",
        K_WRITE => "write",
        K_SEEK => "seek",
        K_FLUSH => "flush",
        _ => "?",
    }
}

#[derive(Clone, Debug)]
pub struct Event {
    pub seq: u64,
    pub kind: u8,
    pub pos: u64,
    pub requested: u64,
    /// Ok(bytes granted / new position) or the injected error kind.
    pub granted: Result<u64, ErrorKind>,
    pub api: u32,
}

#[derive(Clone, Debug)]
pub struct Fault {
    /// Which kinds of underlying call are counted.
    pub kinds: u8,
    /// The k-th counted call (0-based, counted since `arm`) fails.
    pub k: u64,
    /// The injected error; `WriteZero` on a write means the call returns `Ok(0)` instead
    /// (a full store that accepts nothing).
    pub err: ErrorKind,
    /// Every counted call from k on fails.
    pub sticky: bool,
    /// "short then fail": call k is granted a strict prefix (if it asks for more than
    /// one byte), the next counted call of the same kind fails.
    pub partial: bool,
}

#[derive(Clone, Debug)]
pub struct FaultHit {
    pub seq: u64,
    pub api: u32,
    pub kind: u8,
    pub fault_index: usize,
}

pub struct Perturb {
    pub rng: Rng,
    /// Percent of read/write calls that are shortened.
    pub short_pct: u64,
    /// Percent of read/write calls that fail with a spurious `Interrupted`.
    pub intr_pct: u64,
}

#[derive(Default)]
pub struct Counters {
    /// write / seek / flush calls made while the fault plan was not paused
    pub faultable: [u64; 3],
    pub reads: u64,
    pub writes: u64,
    pub seeks: u64,
    pub flushes: u64,
    pub bytes_read: u64,
    pub bytes_written: u64,
    pub short_reads: u64,
    pub short_writes: u64,
    pub interrupted: u64,
    /// Successful underlying writes since the last successful underlying flush: what a
    /// write-behind backing store would still hold in its cache.
    pub writes_since_flush: u64,
}

pub struct MonState {
    pub data: Vec<u8>,
    pub seq: u64,
    pub c: Counters,
    pub log: Option<Vec<Event>>,
    /// Id of the API call currently executing (set by the harness).
    pub api: u32,
    faults: Vec<Fault>,
    /// Per-fault count of matching calls since arming.
    fault_counts: Vec<u64>,
    /// Per-fault: the partial grant happened, next matching call of `kind` fails.
    fault_pending: Vec<Option<u8>>,
    pub hits: Vec<FaultHit>,
    pub perturb: Option<Perturb>,
    /// Bounded-progress guard: once `seq` reaches this value every call fails and
    /// `over_budget` is set (0 = unlimited).
    pub seq_limit: u64,
    pub over_budget: bool,
    /// While set, the fault plan neither counts nor fires (the harness's own readbacks).
    pub faults_paused: bool,
    /// Growth watcher: when armed, the image as it was just before the first write that
    /// extends the file is kept (C15: was there free space at that moment?).
    pub watch_growth: bool,
    pub growth_snapshot: Option<(u64, Vec<u8>)>,
}

impl MonState {
    fn budget_exceeded(&mut self) -> bool {
        if self.seq_limit != 0 && self.seq >= self.seq_limit {
            self.over_budget = true;
            self.seq += 1;
            true
        } else {
            false
        }
    }

    fn check_fault(&mut self, kind: u8) -> Option<(ErrorKind, bool)> {
        // returns Some((err, fail_now)) ; fail_now=false => short grant this time
        if self.faults_paused {
            return None;
        }
        // calls of each kind that a fault could have hit (i.e. outside the harness's own
        // paused read-backs): the scale on which fault positions are numbered
        match kind {
            K_WRITE => self.c.faultable[0] += 1,
            K_SEEK => self.c.faultable[1] += 1,
            K_FLUSH => self.c.faultable[2] += 1,
            _ => {}
        }
        for i in 0..self.faults.len() {
            let f = self.faults[i].clone();
            if let Some(pk) = self.fault_pending[i] {
                if pk == kind {
                    self.fault_pending[i] = None;
                    self.hits.push(FaultHit { seq: self.seq, api: self.api, kind, fault_index: i });
                    return Some((f.err, true));
                }
                continue;
            }
            if f.kinds & kind == 0 {
                continue;
            }
            let n = self.fault_counts[i];
            self.fault_counts[i] += 1;
            let fire = if f.sticky { n >= f.k } else { n == f.k };
            if fire {
                if f.partial && (kind == K_READ || kind == K_WRITE) && !f.sticky {
                    self.fault_pending[i] = Some(kind);
                    return Some((f.err, false));
                }
                self.hits.push(FaultHit { seq: self.seq, api: self.api, kind, fault_index: i });
                return Some((f.err, true));
            }
        }
        None
    }

    fn record(&mut self, kind: u8, pos: u64, requested: u64, granted: Result<u64, ErrorKind>) {
        if let Some(log) = self.log.as_mut() {
            log.push(Event { seq: self.seq, kind, pos, requested, granted, api: self.api });
        }
        self.seq += 1;
    }
}

#[derive(Clone)]
pub struct Shared(pub Arc<Mutex<MonState>>);

impl Shared {
    pub fn lock(&self) -> MutexGuard<'_, MonState> {
        match self.0.lock() {
            Ok(g) => g,
            Err(p) => p.into_inner(),
        }
    }
    pub fn bytes(&self) -> Vec<u8> {
        self.lock().data.clone()
    }
    pub fn len(&self) -> usize {
        self.lock().data.len()
    }
    pub fn seq(&self) -> u64 {
        self.lock().seq
    }
    pub fn writes(&self) -> u64 {
        self.lock().c.writes
    }
    pub fn set_api(&self, api: u32) {
        self.lock().api = api;
    }
    pub fn enable_log(&self, on: bool) {
        let mut g = self.lock();
        g.log = if on { Some(Vec::new()) } else { None };
    }
    pub fn take_log(&self) -> Vec<Event> {
        let mut g = self.lock();
        match g.log.as_mut() {
            Some(l) => std::mem::take(l),
            None => Vec::new(),
        }
    }
    /// Arms a fault plan; counting of matching calls starts now.
    pub fn arm(&self, faults: Vec<Fault>) {
        let mut g = self.lock();
        g.fault_counts = vec![0; faults.len()];
        g.fault_pending = vec![None; faults.len()];
        g.faults = faults;
        g.hits.clear();
    }
    pub fn disarm(&self) {
        self.arm(Vec::new());
    }
    pub fn writes_since_flush(&self) -> u64 {
        self.lock().c.writes_since_flush
    }
    pub fn pause_faults(&self, on: bool) {
        self.lock().faults_paused = on;
    }
    pub fn hits(&self) -> Vec<FaultHit> {
        self.lock().hits.clone()
    }
    /// Allows `n` more underlying calls (bounded-progress restatement of "never loops").
    pub fn set_step_budget(&self, n: u64) {
        let mut g = self.lock();
        g.seq_limit = if n == 0 { 0 } else { g.seq + n };
        g.over_budget = false;
    }
    pub fn over_budget(&self) -> bool {
        self.lock().over_budget
    }
    pub fn set_perturb(&self, p: Option<Perturb>) {
        self.lock().perturb = p;
    }
    /// Arms (and clears) the growth watcher.
    pub fn watch_growth(&self, on: bool) {
        let mut g = self.lock();
        g.watch_growth = on;
        g.growth_snapshot = None;
    }
    /// (offset of the extending write, image just before it) of the first growth since arming.
    pub fn take_growth_snapshot(&self) -> Option<(u64, Vec<u8>)> {
        self.lock().growth_snapshot.take()
    }
}

/// The handle given to `cfb`.  Cloning shares the bytes but not the position.
pub struct MonFile {
    pub st: Shared,
    pos: u64,
}

impl std::fmt::Debug for MonFile {
    fn fmt(&self, f: &mut std::fmt::Formatter<'_>) -> std::fmt::Result {
        write!(f, "MonFile {{ len: {}, pos: {} }}", self.st.len(), self.pos)
    }
}

impl MonFile {
    pub fn new(data: Vec<u8>) -> (MonFile, Shared) {
        let st = Shared(Arc::new(Mutex::new(MonState {
            data,
            seq: 0,
            c: Counters::default(),
            log: None,
            api: 0,
            faults: Vec::new(),
            fault_counts: Vec::new(),
            fault_pending: Vec::new(),
            hits: Vec::new(),
            perturb: None,
            seq_limit: 0,
            over_budget: false,
            faults_paused: false,
            watch_growth: false,
            growth_snapshot: None,
        })));
        (MonFile { st: st.clone(), pos: 0 }, st)
    }
}

impl MonFile {
    /// Another handle (own position, starting at 0) on the same shared state: used to
    /// retry `open` after an injected failure consumed the first handle.
    pub fn attach(shared: &Shared) -> MonFile {
        MonFile { st: shared.clone(), pos: 0 }
    }
}

impl Read for MonFile {
    fn read(&mut self, buf: &mut [u8]) -> io::Result<usize> {
        let mut g = self.st.lock();
        if g.budget_exceeded() {
            return Err(io::Error::new(ErrorKind::Other, "harness: I/O step budget exceeded"));
        }
        g.c.reads += 1;
        let req = buf.len() as u64;
        let pos = self.pos;
        let mut limit = buf.len();
        if !buf.is_empty() {
            if let Some((err, now)) = g.check_fault(K_READ) {
                if now {
                    g.record(K_READ, pos, req, Err(err));
                    return Err(io::Error::new(err, "injected read fault"));
                } else if limit > 1 {
                    limit = (limit / 2).max(1);
                }
            }
            if let Some(p) = g.perturb.as_mut() {
                let r = p.rng.below(100);
                if r < p.intr_pct {
                    g.c.interrupted += 1;
                    g.record(K_READ, pos, req, Err(ErrorKind::Interrupted));
                    return Err(io::Error::new(ErrorKind::Interrupted, "spurious interrupt"));
                } else if r < p.intr_pct + p.short_pct && limit > 1 {
                    limit = 1 + p.rng.usize_below(limit - 1);
                    g.c.short_reads += 1;
                }
            }
        }
        let len = g.data.len() as u64;
        let n = if pos >= len { 0 } else { limit.min((len - pos) as usize) };
        if n > 0 {
            buf[..n].copy_from_slice(&g.data[pos as usize..pos as usize + n]);
        }
        self.pos += n as u64;
        g.c.bytes_read += n as u64;
        g.record(K_READ, pos, req, Ok(n as u64));
        Ok(n)
    }
}

impl Write for MonFile {
    fn write(&mut self, buf: &[u8]) -> io::Result<usize> {
        let mut g = self.st.lock();
        if g.budget_exceeded() {
            return Err(io::Error::new(ErrorKind::Other, "harness: I/O step budget exceeded"));
        }
        g.c.writes += 1;
        let req = buf.len() as u64;
        let pos = self.pos;
        let mut limit = buf.len();
        if !buf.is_empty() {
            if let Some((err, now)) = g.check_fault(K_WRITE) {
                if now && err == ErrorKind::WriteZero {
                    // "the store is full": the writer accepts nothing, without an error
                    g.record(K_WRITE, pos, req, Ok(0));
                    return Ok(0);
                }
                if now {
                    g.record(K_WRITE, pos, req, Err(err));
                    return Err(io::Error::new(err, "injected write fault"));
                } else if limit > 1 {
                    limit = (limit / 2).max(1);
                }
            }
            if let Some(p) = g.perturb.as_mut() {
                let r = p.rng.below(100);
                if r < p.intr_pct {
                    g.c.interrupted += 1;
                    g.record(K_WRITE, pos, req, Err(ErrorKind::Interrupted));
                    return Err(io::Error::new(ErrorKind::Interrupted, "spurious interrupt"));
                } else if r < p.intr_pct + p.short_pct && limit > 1 {
                    limit = 1 + p.rng.usize_below(limit - 1);
                    g.c.short_writes += 1;
                }
            }
        }
        let n = limit;
        if n > 0 {
            let end = pos as usize + n;
            if g.data.len() < end {
                if g.watch_growth && g.growth_snapshot.is_none() {
                    let snap = g.data.clone();
                    g.growth_snapshot = Some((pos, snap));
                }
                g.data.resize(end, 0);
            }
            g.data[pos as usize..end].copy_from_slice(&buf[..n]);
        }
        self.pos += n as u64;
        g.c.bytes_written += n as u64;
        if n > 0 {
            g.c.writes_since_flush += 1;
        }
        g.record(K_WRITE, pos, req, Ok(n as u64));
        Ok(n)
    }

    fn flush(&mut self) -> io::Result<()> {
        let mut g = self.st.lock();
        g.c.flushes += 1;
        let pos = self.pos;
        if let Some((err, _)) = g.check_fault(K_FLUSH) {
            g.record(K_FLUSH, pos, 0, Err(err));
            return Err(io::Error::new(err, "injected flush fault"));
        }
        g.c.writes_since_flush = 0;
        g.record(K_FLUSH, pos, 0, Ok(0));
        Ok(())
    }
}

impl Seek for MonFile {
    fn seek(&mut self, from: SeekFrom) -> io::Result<u64> {
        let mut g = self.st.lock();
        if g.budget_exceeded() {
            return Err(io::Error::new(ErrorKind::Other, "harness: I/O step budget exceeded"));
        }
        g.c.seeks += 1;
        let pos = self.pos;
        if let Some((err, _)) = g.check_fault(K_SEEK) {
            g.record(K_SEEK, pos, 0, Err(err));
            return Err(io::Error::new(err, "injected seek fault"));
        }
        let len = g.data.len() as i128;
        let target: i128 = match from {
            SeekFrom::Start(n) => n as i128,
            SeekFrom::End(d) => len + d as i128,
            SeekFrom::Current(d) => pos as i128 + d as i128,
        };
        if target < 0 || target > u64::MAX as i128 {
            g.record(K_SEEK, pos, 0, Err(ErrorKind::InvalidInput));
            return Err(io::Error::new(
                ErrorKind::InvalidInput,
                "invalid seek to a negative or overflowing position",
            ));
        }
        self.pos = target as u64;
        g.record(K_SEEK, pos, 0, Ok(self.pos));
        Ok(self.pos)
    }
}

/// Read + Seek only view (C12: a file that is only read).
pub struct RoFile(pub MonFile);

impl Read for RoFile {
    fn read(&mut self, buf: &mut [u8]) -> io::Result<usize> {
        self.0.read(buf)
    }
}
impl Seek for RoFile {
    fn seek(&mut self, from: SeekFrom) -> io::Result<u64> {
        self.0.seek(from)
    }
}

// ---------------------------------------------------------------------------
// SparseFile: a backing store for files beyond 4 GiB

use std::collections::HashMap;

const PAGE: usize = 4096;

/// Sparse in-memory file: only pages that hold a non-zero byte are stored, so a 4 GiB
/// compound file whose streams are mostly zero costs a few megabytes.  Same semantics as
/// `Cursor<Vec<u8>>` (writes past the end zero-extend, seeking past the end is allowed).
#[derive(Default)]
pub struct SparseState {
    pub pages: HashMap<u64, Box<[u8; PAGE]>>,
    pub len: u64,
    pub calls: u64,
}

#[derive(Clone)]
pub struct SparseShared(pub Arc<Mutex<SparseState>>);

pub struct SparseFile {
    st: SparseShared,
    pos: u64,
}

impl SparseShared {
    pub fn len(&self) -> u64 {
        self.0.lock().unwrap().len
    }
    pub fn pages(&self) -> usize {
        self.0.lock().unwrap().pages.len()
    }
    /// A second handle on the same bytes (for reopening while keeping the image).
    pub fn handle(&self) -> SparseFile {
        SparseFile { st: self.clone(), pos: 0 }
    }
    pub fn read_at(&self, off: u64, buf: &mut [u8]) {
        let g = self.0.lock().unwrap();
        for (i, b) in buf.iter_mut().enumerate() {
            let o = off + i as u64;
            *b = if o >= g.len { 0 } else { g.pages.get(&(o / PAGE as u64)).map(|p| p[(o % PAGE as u64) as usize]).unwrap_or(0) };
        }
    }
}

impl SparseFile {
    pub fn new() -> (SparseFile, SparseShared) {
        let st = SparseShared(Arc::new(Mutex::new(SparseState::default())));
        (SparseFile { st: st.clone(), pos: 0 }, st)
    }
}

impl Read for SparseFile {
    fn read(&mut self, buf: &mut [u8]) -> io::Result<usize> {
        let mut g = self.st.0.lock().unwrap();
        g.calls += 1;
        if self.pos >= g.len {
            return Ok(0);
        }
        let n = buf.len().min((g.len - self.pos) as usize);
        let mut done = 0;
        while done < n {
            let o = self.pos + done as u64;
            let page = o / PAGE as u64;
            let within = (o % PAGE as u64) as usize;
            let k = (PAGE - within).min(n - done);
            match g.pages.get(&page) {
                Some(p) => buf[done..done + k].copy_from_slice(&p[within..within + k]),
                None => buf[done..done + k].fill(0),
            }
            done += k;
        }
        self.pos += n as u64;
        Ok(n)
    }
}

impl Write for SparseFile {
    fn write(&mut self, buf: &[u8]) -> io::Result<usize> {
        let mut g = self.st.0.lock().unwrap();
        g.calls += 1;
        let n = buf.len();
        let mut done = 0;
        while done < n {
            let o = self.pos + done as u64;
            let page = o / PAGE as u64;
            let within = (o % PAGE as u64) as usize;
            let k = (PAGE - within).min(n - done);
            let chunk = &buf[done..done + k];
            let all_zero = chunk.iter().all(|&b| b == 0);
            match g.pages.get_mut(&page) {
                Some(p) => p[within..within + k].copy_from_slice(chunk),
                None => {
                    if !all_zero {
                        let mut p = Box::new([0u8; PAGE]);
                        p[within..within + k].copy_from_slice(chunk);
                        g.pages.insert(page, p);
                    }
                }
            }
            done += k;
        }
        self.pos += n as u64;
        if self.pos > g.len {
            g.len = self.pos;
        }
        Ok(n)
    }
    fn flush(&mut self) -> io::Result<()> {
        Ok(())
    }
}

impl Seek for SparseFile {
    fn seek(&mut self, from: SeekFrom) -> io::Result<u64> {
        let mut g = self.st.0.lock().unwrap();
        g.calls += 1;
        let target: i128 = match from {
            SeekFrom::Start(n) => n as i128,
            SeekFrom::End(d) => g.len as i128 + d as i128,
            SeekFrom::Current(d) => self.pos as i128 + d as i128,
        };
        if target < 0 || target > u64::MAX as i128 {
            return Err(io::Error::new(ErrorKind::InvalidInput, "invalid seek to a negative or overflowing position"));
        }
        self.pos = target as u64;
        Ok(self.pos)
    }
}
