//! Independent MS-CFB reader and structural checker.  Imports nothing from `cfb`.
//!
//! `parse` reads header, DIFAT, FAT, directory, MiniFAT; `check` evaluates the rule
//! set of DESIGN.md (C03) and returns the violated rules; `logical` decodes the tree
//! with metadata and stream contents; `field_map` lists the byte offset of every
//! header field, DIFAT/FAT/MiniFAT cell and directory entry field (drives corrupt.rs).

use crate::order;
use std::collections::{BTreeMap, HashMap, HashSet};

pub const FREE: u32 = 0xFFFF_FFFF;
pub const END: u32 = 0xFFFF_FFFE;
pub const FATSECT: u32 = 0xFFFF_FFFD;
pub const DIFSECT: u32 = 0xFFFF_FFFC;
pub const MAXREG: u32 = 0xFFFF_FFFA;
pub const NOSTREAM: u32 = 0xFFFF_FFFF;
pub const MAGIC: [u8; 8] = [0xd0, 0xcf, 0x11, 0xe0, 0xa1, 0xb1, 0x1a, 0xe1];
pub const CUTOFF: u64 = 4096;
pub const MINI: usize = 64;

pub fn rd16(b: &[u8], o: usize) -> u16 {
    u16::from_le_bytes([b[o], b[o + 1]])
}
pub fn rd32(b: &[u8], o: usize) -> u32 {
    u32::from_le_bytes([b[o], b[o + 1], b[o + 2], b[o + 3]])
}
pub fn rd64(b: &[u8], o: usize) -> u64 {
    let mut x = [0u8; 8];
    x.copy_from_slice(&b[o..o + 8]);
    u64::from_le_bytes(x)
}
pub fn wr16(b: &mut [u8], o: usize, v: u16) {
    b[o..o + 2].copy_from_slice(&v.to_le_bytes());
}
pub fn wr32(b: &mut [u8], o: usize, v: u32) {
    b[o..o + 4].copy_from_slice(&v.to_le_bytes());
}
pub fn wr64(b: &mut [u8], o: usize, v: u64) {
    b[o..o + 8].copy_from_slice(&v.to_le_bytes());
}

#[derive(Clone, Debug, Default)]
pub struct Hdr {
    pub minor: u16,
    pub major: u16,
    pub num_dir: u32,
    pub num_fat: u32,
    pub first_dir: u32,
    pub trans_sig: u32,
    pub cutoff: u32,
    pub first_minifat: u32,
    pub num_minifat: u32,
    pub first_difat: u32,
    pub num_difat: u32,
}

#[derive(Clone, Debug)]
pub struct RawEntry {
    pub idx: u32,
    /// Byte offset of the 128-byte entry in the file.
    pub off: usize,
    pub units: [u16; 32],
    pub name_len: u16,
    pub obj_type: u8,
    pub color: u8,
    pub left: u32,
    pub right: u32,
    pub child: u32,
    pub clsid: [u8; 16],
    pub state: u32,
    pub ctime: u64,
    pub mtime: u64,
    pub start: u32,
    pub size: u64,
}

impl RawEntry {
    /// Name according to the length field (None if the field is unusable or the units
    /// are not valid UTF-16).
    pub fn name(&self) -> Option<String> {
        if self.name_len < 2 || self.name_len > 64 || self.name_len % 2 != 0 {
            return None;
        }
        let n = (self.name_len / 2 - 1) as usize;
        String::from_utf16(&self.units[..n]).ok()
    }
    /// CLSID in canonical (RFC 4122 / textual) byte order.
    pub fn clsid_canonical(&self) -> [u8; 16] {
        let c = &self.clsid;
        [
            c[3], c[2], c[1], c[0], c[5], c[4], c[7], c[6], c[8], c[9], c[10], c[11], c[12],
            c[13], c[14], c[15],
        ]
    }
    pub fn all_zero_but_links(&self, raw: &[u8]) -> bool {
        let e = &raw[self.off..self.off + 128];
        e[..68].iter().all(|&b| b == 0) && e[80..].iter().all(|&b| b == 0)
    }
}

#[derive(Clone, Debug)]
pub struct Image {
    pub version: u16,
    pub sector_len: usize,
    /// Number of whole sectors after the header sector.
    pub nsect: usize,
    pub file_len: usize,
    pub hdr: Hdr,
    pub difat_sectors: Vec<u32>,
    /// All DIFAT cells in order (109 header cells, then each DIFAT sector's cells),
    /// with their byte offsets.
    pub difat_cells: Vec<(usize, u32)>,
    /// FAT sector ids = DIFAT cells up to the last non-FREE one.
    pub fat_sectors: Vec<u32>,
    pub fat: Vec<u32>,
    pub dir_chain: Vec<u32>,
    pub entries: Vec<RawEntry>,
    pub minifat_chain: Vec<u32>,
    pub minifat: Vec<u32>,
    pub ministream_chain: Vec<u32>,
    /// Problems met while walking the basic structures (cycle, out of range ...).
    pub walk_problems: Vec<Violation>,
}

#[derive(Clone, Debug, PartialEq, Eq)]
pub struct Violation {
    pub rule: &'static str,
    pub detail: String,
}

fn v(rule: &'static str, detail: String) -> Violation {
    Violation { rule, detail }
}

impl Image {
    pub fn sector_off(&self, id: u32) -> usize {
        (id as usize + 1) * self.sector_len
    }
    pub fn fat_cell_off(&self, i: usize) -> Option<usize> {
        let per = self.sector_len / 4;
        let s = *self.fat_sectors.get(i / per)?;
        Some(self.sector_off(s) + 4 * (i % per))
    }
    pub fn minifat_cell_off(&self, i: usize) -> Option<usize> {
        let per = self.sector_len / 4;
        let s = *self.minifat_chain.get(i / per)?;
        Some(self.sector_off(s) + 4 * (i % per))
    }
    pub fn mini_sector_off(&self, m: u32) -> Option<usize> {
        let per = self.sector_len / MINI;
        let s = *self.ministream_chain.get(m as usize / per)?;
        Some(self.sector_off(s) + MINI * (m as usize % per))
    }
    pub fn fat_get(&self, i: u32) -> Option<u32> {
        self.fat.get(i as usize).copied()
    }

    /// Follows a FAT chain; stops (with a problem) on cycle, out-of-range or special
    /// value other than END.
    pub fn chain(&self, start: u32, what: &str, probs: &mut Vec<Violation>) -> Vec<u32> {
        let mut out = Vec::new();
        let mut seen = HashSet::new();
        let mut cur = start;
        while cur != END {
            if cur > MAXREG || cur as usize >= self.nsect || cur as usize >= self.fat.len() {
                probs.push(v("chain_range", format!("{what}: chain reaches invalid sector {cur:#x}")));
                break;
            }
            if !seen.insert(cur) {
                probs.push(v("chain_cycle", format!("{what}: chain revisits sector {cur}")));
                break;
            }
            out.push(cur);
            cur = self.fat[cur as usize];
        }
        out
    }

    pub fn mini_chain(&self, start: u32, what: &str, probs: &mut Vec<Violation>) -> Vec<u32> {
        let mut out = Vec::new();
        let mut seen = HashSet::new();
        let mut cur = start;
        while cur != END {
            if cur > MAXREG || cur as usize >= self.minifat.len() {
                probs.push(v("minichain_range", format!("{what}: mini chain reaches invalid mini sector {cur:#x}")));
                break;
            }
            if !seen.insert(cur) {
                probs.push(v("minichain_cycle", format!("{what}: mini chain revisits {cur}")));
                break;
            }
            out.push(cur);
            cur = self.minifat[cur as usize];
        }
        out
    }

    pub fn read_regular(&self, raw: &[u8], chain: &[u32], size: u64) -> Option<Vec<u8>> {
        let mut out = Vec::with_capacity(size as usize);
        let mut left = size as usize;
        for &s in chain {
            if left == 0 {
                break;
            }
            let o = self.sector_off(s);
            let n = left.min(self.sector_len);
            if o + n > raw.len() {
                return None;
            }
            out.extend_from_slice(&raw[o..o + n]);
            left -= n;
        }
        if left == 0 {
            Some(out)
        } else {
            None
        }
    }

    pub fn read_mini(&self, raw: &[u8], chain: &[u32], size: u64) -> Option<Vec<u8>> {
        let mut out = Vec::with_capacity(size as usize);
        let mut left = size as usize;
        for &m in chain {
            if left == 0 {
                break;
            }
            let o = self.mini_sector_off(m)?;
            let n = left.min(MINI);
            if o + n > raw.len() {
                return None;
            }
            out.extend_from_slice(&raw[o..o + n]);
            left -= n;
        }
        if left == 0 {
            Some(out)
        } else {
            None
        }
    }
}

/// Reads the basic structures.  `Err` = not even the header / FAT could be located.
pub fn parse(raw: &[u8]) -> Result<Image, String> {
    if raw.len() < 512 {
        return Err(format!("file of {} bytes has no header", raw.len()));
    }
    if raw[..8] != MAGIC {
        return Err("bad magic".into());
    }
    let major = rd16(raw, 26);
    let shift = rd16(raw, 30);
    let sector_len = match (major, shift) {
        (3, 9) => 512,
        (4, 12) => 4096,
        _ => return Err(format!("version {major} / sector shift {shift}")),
    };
    if raw.len() < sector_len {
        return Err("shorter than one sector".into());
    }
    let nsect = raw.len() / sector_len - 1;
    let hdr = Hdr {
        minor: rd16(raw, 24),
        major,
        num_dir: rd32(raw, 40),
        num_fat: rd32(raw, 44),
        first_dir: rd32(raw, 48),
        trans_sig: rd32(raw, 52),
        cutoff: rd32(raw, 56),
        first_minifat: rd32(raw, 60),
        num_minifat: rd32(raw, 64),
        first_difat: rd32(raw, 68),
        num_difat: rd32(raw, 72),
    };
    let mut img = Image {
        version: major,
        sector_len,
        nsect,
        file_len: raw.len(),
        hdr,
        difat_sectors: Vec::new(),
        difat_cells: Vec::new(),
        fat_sectors: Vec::new(),
        fat: Vec::new(),
        dir_chain: Vec::new(),
        entries: Vec::new(),
        minifat_chain: Vec::new(),
        minifat: Vec::new(),
        ministream_chain: Vec::new(),
        walk_problems: Vec::new(),
    };
    let mut probs = Vec::new();
    for i in 0..109 {
        let o = 76 + 4 * i;
        img.difat_cells.push((o, rd32(raw, o)));
    }
    // DIFAT chain (linked through the last cell of each DIFAT sector).
    let mut cur = img.hdr.first_difat;
    let mut seen = HashSet::new();
    while cur != END {
        if cur > MAXREG || cur as usize >= nsect {
            probs.push(v("difat_chain", format!("DIFAT chain reaches invalid sector {cur:#x}")));
            break;
        }
        if !seen.insert(cur) {
            probs.push(v("difat_chain", format!("DIFAT chain revisits sector {cur}")));
            break;
        }
        img.difat_sectors.push(cur);
        let base = img.sector_off(cur);
        for i in 0..(sector_len / 4 - 1) {
            img.difat_cells.push((base + 4 * i, rd32(raw, base + 4 * i)));
        }
        cur = rd32(raw, base + sector_len - 4);
    }
    let mut used = img.difat_cells.len();
    while used > 0 && img.difat_cells[used - 1].1 == FREE {
        used -= 1;
    }
    img.fat_sectors = img.difat_cells[..used].iter().map(|c| c.1).collect();
    for &s in &img.fat_sectors {
        if s > MAXREG || s as usize >= nsect {
            return Err(format!("DIFAT names FAT sector {s:#x} outside the file ({nsect} sectors)"));
        }
        let base = img.sector_off(s);
        for i in 0..(sector_len / 4) {
            img.fat.push(rd32(raw, base + 4 * i));
        }
    }
    // Directory.
    img.dir_chain = img.chain(img.hdr.first_dir, "directory", &mut probs);
    for (k, &s) in img.dir_chain.iter().enumerate() {
        let base = img.sector_off(s);
        for j in 0..(sector_len / 128) {
            let off = base + 128 * j;
            let mut units = [0u16; 32];
            for (u, unit) in units.iter_mut().enumerate() {
                *unit = rd16(raw, off + 2 * u);
            }
            let mut clsid = [0u8; 16];
            clsid.copy_from_slice(&raw[off + 80..off + 96]);
            let size_raw = rd64(raw, off + 120);
            img.entries.push(RawEntry {
                idx: (k * (sector_len / 128) + j) as u32,
                off,
                units,
                name_len: rd16(raw, off + 64),
                obj_type: raw[off + 66],
                color: raw[off + 67],
                left: rd32(raw, off + 68),
                right: rd32(raw, off + 72),
                child: rd32(raw, off + 76),
                clsid,
                state: rd32(raw, off + 96),
                ctime: rd64(raw, off + 100),
                mtime: rd64(raw, off + 108),
                start: rd32(raw, off + 116),
                size: size_raw,
            });
        }
    }
    // MiniFAT and mini stream.
    if img.hdr.first_minifat != END || img.hdr.num_minifat != 0 {
        img.minifat_chain = img.chain(img.hdr.first_minifat, "MiniFAT", &mut probs);
    }
    for &s in &img.minifat_chain {
        let base = img.sector_off(s);
        for i in 0..(sector_len / 4) {
            img.minifat.push(rd32(raw, base + 4 * i));
        }
    }
    if let Some(root) = img.entries.first() {
        if root.size != 0 {
            let start = root.start;
            img.ministream_chain = img.chain(start, "mini stream", &mut probs);
        } else if root.start != END {
            // No mini stream: MS-CFB says nothing about the start sector field then.  It is
            // taken for a container chain that was kept (what this library does when the
            // mini stream empties) only if it is a well-formed chain that nothing else
            // owns; otherwise it is a leftover value without meaning.
            let start = root.start;
            let mut scratch = Vec::new();
            let chain = img.chain(start, "mini stream", &mut scratch);
            let mut taken: std::collections::HashSet<u32> = img.dir_chain.iter().chain(img.fat_sectors.iter()).chain(img.difat_sectors.iter()).chain(img.minifat_chain.iter()).cloned().collect();
            for e in img.entries.iter().skip(1).filter(|e| e.obj_type == 2 && e.size >= 4096) {
                let mut p2 = Vec::new();
                taken.extend(img.chain(e.start, "stream", &mut p2));
            }
            if scratch.is_empty() && !chain.is_empty() && !chain.iter().any(|s| taken.contains(s)) {
                img.ministream_chain = chain;
            }
        }
    }
    img.walk_problems = probs;
    Ok(img)
}

/// Size of a stream entry as a reader of this version sees it (v3: low 32 bits).
pub fn eff_size(img: &Image, e: &RawEntry) -> u64 {
    if img.version == 3 {
        e.size & 0xFFFF_FFFF
    } else {
        e.size
    }
}

#[derive(Clone, Debug, Default)]
pub struct Slack {
    pub ministream_extra_sectors: u64,
    pub minifat_extra_sectors: u64,
    pub root_start_without_size: u64,
}

pub struct CheckResult {
    pub violations: Vec<Violation>,
    pub slack: Slack,
    pub rules_evaluated: u64,
}

/// The C03 rule set.
pub fn check(img: &Image, raw: &[u8]) -> CheckResult {
    let mut out: Vec<Violation> = img.walk_problems.clone();
    let mut slack = Slack::default();
    let mut rules: u64 = 0;
    macro_rules! rule {
        ($cond:expr, $name:expr, $($arg:tt)+) => {{
            rules += 1;
            if !($cond) {
                out.push(v($name, format!($($arg)+)));
            }
        }};
    }
    let sl = img.sector_len;
    let h = &img.hdr;
    // ---- header constants
    rule!(raw[8..24].iter().all(|&b| b == 0), "hdr_clsid_zero", "header CLSID not zero");
    // the minor version SHOULD be 0x3E (MS-CFB 2.2); files of other writers carry 0x3B, 0x21, ...
    // and keep it when this crate modifies them, so it is not a rule
    rule!(rd16(raw, 28) == 0xFFFE, "hdr_bom", "byte order {:#x}", rd16(raw, 28));
    rule!(rd16(raw, 32) == 6, "hdr_minishift", "mini shift {}", rd16(raw, 32));
    rule!(raw[34..40].iter().all(|&b| b == 0), "hdr_reserved", "reserved bytes not zero");
    rule!(h.cutoff == 4096, "hdr_cutoff", "cutoff {}", h.cutoff);
    rule!(raw.len() % sl == 0, "file_len_whole_sectors", "file length {} is not a multiple of {}", raw.len(), sl);
    if img.version == 4 {
        rule!(raw[512..4096.min(raw.len())].iter().all(|&b| b == 0), "hdr_v4_padding", "v4 header sector padding not zero");
    }
    // ---- DIFAT
    rule!(h.num_difat as usize == img.difat_sectors.len(), "hdr_num_difat", "header says {} DIFAT sectors, chain has {}", h.num_difat, img.difat_sectors.len());
    if img.difat_sectors.is_empty() {
        rule!(h.first_difat == END, "hdr_first_difat", "no DIFAT sectors but first_difat = {:#x}", h.first_difat);
    }
    rule!(h.num_fat as usize == img.fat_sectors.len(), "hdr_num_fat", "header says {} FAT sectors, DIFAT lists {}", h.num_fat, img.fat_sectors.len());
    {
        let mut seen = HashSet::new();
        for (i, &s) in img.fat_sectors.iter().enumerate() {
            rule!(s <= MAXREG && (s as usize) < img.nsect, "difat_entry_range", "DIFAT[{}] = {:#x}", i, s);
            rule!(seen.insert(s), "difat_entry_dup", "FAT sector {} listed twice", s);
            rule!(img.fat_get(s) == Some(FATSECT), "fat_sector_marked", "FAT sector {} has FAT cell {:?}", s, img.fat_get(s));
        }
        for &d in &img.difat_sectors {
            rule!(img.fat_get(d) == Some(DIFSECT), "difat_sector_marked", "DIFAT sector {} has FAT cell {:?}", d, img.fat_get(d));
        }
        // Only the last DIFAT sector may have unused cells, and a DIFAT sector exists
        // only if the header array is full.
        let per = sl / 4 - 1;
        if !img.difat_sectors.is_empty() {
            let needed = (img.fat_sectors.len().saturating_sub(109) + per - 1) / per;
            // (a chain that is *longer* than needed - a spare, empty DIFAT sector at its end -
            // is what some writers pre-allocate; MS-CFB does not forbid it)
            rule!(needed <= img.difat_sectors.len(), "difat_sector_count", "{} FAT sectors need {} DIFAT sectors, chain has {}", img.fat_sectors.len(), needed, img.difat_sectors.len());
        }
    }
    // ---- FAT
    rule!(img.fat.len() >= img.nsect, "fat_covers_file", "FAT has {} cells for {} sectors", img.fat.len(), img.nsect);
    for i in img.nsect..img.fat.len() {
        if img.fat[i] != FREE {
            rule!(false, "fat_beyond_eof_free", "FAT cell {} beyond end of file is {:#x}", i, img.fat[i]);
            break;
        }
    }
    rules += 1;
    // ---- ownership of sectors
    let mut owner: HashMap<u32, String> = HashMap::new();
    let mut claim = |out: &mut Vec<Violation>, who: &str, chain: &[u32]| {
        for &s in chain {
            if let Some(prev) = owner.get(&s) {
                out.push(v("sector_owned_once", format!("sector {s} belongs to both {prev} and {who}")));
            } else {
                owner.insert(s, who.to_string());
            }
        }
    };
    claim(&mut out, "FAT", &img.fat_sectors);
    claim(&mut out, "DIFAT", &img.difat_sectors);
    claim(&mut out, "directory", &img.dir_chain);
    claim(&mut out, "MiniFAT", &img.minifat_chain);
    claim(&mut out, "mini stream", &img.ministream_chain);
    rules += 5;
    // ---- header counts for directory / MiniFAT
    if img.version == 3 {
        rule!(h.num_dir == 0, "hdr_v3_num_dir_zero", "v3 header has num_dir_sectors = {}", h.num_dir);
    } else {
        rule!(h.num_dir as usize == img.dir_chain.len(), "hdr_num_dir", "header says {} directory sectors, chain has {}", h.num_dir, img.dir_chain.len());
    }
    rule!(!img.dir_chain.is_empty(), "dir_nonempty", "directory chain is empty");
    rule!(h.num_minifat as usize == img.minifat_chain.len(), "hdr_num_minifat", "header says {} MiniFAT sectors, chain has {}", h.num_minifat, img.minifat_chain.len());
    if img.minifat_chain.is_empty() {
        rule!(h.first_minifat == END, "hdr_first_minifat", "no MiniFAT but first_minifat = {:#x}", h.first_minifat);
    }
    // ---- directory entries
    let n = img.entries.len();
    let mut mini_owner: HashMap<u32, u32> = HashMap::new();
    if n == 0 {
        out.push(v("root_entry", "no directory entries".into()));
        return CheckResult { violations: out, slack, rules_evaluated: rules };
    }
    let root = &img.entries[0];
    rule!(root.obj_type == 5, "root_entry", "entry 0 has type {}", root.obj_type);
    rule!(root.name().as_deref() == Some("Root Entry"), "root_name", "root name is {:?}", root.name());
    rule!(root.left == NOSTREAM && root.right == NOSTREAM, "root_no_siblings", "root has siblings {:#x}/{:#x}", root.left, root.right);
    let root_size = eff_size(img, root);
    rule!(root_size % 64 == 0, "root_size_multiple_64", "root size {}", root_size);
    let ms_cap = (img.ministream_chain.len() * sl) as u64;
    rule!(ms_cap >= root_size, "ministream_capacity", "mini stream chain holds {} bytes, root size {}", ms_cap, root_size);
    if ms_cap >= root_size {
        let need = ((root_size + sl as u64 - 1) / sl as u64) as usize;
        slack.ministream_extra_sectors = (img.ministream_chain.len() - need) as u64;
    }
    if root_size == 0 && root.start != END {
        slack.root_start_without_size = 1;
    }
    {
        let need = (img.minifat.iter().rposition(|&c| c != FREE).map(|p| p + 1).unwrap_or(0) + sl / 4 - 1) / (sl / 4);
        slack.minifat_extra_sectors = img.minifat_chain.len().saturating_sub(need) as u64;
    }
    let n_mini = root_size / 64;
    // Tree walk.
    let mut reach: HashMap<u32, u32> = HashMap::new(); // entry -> parent storage
    let mut stack: Vec<u32> = vec![0];
    while let Some(st) = stack.pop() {
        let e = &img.entries[st as usize];
        if e.child == NOSTREAM {
            continue;
        }
        // iterative in-order over the sibling tree
        let mut inorder: Vec<u32> = Vec::new();
        let mut work: Vec<(u32, bool, u8)> = vec![(e.child, false, 1)]; // (id, expanded, parent colour: 1 black)
        let mut ok = true;
        // MS-CFB 2.6.4 demands a black *root storage object* (and calls its colour irrelevant),
        // no red-red edge, and the order; it does not demand that the top of every sibling
        // tree is black, so that is not a rule here (it was, wrongly, until round 4)
        while let Some((id, expanded, pcol)) = work.pop() {
            if id as usize >= n {
                out.push(v("tree_id_range", format!("storage {st}: link to entry {id:#x} of {n}")));
                ok = false;
                continue;
            }
            let c = &img.entries[id as usize];
            if expanded {
                inorder.push(id);
                continue;
            }
            if reach.contains_key(&id) || id == 0 {
                out.push(v("tree_reached_once", format!("entry {id} reachable twice")));
                ok = false;
                continue;
            }
            reach.insert(id, st);
            rules += 2;
            if c.obj_type != 1 && c.obj_type != 2 {
                out.push(v("tree_entry_type", format!("entry {id} in tree has type {}", c.obj_type)));
            }
            if c.color > 1 {
                out.push(v("entry_color", format!("entry {id} colour byte {}", c.color)));
            }
            if pcol == 0 && c.color == 0 {
                out.push(v("rb_no_red_red", format!("entries: red parent and red child {id}")));
            }
            if c.right != NOSTREAM {
                work.push((c.right, false, c.color));
            }
            work.push((id, true, 0));
            if c.left != NOSTREAM {
                work.push((c.left, false, c.color));
            }
            if c.obj_type == 1 {
                stack.push(id);
            }
        }
        if ok {
            rules += 1;
            for w in inorder.windows(2) {
                let a = &img.entries[w[0] as usize];
                let b = &img.entries[w[1] as usize];
                let (na, nb) = (name_units(a), name_units(b));
                if order::compare_units(&na, &nb) != std::cmp::Ordering::Less {
                    out.push(v("tree_order", format!("storage {st}: entries {} and {} out of CFB order ({:?} !< {:?})", w[0], w[1], a.name(), b.name())));
                }
            }
        }
    }
    for e in &img.entries {
        let id = e.idx;
        if id == 0 {
            continue;
        }
        match e.obj_type {
            0 => {
                rule!(e.left == NOSTREAM && e.right == NOSTREAM && e.child == NOSTREAM, "unalloc_links", "unallocated entry {} has links", id);
                rule!(e.all_zero_but_links(raw), "unalloc_blank", "unallocated entry {} is not blank (name_len {}, colour {})", id, e.name_len, e.color);
                rule!(!reach.contains_key(&id), "unalloc_unreachable", "unallocated entry {} is linked into a tree", id);
            }
            1 | 2 => {
                rule!(reach.contains_key(&id), "alloc_reachable", "allocated entry {} ({:?}) is not reachable from the root", id, e.name());
                // name
                let okfield = e.name_len >= 4 && e.name_len <= 64 && e.name_len % 2 == 0;
                rule!(okfield, "name_len_field", "entry {} name length field {}", id, e.name_len);
                if okfield {
                    let k = (e.name_len / 2 - 1) as usize;
                    rule!(e.units[k] == 0, "name_terminated", "entry {} name not NUL-terminated", id);
                    // U+0000 inside the counted name is not an illegal character (MS-CFB 2.6.1
                    // lists / \\ : !) and the crate accepts it, so it is not a rule here
                    rule!(e.name().is_some(), "name_utf16", "entry {} name is not UTF-16", id);
                    if let Some(nm) = e.name() {
                        rule!(order::name_is_valid(&nm), "name_chars", "entry {} name {:?} has forbidden characters", id, nm);
                    }
                }
                if e.obj_type == 2 {
                    rule!(e.clsid.iter().all(|&b| b == 0), "stream_clsid_nil", "stream {} has a CLSID", id);
                    rule!(e.ctime == 0 && e.mtime == 0, "stream_times_zero", "stream {} has timestamps {}/{}", id, e.ctime, e.mtime);
                    rule!(e.child == NOSTREAM, "stream_no_child", "stream {} has child {:#x}", id, e.child);
                    let size = eff_size(img, e);
                    if img.version == 3 {
                        rule!(e.size < (1u64 << 32), "v3_size_32bit", "v3 stream {} has size {:#x}", id, e.size);
                    }
                    let who = format!("stream {id}");
                    if size == 0 {
                        rule!(e.start == END, "empty_stream_no_chain", "empty stream {} has start sector {:#x}", id, e.start);
                    } else if size < CUTOFF {
                        let mut probs = Vec::new();
                        let ch = img.mini_chain(e.start, &who, &mut probs);
                        out.extend(probs);
                        let need = ((size + 63) / 64) as usize;
                        rule!(ch.len() == need, "mini_chain_len", "stream {} of {} bytes has {} mini sectors (needs {})", id, size, ch.len(), need);
                        for &m in &ch {
                            rules += 1;
                            if let Some(prev) = mini_owner.insert(m, id) {
                                out.push(v("mini_owned_once", format!("mini sector {m} belongs to streams {prev} and {id}")));
                            }
                            if (m as u64) >= n_mini {
                                out.push(v("mini_within_root", format!("mini sector {m} of stream {id} beyond root size {root_size}")));
                            }
                        }
                    } else {
                        let mut probs = Vec::new();
                        let ch = img.chain(e.start, &who, &mut probs);
                        out.extend(probs);
                        let need = ((size + sl as u64 - 1) / sl as u64) as usize;
                        rule!(ch.len() == need, "chain_len", "stream {} of {} bytes has {} sectors (needs {})", id, size, ch.len(), need);
                        claim(&mut out, &who, &ch);
                    }
                } else {
                    rule!(e.start == 0, "storage_start_zero", "storage {} has start sector {:#x}", id, e.start);
                    rule!(e.size == 0, "storage_size_zero", "storage {} has size {}", id, e.size);
                }
            }
            t => {
                rule!(false, "entry_type", "entry {} has type {}", id, t);
            }
        }
    }
    // every non-FREE FAT cell is owned
    for i in 0..img.nsect.min(img.fat.len()) {
        let c = img.fat[i];
        rules += 1;
        if c != FREE && !owner.contains_key(&(i as u32)) {
            out.push(v("sector_has_owner", format!("sector {i} has FAT cell {c:#x} but no owner")));
        }
        if c == FREE {
            if let Some(w) = owner.get(&(i as u32)) {
                out.push(v("owned_sector_not_free", format!("sector {i} is FREE in the FAT but belongs to {w}")));
            }
        }
    }
    for (i, &c) in img.minifat.iter().enumerate() {
        rules += 1;
        if c != FREE && !mini_owner.contains_key(&(i as u32)) {
            out.push(v("mini_has_owner", format!("mini sector {i} has MiniFAT cell {c:#x} but no owner")));
        }
        if c == FREE && mini_owner.contains_key(&(i as u32)) {
            out.push(v("owned_mini_not_free", format!("mini sector {i} is FREE but belongs to stream {}", mini_owner[&(i as u32)])));
        }
    }
    CheckResult { violations: out, slack, rules_evaluated: rules }
}

pub fn name_units(e: &RawEntry) -> Vec<u16> {
    if e.name_len >= 2 && e.name_len <= 64 && e.name_len % 2 == 0 {
        e.units[..(e.name_len / 2 - 1) as usize].to_vec()
    } else {
        e.units.iter().take_while(|&&u| u != 0).cloned().collect()
    }
}

// ---------------------------------------------------------------------------
// Logical content

#[derive(Clone, Debug, PartialEq, Eq)]
pub enum LKind {
    Storage,
    Stream,
}

/// One object of the logical tree, in pre-order (children in on-disk in-order).
#[derive(Clone, Debug, PartialEq, Eq)]
pub struct LEntry {
    pub path: String,
    pub name: String,
    pub kind: LKind,
    pub clsid: [u8; 16],
    pub state: u32,
    pub ctime: u64,
    pub mtime: u64,
    pub data: Vec<u8>,
    pub entry_idx: u32,
}

/// Decodes the logical tree (pre-order; root first with path "/").
pub fn logical(img: &Image, raw: &[u8]) -> Result<Vec<LEntry>, String> {
    let n = img.entries.len();
    if n == 0 {
        return Err("no entries".into());
    }
    let mut out = Vec::new();
    let root = &img.entries[0];
    out.push(LEntry {
        path: "/".into(),
        name: "Root Entry".into(),
        kind: LKind::Storage,
        clsid: root.clsid_canonical(),
        state: root.state,
        ctime: root.ctime,
        mtime: root.mtime,
        data: Vec::new(),
        entry_idx: 0,
    });
    let mut visited = HashSet::new();
    visited.insert(0u32);
    fn inorder(img: &Image, start: u32, visited: &mut HashSet<u32>) -> Result<Vec<u32>, String> {
        let mut res = Vec::new();
        let mut work: Vec<(u32, bool)> = vec![(start, false)];
        while let Some((id, expanded)) = work.pop() {
            if id as usize >= img.entries.len() {
                return Err(format!("link to entry {id:#x}"));
            }
            if expanded {
                res.push(id);
                continue;
            }
            if !visited.insert(id) {
                return Err(format!("entry {id} reached twice"));
            }
            let e = &img.entries[id as usize];
            if e.right != NOSTREAM {
                work.push((e.right, false));
            }
            work.push((id, true));
            if e.left != NOSTREAM {
                work.push((e.left, false));
            }
        }
        Ok(res)
    }
    fn rec(img: &Image, raw: &[u8], parent_path: &str, child: u32, visited: &mut HashSet<u32>, out: &mut Vec<LEntry>, depth: usize) -> Result<(), String> {
        if child == NOSTREAM {
            return Ok(());
        }
        if depth > 4096 {
            return Err("tree too deep".into());
        }
        for id in inorder(img, child, visited)? {
            let e = &img.entries[id as usize];
            let name = e.name().ok_or_else(|| format!("entry {id} has no decodable name"))?;
            let path = if parent_path == "/" { format!("/{name}") } else { format!("{parent_path}/{name}") };
            match e.obj_type {
                1 => {
                    out.push(LEntry { path: path.clone(), name, kind: LKind::Storage, clsid: e.clsid_canonical(), state: e.state, ctime: e.ctime, mtime: e.mtime, data: Vec::new(), entry_idx: id });
                    rec(img, raw, &path, e.child, visited, out, depth + 1)?;
                }
                2 => {
                    let size = eff_size(img, e);
                    let mut probs = Vec::new();
                    let data = if size == 0 {
                        Vec::new()
                    } else if size < CUTOFF {
                        let ch = img.mini_chain(e.start, "s", &mut probs);
                        img.read_mini(raw, &ch, size).ok_or_else(|| format!("stream {id}: mini chain too short"))?
                    } else {
                        let ch = img.chain(e.start, "s", &mut probs);
                        img.read_regular(raw, &ch, size).ok_or_else(|| format!("stream {id}: chain too short"))?
                    };
                    out.push(LEntry { path, name, kind: LKind::Stream, clsid: e.clsid_canonical(), state: e.state, ctime: e.ctime, mtime: e.mtime, data, entry_idx: id });
                }
                t => return Err(format!("entry {id} has type {t}")),
            }
        }
        Ok(())
    }
    rec(img, raw, "/", root.child, &mut visited, &mut out, 0)?;
    Ok(out)
}

// ---------------------------------------------------------------------------
// Sibling-tree shape queries (coverage measurement and workload steering)

#[derive(Clone, Debug, Default)]
pub struct NodeShape {
    pub has_left: bool,
    pub has_right: bool,
    /// Entry index of the in-order predecessor inside the left subtree (if two children).
    pub predecessor: Option<u32>,
    pub successor: Option<u32>,
    pub parent_in_tree: Option<u32>,
    pub depth: u32,
}

/// Looks up `path` ("/a/b") and describes the node's position in its sibling tree.
pub fn shape_of(img: &Image, path: &str) -> Option<(u32, NodeShape)> {
    let mut cur_storage = 0u32;
    let comps: Vec<&str> = path.split('/').filter(|s| !s.is_empty()).collect();
    let mut result = None;
    for (ci, comp) in comps.iter().enumerate() {
        let target: Vec<u16> = comp.encode_utf16().collect();
        let mut id = img.entries.get(cur_storage as usize)?.child;
        let mut parent = None;
        let mut depth = 0;
        let mut steps = 0;
        loop {
            if id == NOSTREAM || id as usize >= img.entries.len() {
                return None;
            }
            steps += 1;
            if steps > img.entries.len() + 1 {
                return None;
            }
            let e = &img.entries[id as usize];
            match order::compare_units(&target, &name_units(e)) {
                std::cmp::Ordering::Equal => break,
                std::cmp::Ordering::Less => {
                    parent = Some(id);
                    id = e.left;
                }
                std::cmp::Ordering::Greater => {
                    parent = Some(id);
                    id = e.right;
                }
            }
            depth += 1;
        }
        if ci + 1 == comps.len() {
            let e = &img.entries[id as usize];
            let mut sh = NodeShape { has_left: e.left != NOSTREAM, has_right: e.right != NOSTREAM, parent_in_tree: parent, depth, ..Default::default() };
            if e.left != NOSTREAM {
                let mut p = e.left;
                let mut g = 0;
                while (p as usize) < img.entries.len() && img.entries[p as usize].right != NOSTREAM && g < img.entries.len() {
                    p = img.entries[p as usize].right;
                    g += 1;
                }
                sh.predecessor = Some(p);
            }
            if e.right != NOSTREAM {
                let mut p = e.right;
                let mut g = 0;
                while (p as usize) < img.entries.len() && img.entries[p as usize].left != NOSTREAM && g < img.entries.len() {
                    p = img.entries[p as usize].left;
                    g += 1;
                }
                sh.successor = Some(p);
            }
            result = Some((id, sh));
        } else {
            cur_storage = id;
        }
    }
    result
}

// ---------------------------------------------------------------------------
// Field map

#[derive(Clone, Copy, Debug, PartialEq, Eq, Hash, PartialOrd, Ord)]
pub enum FieldClass {
    HdrMinor,
    HdrMajor,
    HdrBom,
    HdrSectorShift,
    HdrMiniShift,
    HdrReserved,
    HdrNumDir,
    HdrNumFat,
    HdrFirstDir,
    HdrTransSig,
    HdrCutoff,
    HdrFirstMiniFat,
    HdrNumMiniFat,
    HdrFirstDifat,
    HdrNumDifat,
    DifatCell,
    DifatNext,
    FatCell,
    MiniFatCell,
    DirNameUnit,
    DirNameLen,
    DirType,
    DirColor,
    DirLeft,
    DirRight,
    DirChild,
    DirClsid,
    DirState,
    DirCtime,
    DirMtime,
    DirStart,
    DirSize,
}

#[derive(Clone, Debug)]
pub struct Field {
    pub off: usize,
    pub width: u8,
    pub class: FieldClass,
    /// Cell index / entry index.
    pub ctx: u32,
}

pub fn field_map(img: &Image) -> Vec<Field> {
    use FieldClass::*;
    let mut f = Vec::new();
    let mut add = |off: usize, width: u8, class: FieldClass, ctx: u32| f.push(Field { off, width, class, ctx });
    add(24, 2, HdrMinor, 0);
    add(26, 2, HdrMajor, 0);
    add(28, 2, HdrBom, 0);
    add(30, 2, HdrSectorShift, 0);
    add(32, 2, HdrMiniShift, 0);
    add(34, 2, HdrReserved, 0);
    add(40, 4, HdrNumDir, 0);
    add(44, 4, HdrNumFat, 0);
    add(48, 4, HdrFirstDir, 0);
    add(52, 4, HdrTransSig, 0);
    add(56, 4, HdrCutoff, 0);
    add(60, 4, HdrFirstMiniFat, 0);
    add(64, 4, HdrNumMiniFat, 0);
    add(68, 4, HdrFirstDifat, 0);
    add(72, 4, HdrNumDifat, 0);
    for (i, &(off, _)) in img.difat_cells.iter().enumerate() {
        add(off, 4, DifatCell, i as u32);
    }
    for &d in &img.difat_sectors {
        add(img.sector_off(d) + img.sector_len - 4, 4, DifatNext, d);
    }
    for i in 0..img.fat.len() {
        if let Some(off) = img.fat_cell_off(i) {
            add(off, 4, FatCell, i as u32);
        }
    }
    for i in 0..img.minifat.len() {
        if let Some(off) = img.minifat_cell_off(i) {
            add(off, 4, MiniFatCell, i as u32);
        }
    }
    for e in &img.entries {
        let o = e.off;
        let i = e.idx;
        for u in 0..32 {
            add(o + 2 * u, 2, DirNameUnit, i);
        }
        add(o + 64, 2, DirNameLen, i);
        add(o + 66, 1, DirType, i);
        add(o + 67, 1, DirColor, i);
        add(o + 68, 4, DirLeft, i);
        add(o + 72, 4, DirRight, i);
        add(o + 76, 4, DirChild, i);
        add(o + 80, 16, DirClsid, i);
        add(o + 96, 4, DirState, i);
        add(o + 100, 8, DirCtime, i);
        add(o + 108, 8, DirMtime, i);
        add(o + 116, 4, DirStart, i);
        add(o + 120, 8, DirSize, i);
    }
    f
}

/// Convenience: parse + rule check + logical decode of an image expected to be valid.
pub fn full(raw: &[u8]) -> Result<(Image, CheckResult, Vec<LEntry>), String> {
    let img = parse(raw)?;
    let chk = check(&img, raw);
    let log = logical(&img, raw)?;
    Ok((img, chk, log))
}

/// Map path -> logical entry.
pub fn by_path(l: &[LEntry]) -> BTreeMap<String, &LEntry> {
    l.iter().map(|e| (e.path.clone(), e)).collect()
}
