//! cfbmon: runtime monitors for the 18 properties of mdsteele/rust-cfb (see /verif/DESIGN.md).

pub mod backend;
pub mod common;
pub mod corrupt;
pub mod engine;
pub mod gen;
pub mod guard;
pub mod model;
pub mod order;
pub mod props;
pub mod refparse;
pub mod report;
pub mod rng;
pub mod synth;
pub mod upper_table;

#[global_allocator]
static GLOBAL: guard::CountingAlloc = guard::CountingAlloc;
