//! Workload generators: tiny name pools, boundary sizes, order strategies, refusal
//! classes and path spellings.  Generators look only at the *model* side of a session.

use crate::engine::{Mode, OpenHow, Session, Step};
use crate::model::{self, Kind, Op};
use crate::order;
use crate::rng::Rng;
use std::io::SeekFrom;

/// Names used by most workloads: case variants, equal/different lengths, non-ASCII with
/// exceptional upper-casing, caseless supplementary characters, a 31-unit name.
pub const NAMES: &[&str] = &[
    "a", "A", "b", "B", "c", "ab", "AB", "aB", "ba", "zz", "abc", "ABD", "x1", "X2", "m", "M", "mm",
    "\u{e9}", "\u{c9}", "\u{3c3}", "\u{3c2}", "\u{3a3}", "\u{df}", "\u{ff}", "\u{178}", "\u{131}", "I", "i",
    "\u{17f}", "S", "s", "\u{b5}", "\u{39c}", "\u{1c6}", "\u{1c5}", "\u{1c4}", "\u{1fb3}", "\u{1fbc}",
    "\u{65e5}\u{672c}", "\u{1F600}", "a\u{1F600}", "\u{FFFD}\u{FFFD}", "\u{E000}b", "\u{FF41}", "\u{FF21}",
    "Storage 1", "stream.bin", "name_of_exactly_31_utf16_units_",
    "\u{1}CompObj", "\u{5}Summary", "Z", "z", "zZ", "Zz0", "k\u{212a}", "K", "\u{212a}",
    // ASCII characters between 'Z' and 'a' (0x5B-0x60): they sort above every letter under
    // upper-casing and below the lower-case letters under lower-casing
    "_a", "a_", "[b", "]b", "^b", "`b", "B_", "b^", "__SRP_0", "Module1", "_VBA_PR", "ThisWor", "{c", "~c", "@c",
    // U+0000 is an ordinary character of a counted name (trailing, leading, alone)
    "a\0", "ab\0\0", "\0", "\0a", "A\0",
    // titlecase digraphs (no Lowercase property, yet they have an upper-case form) and
    // polytonic Greek with iota subscript (full upper-casing expands, simple does not),
    // next to siblings that sort between the two forms
    "\u{1c5}a", "\u{1c4}b", "\u{1c8}x", "\u{1c7}y", "\u{1f2}m", "\u{1f1}n", "\u{1cb}",
    "\u{1fb6}", "\u{1f80}", "\u{1f88}", "\u{1f84}", "\u{1ff3}", "\u{1ffc}", "\u{1ff6}", "\u{1fc3}", "\u{1fc6}",
    // 31 and 25 units of three-byte characters (93 / 75 UTF-8 bytes), pairs that only
    // to_lowercase() identifies (Kelvin, Ohm, Angstrom signs, capital sharp s, theta symbol),
    // and supplementary characters that share a leading surrogate
    "\u{65e5}\u{672c}\u{8a9e}\u{306e}\u{6587}\u{66f8}\u{540d}\u{524d}\u{9577}\u{3044}\u{65e5}\u{672c}\u{8a9e}\u{306e}\u{6587}\u{66f8}\u{540d}\u{524d}\u{9577}\u{3044}\u{65e5}\u{672c}\u{8a9e}\u{306e}\u{6587}\u{66f8}\u{540d}\u{524d}\u{9577}\u{3044}\u{7d42}",
    "\u{d55c}\u{ae00}\u{d55c}\u{ae00}\u{d55c}\u{ae00}\u{d55c}\u{ae00}\u{d55c}\u{ae00}\u{d55c}\u{ae00}\u{d55c}\u{ae00}\u{d55c}\u{ae00}\u{d55c}\u{ae00}\u{d55c}\u{ae00}\u{d55c}\u{ae00}\u{d55c}\u{ae00}\u{d55c}",
    "\u{2126}", "\u{3c9}", "\u{3a9}", "\u{212b}", "\u{e5}", "\u{c5}", "\u{1e9e}", "\u{3f4}", "\u{3b8}", "\u{398}",
    "\u{1F680}", "n\u{1F600}", "n\u{1F680}", "\u{10400}", "\u{10401}",
];

/// Invalid names (C09 / C10 refusal classes).
pub const BAD_NAMES: &[&str] = &[
    "a:b", "a!b", "a\\b", ":", "!", "name_of_exactly_32_utf16_units__", "this name is much longer than thirty-one units",
    "\u{1F600}\u{1F600}\u{1F600}\u{1F600}\u{1F600}\u{1F600}\u{1F600}\u{1F600}\u{1F600}\u{1F600}\u{1F600}\u{1F600}\u{1F600}\u{1F600}\u{1F600}\u{1F600}",
    "x!", "\\", "a:",
];

pub const SIZES: &[u64] = &[
    0, 1, 2, 63, 64, 65, 127, 128, 129, 511, 512, 513, 1023, 1024, 1025, 1500, 2048, 4031, 4032, 4095, 4096, 4097, 4159, 4160, 5000, 8191, 8192,
    8193, 12287, 12288, 16384, 20000, 65535, 65536, 70000,
];

pub fn pick_size(rng: &mut Rng, max: u64) -> u64 {
    loop {
        let s = if rng.chance(3, 4) { *rng.pick(SIZES) } else if rng.chance(1, 2) { rng.below(300) } else { rng.below(max.min(10000) + 1) };
        if s <= max {
            return s;
        }
    }
}

/// A time (ns relative to the Unix epoch) from the C17 value classes: around the
/// epoch, sub-100ns fractions, before 1601, the tick limit, far future/past.
pub fn pick_time_ns(rng: &mut Rng) -> i128 {
    const E: i128 = 116_444_736_000_000_000; // ticks between 1601 and 1970
    let tick_limit_ns: i128 = (u64::MAX as i128 - E) * 100;
    let y1601_ns: i128 = -E * 100;
    let base: i128 = match rng.below(12) {
        0 => 0,
        1 => *rng.pick(&[1i128, 99, 100, 101, -1, -99, -100, -101]),
        2 => rng.below(1_000_000_000) as i128 - 500_000_000,
        3 => 1_700_000_000_000_000_000 + rng.below(4_000_000_000_000) as i128, // "now"
        4 => y1601_ns + *rng.pick(&[0i128, 1, -1, 100, -100, 99, -99, 101]),
        5 => -30_610_224_000_000_000_000 + rng.below(1_000_000) as i128, // year 1000
        6 => 253_402_300_799_000_000_000 + rng.below(1_000_000_000) as i128, // year 9999
        7 => tick_limit_ns + *rng.pick(&[0i128, 100, -100, 1, -1, 200, 1_000_000]),
        8 => 3_093_527_980_800_000_000_000 + rng.below(1_000_000) as i128, // year ~100000
        9 => -(rng.below(10_000_000_000_000_000_000u64) as i128),         // 1653..1970
        10 => (rng.next_u64() >> rng.below(30)) as i128 * 100 - E * 100 + rng.below(100) as i128,
        _ => rng.next_u64() as i128 - (1i128 << 63),
    };
    // must be representable as a SystemTime (i64 seconds)
    let secs = base.div_euclid(1_000_000_000);
    if secs > i64::MAX as i128 / 4 || secs < i64::MIN as i128 / 4 {
        0
    } else {
        base
    }
}

/// Case variant of a name within the unambiguous alphabet (swaps the case of cased BMP
/// characters whose mapping round-trips under the independent table).
pub fn case_variant(rng: &mut Rng, name: &str) -> String {
    let mut out = String::new();
    for c in name.chars() {
        let mut c2 = c;
        if (c as u32) <= 0xFFFF && rng.chance(1, 2) {
            let up = order::upper_unit(c as u32 as u16);
            if up != c as u32 as u16 {
                if let Some(u) = char::from_u32(up as u32) {
                    c2 = u;
                }
            } else {
                // try a lower-case partner: any unit whose upper is c
                let lo = c.to_lowercase().next().unwrap_or(c);
                if lo != c && (lo as u32) <= 0xFFFF && order::upper_unit(lo as u32 as u16) == c as u32 as u16 {
                    c2 = lo;
                }
            }
        }
        out.push(c2);
    }
    if order::fold(&out) == order::fold(name) && order::units(&out) == order::units(name) {
        out
    } else {
        name.to_string()
    }
}

/// Different spelling of the same path: extra slashes, `.`, resolvable `..`, no leading
/// slash, trailing slash.
pub fn respell(rng: &mut Rng, path: &str) -> String {
    let names = match model::normalise(path) {
        Some(n) => n,
        None => return path.to_string(),
    };
    if names.is_empty() {
        // spellings of the root itself
        return (*rng.pick(&["/", "", "//", "/.", ".", "./", "x/..", "/x/..", "./.", "a/b/../..", "/./"])).to_string();
    }
    let mut s = String::new();
    if rng.chance(3, 4) {
        s.push('/');
        if rng.chance(1, 6) {
            s.push('/');
        }
    } else if rng.chance(1, 3) {
        s.push_str("./");
    }
    for (i, n) in names.iter().enumerate() {
        if rng.chance(1, 8) {
            s.push_str("./");
        }
        if rng.chance(1, 10) {
            s.push_str("tmp/../");
        }
        s.push_str(n);
        if i + 1 < names.len() {
            s.push('/');
            if rng.chance(1, 12) {
                s.push('/');
            }
        }
    }
    if !names.is_empty() && rng.chance(1, 6) {
        s.push('/');
    } else if rng.chance(1, 8) {
        // a final "." component
        if !s.ends_with('/') {
            s.push('/');
        }
        s.push('.');
        if rng.chance(1, 3) {
            s.push('/');
        }
    }
    if s.is_empty() {
        s.push('/');
    }
    if model::normalise(&s) == Some(names) {
        s
    } else {
        path.to_string()
    }
}

#[derive(Clone, Debug)]
pub struct GenCfg {
    pub max_depth: usize,
    pub max_size: u64,
    /// percent of steps aimed at a refusal class
    pub refusal_pct: u64,
    /// percent of paths that are re-spelled / case-varied
    pub respell_pct: u64,
    pub case_variant_pct: u64,
    pub reopen_pct: u64,
    pub metadata_pct: u64,
    pub query_pct: u64,
    pub use_bad_names: bool,
    pub names: &'static [&'static str],
    /// prefer removing over creating once the tree has this many objects
    pub soft_max_objects: usize,
}

impl Default for GenCfg {
    fn default() -> GenCfg {
        GenCfg { max_depth: 4, max_size: 70000, refusal_pct: 25, respell_pct: 10, case_variant_pct: 15, reopen_pct: 3, metadata_pct: 8, query_pct: 15, use_bad_names: true, names: NAMES, soft_max_objects: 40 }
    }
}

pub struct TreeIndex {
    pub storages: Vec<String>,
    pub streams: Vec<String>,
}

pub fn index(sess: &Session) -> TreeIndex {
    let mut storages = Vec::new();
    let mut streams = Vec::new();
    for (p, k) in sess.model.all_paths() {
        if k == Kind::Stream {
            streams.push(p);
        } else {
            storages.push(p);
        }
    }
    TreeIndex { storages, streams }
}

fn child_path(parent: &str, name: &str) -> String {
    if parent == "/" {
        format!("/{name}")
    } else {
        format!("{parent}/{name}")
    }
}

fn depth(path: &str) -> usize {
    path.split('/').filter(|s| !s.is_empty()).count()
}

pub struct Gen {
    pub cfg: GenCfg,
}

impl Gen {
    pub fn new(cfg: GenCfg) -> Gen {
        Gen { cfg }
    }

    fn decorate(&self, rng: &mut Rng, path: String) -> String {
        let mut p = path;
        if rng.below(100) < self.cfg.case_variant_pct {
            if let Some(names) = model::normalise(&p) {
                let v: Vec<String> = names.iter().map(|n| case_variant(rng, n)).collect();
                p = model::join(&v);
            }
        }
        if rng.below(100) < self.cfg.respell_pct {
            p = respell(rng, &p);
        }
        p
    }

    fn new_child(&self, rng: &mut Rng, idx: &TreeIndex, sess: &Session) -> String {
        // parent: prefer shallow
        for _ in 0..8 {
            let parent = rng.pick(&idx.storages).clone();
            if depth(&parent) >= self.cfg.max_depth {
                continue;
            }
            let name = *rng.pick(self.cfg.names);
            let p = child_path(&parent, name);
            if sess.model.get_path(&p).is_none() {
                return p;
            }
        }
        child_path("/", *rng.pick(self.cfg.names))
    }

    fn write_whole(&self, rng: &mut Rng, sess: &Session, path: String, how: OpenHow, size: u64) -> Vec<Step> {
        let slot = sess.free_slot();
        let mut v = vec![Step::HOpen { slot, path, how }];
        if how == OpenHow::Open && rng.chance(1, 2) {
            v.push(Step::HSeek { slot, from: SeekFrom::End(0) });
        }
        if size > 0 || rng.chance(1, 2) {
            if how != OpenHow::Open && rng.chance(1, 8) {
                // a stream that is text from end to end (read back with read_to_string)
                v.push(Step::HWriteTag { slot, len: size as usize, tag: crate::engine::UTF8_TAG });
            } else {
                v.push(Step::HWriteAll { slot, len: size as usize });
            }
        }
        v.push(Step::HClose { slot });
        v
    }

    /// A step aimed at one refusal class.
    fn refusal(&self, rng: &mut Rng, sess: &Session, idx: &TreeIndex) -> Vec<Step> {
        let any_stream = |rng: &mut Rng| idx.streams.get(rng.usize_below(idx.streams.len().max(1))).cloned();
        let any_storage = |rng: &mut Rng| rng.pick(&idx.storages).clone();
        let missing = |rng: &mut Rng| {
            let parent = rng.pick(&idx.storages).clone();
            child_path(&parent, "nope")
        };
        let class = rng.below(19);
        // "refused, obstacle repaired, same call again": what a caller does next after a
        // refusal, and what a cache of a failed lookup would get wrong
        if class >= 16 {
            let slot = sess.free_slot();
            let mk_new = |p: String| vec![Step::HOpen { slot, path: p, how: OpenHow::CreateNew }, Step::HClose { slot }];
            match class {
                16 => {
                    // below a stream: refused; the stream goes; the parent is missing; the
                    // parent becomes a storage; now it works
                    if let Some(st) = any_stream(rng) {
                        if sess.handle_on(&model::normalise(&st).unwrap_or_default()).is_none() {
                            let child = child_path(&st, "x");
                            let mut v = Vec::new();
                            let stream_child = rng.chance(1, 2);
                            let attempt = |v: &mut Vec<Step>| {
                                if stream_child {
                                    v.extend(mk_new(child.clone()));
                                } else {
                                    v.push(Step::Api(Op::CreateStorage(child.clone())));
                                }
                            };
                            attempt(&mut v);
                            v.push(Step::Api(Op::RemoveStream(st.clone())));
                            attempt(&mut v);
                            v.push(Step::Api(Op::CreateStorage(st.clone())));
                            attempt(&mut v);
                            return v;
                        }
                    }
                }
                17 => {
                    // missing parent: refused; the parent is created; now it works; the
                    // parent is removed with everything in it; refused again
                    let parent = missing(rng);
                    let child = child_path(&parent, "x");
                    let mut v = mk_new(child.clone());
                    v.push(Step::Api(Op::CreateStorage(parent.clone())));
                    v.extend(mk_new(child.clone()));
                    v.push(Step::Api(Op::RemoveStorageAll(parent.clone())));
                    v.extend(mk_new(child));
                    return v;
                }
                _ => {
                    // name taken: refused; the holder goes; now it works
                    if let Some(st) = any_stream(rng) {
                        if sess.handle_on(&model::normalise(&st).unwrap_or_default()).is_none() {
                            let mut v = mk_new(st.clone());
                            v.push(Step::Api(Op::RemoveStream(st.clone())));
                            if rng.chance(1, 2) {
                                v.extend(mk_new(st));
                            } else {
                                v.push(Step::Api(Op::CreateStorage(st)));
                            }
                            return v;
                        }
                    }
                }
            }
        }
        let op = match class {
            0 => Op::CreateStorage(child_path(&missing(rng), "x")), // missing parent
            1 => Op::CreateNewStream(child_path(&missing(rng), "x")),
            2 => match any_stream(rng) {
                Some(s) => {
                    if rng.chance(1, 2) {
                        Op::CreateStorage(child_path(&s, "x"))
                    } else {
                        Op::CreateStream(child_path(&s, "y"))
                    }
                }
                None => Op::RemoveStream(missing(rng)),
            },
            3 => match any_stream(rng) {
                Some(s) => rng.pick(&[Op::CreateStorage(s.clone()), Op::CreateNewStream(s.clone()), Op::RemoveStorage(s.clone()), Op::ReadStorage(s.clone()), Op::SetClsid(s.clone(), [7; 16]), Op::CreateStorageAll(child_path(&s, "deep/er"))]).clone(),
                None => Op::RemoveStorage(missing(rng)),
            },
            4 => {
                let s = any_storage(rng);
                rng.pick(&[Op::CreateStorage(s.clone()), Op::CreateStream(s.clone()), Op::CreateNewStream(s.clone()), Op::RemoveStream(s.clone()), Op::OpenStream(s.clone())]).clone()
            }
            5 => {
                // non-empty storage
                let cands: Vec<&String> = idx.storages.iter().filter(|s| s.as_str() != "/" && sess.model.get_path(s).map(|n| !n.children.is_empty()).unwrap_or(false)).collect();
                match cands.get(rng.usize_below(cands.len().max(1))) {
                    Some(s) => Op::RemoveStorage((*s).clone()),
                    None => Op::RemoveStorage("/".into()),
                }
            }
            6 => rng.pick(&[Op::RemoveStorage("/".into()), Op::RemoveStream("/".into()), Op::CreateStorage("/".into()), Op::CreateStream("/".into()), Op::OpenStream("/".into())]).clone(),
            7 => {
                let p = format!("{}/../../x", if rng.chance(1, 2) { "/a" } else { "" });
                rng.pick(&[Op::CreateStorage(p.clone()), Op::Entry(p.clone()), Op::Exists(p.clone()), Op::CreateStream(p.clone()), Op::RemoveStream(p.clone()), Op::SetState(p.clone(), 1), Op::ReadStorage(p.clone()), Op::WalkStorage(p.clone()), Op::IsStorage("..".into())]).clone()
            }
            8 if self.cfg.use_bad_names => {
                let parent = any_storage(rng);
                let p = child_path(&parent, *rng.pick(BAD_NAMES));
                rng.pick(&[Op::CreateStorage(p.clone()), Op::CreateStream(p.clone()), Op::CreateNewStream(p.clone()), Op::CreateStorageAll(p.clone())]).clone()
            }
            9 if self.cfg.use_bad_names => {
                // invalid name after missing intermediates (partial-effect trap)
                let parent = any_storage(rng);
                let p = format!("{}/{}/{}", if parent == "/" { "" } else { &parent }, *rng.pick(self.cfg.names), *rng.pick(BAD_NAMES));
                Op::CreateStorageAll(p)
            }
            10 => {
                let m = missing(rng);
                rng.pick(&[Op::RemoveStream(m.clone()), Op::RemoveStorage(m.clone()), Op::RemoveStorageAll(m.clone()), Op::OpenStream(m.clone()), Op::Entry(m.clone()), Op::ReadStorage(m.clone()), Op::WalkStorage(m.clone()), Op::SetState(m.clone(), 5), Op::SetClsid(m.clone(), [1; 16]), Op::SetModified(m.clone(), 1234567), Op::SetCreated(m.clone(), 99), Op::Touch(m.clone())]).clone()
            }
            11 => {
                // existing name (exact or case variant)
                let all: Vec<&String> = idx.storages.iter().chain(idx.streams.iter()).filter(|p| p.as_str() != "/").collect();
                match all.get(rng.usize_below(all.len().max(1))) {
                    Some(p) => {
                        let names = model::normalise(p).unwrap();
                        let v: Vec<String> = names.iter().map(|n| case_variant(rng, n)).collect();
                        let q = model::join(&v);
                        if rng.chance(1, 2) {
                            Op::CreateStorage(q)
                        } else {
                            Op::CreateNewStream(q)
                        }
                    }
                    None => Op::RemoveStream(missing(rng)),
                }
            }
            12 => match any_stream(rng) {
                Some(s) => Op::CreateStorageAll(child_path(&s, "below")),
                None => Op::RemoveStream(missing(rng)),
            },
            _ => {
                let m = missing(rng);
                Op::CreateStorage(child_path(&m, "y"))
            }
        };
        // ops that return handles go through HOpen so that an unexpected success is tracked
        match op {
            Op::CreateStream(p) => vec![Step::HOpen { slot: sess.free_slot(), path: p, how: OpenHow::Create }, Step::HClose { slot: sess.free_slot() }],
            Op::CreateNewStream(p) => vec![Step::HOpen { slot: sess.free_slot(), path: p, how: OpenHow::CreateNew }, Step::HClose { slot: sess.free_slot() }],
            Op::OpenStream(p) => vec![Step::HOpen { slot: sess.free_slot(), path: p, how: OpenHow::Open }, Step::HClose { slot: sess.free_slot() }],
            other => vec![Step::Api(other)],
        }
    }

    /// Next step(s) of a namespace/content history (C01 family).  Streams with a live
    /// handle are never removed or overwritten.
    pub fn next(&self, rng: &mut Rng, sess: &Session) -> Vec<Step> {
        let steps = self.next_raw(rng, sess);
        // A second handle on (or a removal / re-creation of) a stream that already has a
        // live handle is outside the histories the model describes: a handle caches its
        // stream's length.  A freshly drawn name can coincide with such a stream.
        let collides = steps.iter().any(|st| {
            let path = match st {
                Step::HOpen { path, .. } => Some(path),
                Step::Api(Op::CreateStream(p) | Op::CreateNewStream(p) | Op::RemoveStream(p)) => Some(p),
                _ => None,
            };
            match path.and_then(|p| model::normalise(p)) {
                Some(names) => sess.handle_on(&names).is_some(),
                None => false,
            }
        });
        if collides {
            return vec![Step::Api(Op::Walk)];
        }
        steps
    }

    fn next_raw(&self, rng: &mut Rng, sess: &Session) -> Vec<Step> {
        let idx = index(sess);
        let n_objects = idx.storages.len() + idx.streams.len();
        if rng.below(100) < self.cfg.refusal_pct {
            return self.refusal(rng, sess, &idx);
        }
        if rng.below(100) < self.cfg.reopen_pct && sess.open_slots().is_empty() {
            return vec![Step::Reopen(if rng.chance(1, 2) { Mode::Permissive } else { Mode::Strict })];
        }
        if rng.below(100) < self.cfg.query_pct {
            let all: Vec<&String> = idx.storages.iter().chain(idx.streams.iter()).collect();
            let picked = (*rng.pick(&all)).clone();
            let p = self.decorate(rng, picked);
            let st = rng.pick(&idx.storages).clone();
            let op = match rng.below(10) {
                0 => Op::Exists(p),
                1 => Op::IsStream(p),
                2 => Op::IsStorage(p),
                3 | 4 => Op::Entry(p),
                5 => Op::ReadStorage(self.decorate(rng, st)),
                6 => Op::WalkStorage(p),
                7 => Op::Walk,
                8 => Op::ReadRootStorage,
                _ => Op::RootEntry,
            };
            return vec![Step::Api(op)];
        }
        if rng.below(100) < self.cfg.metadata_pct {
            let all: Vec<&String> = idx.storages.iter().chain(idx.streams.iter()).collect();
            let picked = (*rng.pick(&all)).clone();
            let p = self.decorate(rng, picked);
            let st = rng.pick(&idx.storages).clone();
            let op = match rng.below(6) {
                5 => Op::Touch(p),
                0 => {
                    let mut c = [0u8; 16];
                    for b in c.iter_mut() {
                        *b = rng.next_u32() as u8;
                    }
                    Op::SetClsid(self.decorate(rng, st), c)
                }
                1 => Op::SetState(p, if rng.chance(1, 3) { *rng.pick(&[0xFFFF_FFFFu32, 0x8000_0000, 1, 0x7FFF_FFFF, 0xFFFF_0000]) } else { rng.next_u32() }),
                2 => Op::SetCreated(p, pick_time_ns(rng)),
                3 => Op::SetModified(p, pick_time_ns(rng)),
                _ => Op::SetState(p, 0),
            };
            return vec![Step::Api(op)];
        }
        let want_remove = n_objects > self.cfg.soft_max_objects || (n_objects > 6 && rng.chance(35, 100));
        if want_remove {
            match rng.below(10) {
                0..=5 if !idx.streams.is_empty() => {
                    for _ in 0..6 {
                        let s = rng.pick(&idx.streams).clone();
                        let names = model::normalise(&s).unwrap();
                        if sess.handle_on(&names).is_none() {
                            return vec![Step::Api(Op::RemoveStream(self.decorate(rng, s)))];
                        }
                    }
                }
                6..=7 => {
                    let empties: Vec<&String> = idx.storages.iter().filter(|s| s.as_str() != "/" && sess.model.get_path(s).map(|n| n.children.is_empty()).unwrap_or(false)).collect();
                    if !empties.is_empty() {
                        let e = (*rng.pick(&empties)).clone();
                        return vec![Step::Api(Op::RemoveStorage(self.decorate(rng, e)))];
                    }
                }
                _ => {
                    let cands: Vec<&String> = idx.storages.iter().filter(|s| s.as_str() != "/" || n_objects > self.cfg.soft_max_objects).collect();
                    if !cands.is_empty() {
                        let s = (*rng.pick(&cands)).clone();
                        let names = model::normalise(&s).unwrap();
                        if !sess.handle_under(&names) {
                            return vec![Step::Api(Op::RemoveStorageAll(self.decorate(rng, s)))];
                        }
                    }
                }
            }
        }
        match rng.below(10) {
            0..=1 => vec![Step::Api(Op::CreateStorage(self.new_child(rng, &idx, sess)))],
            2 => {
                let base = self.new_child(rng, &idx, sess);
                let extra = if rng.chance(1, 2) { format!("{}/{}", base, *rng.pick(self.cfg.names)) } else { base };
                vec![Step::Api(Op::CreateStorageAll(self.decorate(rng, extra)))]
            }
            3..=6 => {
                let p = self.new_child(rng, &idx, sess);
                let how = if rng.chance(1, 2) { OpenHow::Create } else { OpenHow::CreateNew };
                let size = pick_size(rng, self.cfg.max_size);
                self.write_whole(rng, sess, p, how, size)
            }
            7 if !idx.streams.is_empty() => {
                // overwrite via create_stream (truncates) or open+write
                let s = rng.pick(&idx.streams).clone();
                let names = model::normalise(&s).unwrap();
                if sess.handle_on(&names).is_some() {
                    return vec![Step::Api(Op::Walk)];
                }
                let size = pick_size(rng, self.cfg.max_size);
                let how = if rng.chance(1, 2) { OpenHow::Create } else { OpenHow::Open };
                let p = self.decorate(rng, s);
                self.write_whole(rng, sess, p, how, size)
            }
            8 if !idx.streams.is_empty() => {
                // resize through a handle
                let s = rng.pick(&idx.streams).clone();
                let names = model::normalise(&s).unwrap();
                if sess.handle_on(&names).is_some() {
                    return vec![Step::Api(Op::Walk)];
                }
                let slot = sess.free_slot();
                let p = self.decorate(rng, s);
                let n = pick_size(rng, self.cfg.max_size);
                vec![Step::HOpen { slot, path: p, how: OpenHow::Open }, Step::HSetLen { slot, n }, Step::HClose { slot }]
            }
            9 if !idx.streams.is_empty() => {
                let s = rng.pick(&idx.streams).clone();
                let names = model::normalise(&s).unwrap();
                if sess.handle_on(&names).is_some() {
                    return vec![Step::Api(Op::Walk)];
                }
                let slot = sess.free_slot();
                vec![Step::HOpen { slot, path: self.decorate(rng, s), how: OpenHow::Open }, Step::HReadToEnd { slot }, Step::HClose { slot }]
            }
            _ => {
                let p = self.new_child(rng, &idx, sess);
                let size = pick_size(rng, 600);
                self.write_whole(rng, sess, p, OpenHow::Create, size)
            }
        }
    }
}
