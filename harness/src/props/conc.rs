//! C14 - shared read access concurrent with stream I/O never deadlocks.
//!
//! Three cooperating monitors (DESIGN.md section 2, C14):
//!  * M1 (role "discipline"): single-threaded drive through every read-only method and
//!    iterator shape and every handle operation with the lock observer tracking, per
//!    thread, the guards already held on each lock; a `Request` while the same thread
//!    holds a guard on the same lock is a re-entrant acquisition.
//!  * M2 (roles "forced" and "stress"): real threads.  "forced" parks a thread that is
//!    about to re-acquire until a writer's request is outstanding - the schedule the
//!    property's quantifier names - so a hazard becomes an actual deadlock, certified by
//!    the wait-for state (every live worker recorded as requested-not-granted).
//!    "stress" runs free with random micro-delays at Request/Released and checks every
//!    reader observation against the writer's log.
//!  * M3: Miri (driver side, `c14_miri` binary).

use crate::backend::MonFile;
use crate::common::Ctx;
use crate::engine::{OpenHow, Session, Step};
use crate::model::Op;
use crate::report::{Report, J};
use crate::rng::Rng;
use cfb::verif::{set_lock_observer, LockEvent, LockKind, LockPhase};
use cfb::{CompoundFile, Version};
use std::cell::RefCell;
use std::collections::{BTreeMap, BTreeSet};
use std::io::{BufRead, Read, Seek, SeekFrom, Write};
use std::sync::atomic::{AtomicBool, AtomicU64, AtomicUsize, Ordering};
use std::sync::{Mutex, OnceLock};
use std::time::{Duration, Instant};

#[derive(Clone, Debug)]
struct Held {
    lock: usize,
    kind: LockKind,
    site: String,
}

thread_local! {
    static HELD: RefCell<Vec<Held>> = const { RefCell::new(Vec::new()) };
    static WORKER_ID: RefCell<Option<usize>> = const { RefCell::new(None) };
    static DELAY_RNG: RefCell<u64> = const { RefCell::new(0x9E3779B97F4A7C15) };
}

#[derive(Clone, Debug)]
struct Waiting {
    kind: LockKind,
    site: String,
    since: Instant,
    holding: Vec<String>,
}

#[derive(Default)]
struct Global {
    /// (held site -> requested site, kinds) of re-entrant acquisitions
    reentrant: BTreeMap<String, u64>,
    sites: BTreeSet<String>,
    pairs: BTreeSet<String>,
    events: u64,
    max_depth: usize,
    /// worker id -> waiting state
    waiting: BTreeMap<usize, Waiting>,
    finished: BTreeSet<usize>,
    workers: BTreeSet<usize>,
    grant_order_hash: u64,
    grants: u64,
}

static GLOBAL: OnceLock<Mutex<Global>> = OnceLock::new();
static MODE: AtomicUsize = AtomicUsize::new(0); // 0 passive, 1 forced, 2 stress
static WRITERS_WAITING: AtomicUsize = AtomicUsize::new(0);
static PARKED: AtomicUsize = AtomicUsize::new(0);
static TS: AtomicU64 = AtomicU64::new(1);
static STOP: AtomicBool = AtomicBool::new(false);

fn global() -> std::sync::MutexGuard<'static, Global> {
    match GLOBAL.get_or_init(|| Mutex::new(Global::default())).lock() {
        Ok(g) => g,
        Err(p) => p.into_inner(),
    }
}

fn site_str(e: &LockEvent) -> String {
    let f = e.site.file();
    let f = f.rsplit("src/").next().unwrap_or(f);
    // enclosing function makes the site stable under line shifts
    format!("{}:{}", f, crate::guard::enclosing_fn_pub(e.site.file(), e.site.line()))
}

fn observer(e: &LockEvent) {
    let site = site_str(e);
    let me = WORKER_ID.with(|w| *w.borrow());
    match e.phase {
        LockPhase::Request => {
            let held: Vec<Held> = HELD.with(|h| h.borrow().iter().filter(|x| x.lock == e.lock_id).cloned().collect());
            {
                let mut g = global();
                g.events += 1;
                g.sites.insert(format!("{:?}@{}", e.kind, site));
                for h in &held {
                    let key = format!("re-entrant {:?} at {} while holding {:?} guard from {}", e.kind, site, h.kind, h.site);
                    *g.reentrant.entry(key).or_insert(0) += 1;
                    g.pairs.insert(format!("{} -> {}", h.site, site));
                }
                if let Some(id) = me {
                    g.waiting.insert(id, Waiting { kind: e.kind, site: site.clone(), since: Instant::now(), holding: HELD.with(|h| h.borrow().iter().map(|x| format!("{:?}@{}", x.kind, x.site)).collect()) });
                }
            }
            if e.kind == LockKind::Write {
                WRITERS_WAITING.fetch_add(1, Ordering::SeqCst);
            }
            // a request that is certain to block forever (holding the write guard, or asking
            // for the write guard while holding a read guard) is reported by unwinding out of
            // the lock call instead of blocking in it
            if held.iter().any(|h| h.kind == LockKind::Write || e.kind == LockKind::Write) && MODE.load(Ordering::Relaxed) == 0 {
                if let Some(id) = me {
                    global().waiting.remove(&id);
                }
                panic!("re-entrant {:?} at {} while holding {:?} guard from {}: certain self-deadlock", e.kind, site, held[0].kind, held[0].site);
            }
            match MODE.load(Ordering::Relaxed) {
                1 => {
                    // forced schedule: a thread about to re-acquire waits until a writer's
                    // request is outstanding (between two critical sections: a real
                    // suspension point of a preemptively scheduled thread)
                    if !held.is_empty() && e.kind == LockKind::Read {
                        PARKED.fetch_add(1, Ordering::SeqCst);
                        let t0 = Instant::now();
                        while WRITERS_WAITING.load(Ordering::SeqCst) == 0 && t0.elapsed() < Duration::from_millis(1500) && !STOP.load(Ordering::Relaxed) {
                            std::thread::sleep(Duration::from_micros(200));
                        }
                        // give the writer time to actually enqueue in the kernel
                        std::thread::sleep(Duration::from_millis(2));
                        PARKED.fetch_sub(1, Ordering::SeqCst);
                    }
                }
                2 => random_delay(),
                _ => {}
            }
        }
        LockPhase::Granted => {
            if e.kind == LockKind::Write {
                WRITERS_WAITING.fetch_sub(1, Ordering::SeqCst);
            }
            HELD.with(|h| h.borrow_mut().push(Held { lock: e.lock_id, kind: e.kind, site: site.clone() }));
            let depth = HELD.with(|h| h.borrow().iter().filter(|x| x.lock == e.lock_id).count());
            let mut g = global();
            g.max_depth = g.max_depth.max(depth);
            if let Some(id) = me {
                g.waiting.remove(&id);
                if g.grants < 64 {
                    g.grant_order_hash = crate::rng::fnv64_add(g.grant_order_hash ^ 0x1234, &[id as u8, e.kind as u8]);
                }
                g.grants += 1;
            }
        }
        LockPhase::Released => {
            HELD.with(|h| {
                let mut h = h.borrow_mut();
                if let Some(p) = h.iter().rposition(|x| x.lock == e.lock_id && x.kind == e.kind) {
                    h.remove(p);
                }
            });
            if MODE.load(Ordering::Relaxed) == 2 {
                random_delay();
            }
        }
    }
}

fn random_delay() {
    let r = DELAY_RNG.with(|s| {
        let mut x = *s.borrow();
        x ^= x << 13;
        x ^= x >> 7;
        x ^= x << 17;
        *s.borrow_mut() = x;
        x
    });
    match r % 8 {
        0 => std::thread::yield_now(),
        1 => std::thread::sleep(Duration::from_micros(r >> 8 & 31)),
        2 => {
            for _ in 0..(r >> 8 & 255) {
                std::hint::spin_loop();
            }
        }
        _ => {}
    }
}

fn install() {
    let _ = set_lock_observer(Box::new(observer));
}

fn build_file(version: Version, rng: &mut Rng) -> Option<(Vec<u8>, Vec<String>, Vec<String>)> {
    // trees with left / right / child links in several storages
    let mut sess = Session::create(version, None).ok()?;
    let names = ["h", "d", "l", "b", "f", "j", "n", "a", "c"];
    let mut steps = vec![Step::Api(Op::CreateStorageAll("/st/in".into()))];
    // nested non-ASCII names (lookups of such paths take the slow comparison path)
    for (p, len) in [("/st/\u{3b1}lpha", 10usize), ("/st/in/\u{3b2}eta", 20), ("/st/in/\u{3b3}", 30), ("/st/\u{65e5}\u{672c}", 40)] {
        steps.push(Step::HOpen { slot: 0, path: p.into(), how: OpenHow::Create });
        steps.push(Step::HWriteAll { slot: 0, len });
        steps.push(Step::HClose { slot: 0 });
    }
    for (i, n) in names.iter().enumerate() {
        let p = if i % 3 == 2 { format!("/st/{n}") } else { format!("/{n}") };
        if i % 4 == 3 {
            steps.push(Step::Api(Op::CreateStorage(p)));
        } else {
            steps.push(Step::HOpen { slot: 0, path: p, how: OpenHow::Create });
            steps.push(Step::HWriteAll { slot: 0, len: [10usize, 700, 5000][rng.usize_below(3)] });
            steps.push(Step::HClose { slot: 0 });
        }
    }
    for st in &steps {
        if sess.run(st).is_some() {
            return None;
        }
    }
    let streams: Vec<String> = sess.model.all_paths().into_iter().filter(|(_, k)| *k == crate::model::Kind::Stream).map(|(p, _)| p).collect();
    let all: Vec<String> = sess.model.all_paths().into_iter().map(|(p, _)| p).collect();
    Some((sess.shared.bytes(), streams, all))
}

fn read_only_call(cf: &CompoundFile<MonFile>, k: u64, all: &[String]) -> (String, Option<u64>) {
    let (n, v, _) = read_only_call_checked(cf, k, all, None);
    (n, v)
}

/// Facts that no stream operation changes: which paths exist, their names and kinds.
pub struct Facts {
    streams: BTreeSet<String>,
    n_all: u64,
    n_root_children: u64,
}

impl Facts {
    fn of(all: &[String], streams: &[String]) -> Facts {
        Facts { streams: streams.iter().cloned().collect(), n_all: all.len() as u64, n_root_children: all.iter().filter(|p| p.as_str() != "/" && p.matches('/').count() == 1).count() as u64 }
    }
}

/// Like `read_only_call`; with `facts` the result is also compared with what every state
/// of the file says (third component = description of a result no state ever had).
fn read_only_call_checked(cf: &CompoundFile<MonFile>, k: u64, all: &[String], facts: Option<&Facts>) -> (String, Option<u64>, Option<String>) {
    let p = &all[(k as usize / 9) % all.len()];
    let is_stream = facts.map(|f| f.streams.contains(p));
    let last = p.rsplit('/').next().unwrap_or("");
    let mut bad: Option<String> = None;
    let mut expect = |what: &str, got: String, want: String| {
        if got != want && bad.is_none() {
            bad = Some(format!("{what}({p:?}) = {got}, every state of the file says {want}"));
        }
    };
    let r = match k % 9 {
        0 => {
            let e = cf.entry(p);
            if let (Some(st), Ok(e)) = (is_stream, &e) {
                if p != "/" {
                    expect("entry().name", format!("{:?}", e.name()), format!("{:?}", last));
                }
                expect("entry().is_stream", e.is_stream().to_string(), st.to_string());
            } else if is_stream.is_some() {
                expect("entry", "Err".into(), "Ok".into());
            }
            ("entry".into(), e.ok().map(|e| e.len()))
        }
        1 => {
            let v = cf.exists(p);
            if is_stream.is_some() {
                expect("exists", v.to_string(), "true".into());
            }
            ("exists".into(), Some(v as u64))
        }
        2 => {
            let v = cf.is_stream(p);
            if let Some(st) = is_stream {
                expect("is_stream", v.to_string(), st.to_string());
            }
            ("is_stream".into(), Some(v as u64))
        }
        3 => {
            let v = cf.is_storage(p);
            if let Some(st) = is_stream {
                expect("is_storage", v.to_string(), (!st).to_string());
            }
            ("is_storage".into(), Some(v as u64))
        }
        4 => ("root_entry".into(), Some(cf.root_entry().is_root() as u64)),
        5 => ("read_storage".into(), cf.read_storage(if cf.is_storage(p) { p.as_str() } else { "/" }).ok().map(|it| it.count() as u64)),
        6 => {
            let n = cf.walk().count() as u64;
            if let Some(f) = facts {
                expect("walk().count", n.to_string(), f.n_all.to_string());
            }
            ("walk".into(), Some(n))
        }
        7 => {
            let n = cf.read_root_storage().count() as u64;
            if let Some(f) = facts {
                expect("read_root_storage().count", n.to_string(), f.n_root_children.to_string());
            }
            ("read_root_storage".into(), Some(n))
        }
        _ => {
            let w = cf.walk_storage(p).ok().map(|it| it.map(|e| e.path().to_string_lossy().into_owned()).collect::<Vec<_>>());
            if let (Some(_), Some(list)) = (facts, &w) {
                // pre-order walk of the subtree at p: first itself, then only paths below it
                let base = if p == "/" { String::new() } else { p.clone() };
                if list.first().map(|x| x != p).unwrap_or(true) || list.iter().skip(1).any(|x| !x.starts_with(&format!("{base}/"))) {
                    expect("walk_storage", format!("{:?}", list.iter().take(4).collect::<Vec<_>>()), format!("{p:?} followed by paths below it"));
                }
            }
            ("walk_storage".into(), w.map(|l| l.len() as u64))
        }
    };
    (r.0, r.1, bad)
}

// ------------------------------------------------------------------ M1

fn run_discipline(ctx: &Ctx, rep: &mut Report) {
    MODE.store(0, Ordering::Relaxed);
    install();
    for version in [Version::V3, Version::V4] {
        let mut rng = Rng::derive(ctx.seed, &[14, 1, version as u64]);
        let (bytes, streams, all) = match build_file(version, &mut rng) {
            Some(x) => x,
            None => {
                rep.inconclusive("C14: could not build the shared file".into());
                return;
            }
        };
        let (file, _sh) = MonFile::new(bytes);
        let mut cf = match CompoundFile::open(file) {
            Ok(c) => c,
            Err(e) => {
                rep.inconclusive(format!("C14: open failed: {e}"));
                return;
            }
        };
        for k in 0..(9 * all.len() as u64) {
            let (name, _) = read_only_call(&cf, k, &all);
            rep.count(&format!("m1.call.{name}"));
        }
        let _ = format!("{:?}", cf.version());
        // formatting the compound file itself, and the internal-iteration adapters with
        // look-ups on the same file inside the closure (the closure must not run under
        // the lock)
        let _ = format!("{:?}", cf);
        cf.walk().for_each(|e| {
            let _ = cf.exists(e.path());
            let _ = cf.entry(e.path()).map(|x| x.len());
        });
        let _ = cf.read_root_storage().filter(|e| cf.is_stream(e.path())).count();
        let _ = cf.walk().fold(0u64, |acc, e| acc + cf.entry(e.path()).map(|x| x.len()).unwrap_or(0));
        let _ = cf.walk().map(|e| cf.is_storage(e.path())).last();
        rep.count("m1.closure_scripts");
        // every handle operation
        for p in &streams {
            if let Ok(mut s) = cf.open_stream(p) {
                let mut buf = [0u8; 100];
                let _ = s.read(&mut buf);
                let _ = s.seek(SeekFrom::End(0));
                let _ = s.write(&[1, 2, 3]);
                let _ = s.flush();
                let _ = s.set_len(50);
                let _ = s.seek(SeekFrom::Start(0));
                let mut v = Vec::new();
                let _ = s.read_to_end(&mut v);
                let _ = s.len();
                rep.count("m1.handle_scripts");
            }
        }
        // two handles on one stream: the stream is shortened through one of them, then the
        // other (stale) handle refills at or beyond the new end, writes and resizes
        if let Some(p) = streams.first() {
            if let (Ok(mut h1), Ok(mut h2)) = (cf.open_stream(p), cf.open_stream(p)) {
                let r = crate::guard::catch(|| {
                    let mut buf = [0u8; 300];
                    let l = h1.len();
                    let _ = h2.set_len(l / 3);
                    let _ = h2.flush();
                    let _ = h1.seek(SeekFrom::Start(l / 2));
                    let _ = h1.read(&mut buf);
                    let _ = h1.fill_buf().map(|b| b.len());
                    let _ = h1.seek(SeekFrom::Start(0));
                    let _ = h1.read(&mut buf);
                    let _ = h2.set_len(0);
                    let _ = h1.seek(SeekFrom::Start(10));
                    let _ = h1.read(&mut buf);
                    let mut v = Vec::new();
                    let _ = h1.read_to_end(&mut v);
                    let _ = h1.write(&[9u8; 40]);
                    let _ = h1.flush();
                    let _ = h1.set_len(l + 100);
                    let _ = h2.seek(SeekFrom::End(0));
                    let _ = h2.read(&mut buf);
                });
                rep.count("m1.two_handle_scripts");
                if let Err(pinfo) = r {
                    // the observer's own verdict, or a panic of the crate ("none panics")
                    let sig = if pinfo.message.contains("certain self-deadlock") { format!("lock discipline | {}", crate::guard::strip_numbers(&pinfo.message)) } else { pinfo.signature() };
                    rep.finding(sig, format!("two handles on one stream, one of them stale: panic at {}:{}: {}", pinfo.file, pinfo.line, pinfo.message), ctx.witness(0, vec![("monitor", J::s("M1 single-threaded drive, two handles on one stream"))]));
                    std::mem::forget(h1);
                    std::mem::forget(h2);
                    std::mem::forget(cf);
                    rep.evaluations += 1;
                    continue;
                }
            }
        }
        // the same handle operations on their *error* paths: every underlying call fails
        let mut poisoned = false;
        for (k, p) in streams.iter().cycle().take(10).enumerate() {
            // a fresh (clean) handle per script, so that each operation reaches its own I/O
            // instead of failing in the write-back of an earlier one
            if let Ok(mut s) = cf.open_stream(p) {
                _sh.arm(vec![crate::backend::Fault { kinds: crate::backend::K_READ | crate::backend::K_WRITE | crate::backend::K_SEEK | crate::backend::K_FLUSH, k: (k as u64 / 5) * 3, err: std::io::ErrorKind::Other, sticky: true, partial: false }]);
                let r = crate::guard::catch(|| {
                    let mut buf = [0u8; 100];
                    match k % 5 {
                        0 => {
                            let _ = s.set_len(5000);
                        }
                        1 => {
                            let _ = s.set_len(3);
                        }
                        2 => {
                            let _ = s.read(&mut buf);
                            let _ = s.seek(SeekFrom::End(0));
                        }
                        3 => {
                            let _ = s.write(&[1, 2, 3]);
                            let _ = s.flush();
                            let _ = s.flush();
                        }
                        _ => {
                            let _ = s.write(&[7u8; 2000]);
                            let _ = s.seek(SeekFrom::Start(0));
                            let _ = s.read(&mut buf);
                            let _ = s.set_len(0);
                        }
                    }
                });
                _sh.disarm();
                std::mem::forget(s); // its Drop would write back into the failing store
                rep.count("m1.error_path_scripts");
                if let Err(pinfo) = r {
                    let sig = if pinfo.message.contains("certain self-deadlock") { format!("lock discipline | {}", crate::guard::strip_numbers(&pinfo.message)) } else { pinfo.signature() };
                    rep.finding(sig, format!("on an error path (underlying calls failing): panic at {}:{}: {}", pinfo.file, pinfo.line, pinfo.message), ctx.witness(0, vec![("monitor", J::s("M1 single-threaded drive, error paths"))]));
                    // the guard was held when the observer unwound: the lock is poisoned now
                    poisoned = true;
                    break;
                }
            }
        }
        if poisoned {
            std::mem::forget(cf);
            rep.evaluations += 1;
            continue;
        }
        // iterators interleaved: two live iterators, partially consumed
        let mut a = cf.walk();
        let mut b = cf.read_root_storage();
        for _ in 0..3 {
            let _ = a.next();
            let _ = b.next();
        }
        drop(a);
        drop(b);
        rep.evaluations += 1;
    }
    let g = global();
    rep.add("m1.lock_events", g.events);
    rep.max("m1.max_hold_depth", g.max_depth as u64);
    for s in &g.sites {
        rep.set_insert("m1.acquisition_sites", s.clone());
    }
    rep.add("m1.distinct_acquisition_sites", g.sites.len() as u64);
    for p in &g.pairs {
        rep.set_insert("m1.held_to_requested_pairs", p.clone());
    }
    for (sig, n) in &g.reentrant {
        rep.finding(sig.clone(), format!("{sig}: seen {n}x in a single-threaded drive through the read-only methods; with std's writer-preferring RwLock this deadlocks in every schedule where a writer queues in between"), ctx.witness(0, vec![("monitor", J::s("M1 lock-discipline (instrumented lock)"))]));
    }
    for s in g.sites.iter() {
        rep.nontrivial(crate::rng::fnv64(s.as_bytes()));
    }
    rep.sample(J::obj(vec![
        ("monitor", J::s("M1 lock-discipline: single-threaded drive, per-thread hold depth at every acquisition")),
        ("acquisition_sites", J::Arr(g.sites.iter().map(|s| J::s(s.clone())).collect())),
        ("lock_events", J::Int(g.events as i128)),
        ("max_hold_depth", J::Int(g.max_depth as i128)),
    ]));
}

// ------------------------------------------------------------------ M2

struct ReaderObs {
    tb: u64,
    te: u64,
    len: u64,
}

fn run_threads(ctx: &Ctx, rep: &mut Report, forced: bool, round: u64) -> bool {
    let mut rng = Rng::derive(ctx.seed, &[14, 2, ctx.shard, round]);
    let version = if rng.chance(1, 2) { Version::V3 } else { Version::V4 };
    let (bytes, streams, all) = match build_file(version, &mut rng) {
        Some(x) => x,
        None => return true,
    };
    let (file, _sh) = MonFile::new(bytes);
    let mut cf = match CompoundFile::open(file) {
        Ok(c) => c,
        Err(_) => return true,
    };
    let target = streams[rng.usize_below(streams.len())].clone();
    let mut stream = match cf.open_stream(&target) {
        Ok(s) => s,
        Err(_) => return true,
    };
    // every third stress round is a "spin" round: four readers hammer lookups of the nested
    // non-ASCII paths without the random delays (readers are then inside the shared lock at
    // the same time, which the delays at the lock events mostly prevent)
    let spin = !forced && round % 3 == 2;
    if spin {
        MODE.store(3, Ordering::Relaxed);
    }
    let nested: Vec<usize> = all.iter().enumerate().filter(|(_, p)| !p.is_ascii() && p.matches('/').count() >= 2).map(|(i, _)| i).collect();
    let nested_ref = &nested;
    let n_readers = if forced { 2 } else if spin { 4 } else { rng.range(1, 8) as usize };
    let reader_calls = if forced { 40 } else if spin { 6_000 } else { rng.range(50, 400) };
    let writer_ops = if forced { 60 } else { rng.range(30, 200) };
    {
        let mut g = global();
        g.waiting.clear();
        g.finished.clear();
        g.workers.clear();
        for id in 0..=n_readers {
            g.workers.insert(id);
        }
    }
    STOP.store(false, Ordering::SeqCst);
    // the writer's log: (ts_begin, ts_end, directory-entry length after the op)
    let mut wlog: Vec<(u64, u64, u64)> = vec![(0, 0, cf.entry(&target).map(|e| e.len()).unwrap_or(0))];
    let observations: Mutex<Vec<ReaderObs>> = Mutex::new(Vec::new());
    let deadlock: Mutex<Option<String>> = Mutex::new(None);
    let panicked = AtomicBool::new(false);
    // handles on other streams, opened now (open_stream needs &mut) and written to and
    // dropped by the writer while the readers run: Drop writes the buffer back
    let mut spare: Vec<(String, u64, cfb::Stream<MonFile>)> = Vec::new();
    if !forced {
        for p in streams.iter().filter(|p| **p != target).take(4) {
            if let Ok(h) = cf.open_stream(p) {
                let l = h.len();
                spare.push((p.clone(), l, h));
            }
        }
    }
    let mut dropped_dirty: Vec<(String, u64)> = Vec::new();
    let facts = Facts::of(&all, &streams);
    let facts_ref = &facts;
    let static_violations: Mutex<Vec<String>> = Mutex::new(Vec::new());
    let cf_ref = &cf;
    let all_ref = &all;
    let target_ref = &target;
    let done_readers = AtomicUsize::new(0);
    let writer_done = AtomicBool::new(false);
    std::thread::scope(|scope| {
        for r in 0..n_readers {
            let observations = &observations;
            let static_violations = &static_violations;
            let panicked = &panicked;
            let done_readers = &done_readers;
            let seed = rng.next_u64();
            scope.spawn(move || {
                WORKER_ID.with(|w| *w.borrow_mut() = Some(r + 1));
                DELAY_RNG.with(|s| *s.borrow_mut() = seed | 1);
                let res = std::panic::catch_unwind(std::panic::AssertUnwindSafe(|| {
                    let mut local = Vec::new();
                    let mut k = seed % 97;
                    for _ in 0..reader_calls {
                        if STOP.load(Ordering::Relaxed) {
                            break;
                        }
                        k = k.wrapping_mul(6364136223846793005).wrapping_add(1442695040888963407);
                        if spin && !nested_ref.is_empty() {
                            // entry / is_stream / is_storage / exists on one of the nested paths
                            let idx = nested_ref[(k >> 20) as usize % nested_ref.len()] as u64;
                            let sel = [0u64, 1, 2, 3][(k >> 12) as usize % 4];
                            let (_, _, bad) = read_only_call_checked(cf_ref, idx * 9 + sel, all_ref, Some(facts_ref));
                            if let Some(b) = bad {
                                static_violations.lock().unwrap().push(b);
                                break;
                            }
                            continue;
                        }
                        if k % 3 == 0 {
                            let tb = TS.fetch_add(1, Ordering::SeqCst);
                            let l = cf_ref.entry(target_ref).map(|e| e.len()).unwrap_or(u64::MAX);
                            let te = TS.fetch_add(1, Ordering::SeqCst);
                            local.push(ReaderObs { tb, te, len: l });
                        } else {
                            let (_, _, bad) = read_only_call_checked(cf_ref, k >> 8, all_ref, Some(facts_ref));
                            if let Some(b) = bad {
                                static_violations.lock().unwrap().push(b);
                            }
                        }
                    }
                    observations.lock().unwrap().extend(local);
                }));
                if res.is_err() {
                    panicked.store(true, Ordering::SeqCst);
                }
                global().finished.insert(r + 1);
                done_readers.fetch_add(1, Ordering::SeqCst);
            });
        }
        // watchdog: a state in which every live worker is requested-not-granted for > 2 s
        let deadlock_ref = &deadlock;
        let writer_done_ref = &writer_done;
        let done_readers_ref = &done_readers;
        scope.spawn(move || loop {
            std::thread::sleep(Duration::from_millis(100));
            if writer_done_ref.load(Ordering::SeqCst) && done_readers_ref.load(Ordering::SeqCst) == n_readers {
                break;
            }
            let g = global();
            let live: Vec<usize> = g.workers.iter().filter(|w| !g.finished.contains(w)).cloned().collect();
            if !live.is_empty() && live.iter().all(|w| g.waiting.get(w).map(|x| x.since.elapsed() > Duration::from_secs(2)).unwrap_or(false)) {
                let desc: Vec<String> = live.iter().map(|w| {
                    let x = &g.waiting[w];
                    format!("thread {} ({}) waits for {:?} at {} while holding {:?}", w, if *w == 0 { "writer" } else { "reader" }, x.kind, x.site, x.holding)
                }).collect();
                let d = desc.join("; ");
                *deadlock_ref.lock().unwrap() = Some(d.clone());
                drop(g);
                // every worker, including the writer (the main thread), is blocked for good:
                // nobody can be joined, so the report is written from here
                let mut r2 = Report::new("C14");
                r2.evaluations = 1;
                r2.count(if forced { "m2.forced_rounds" } else { "m2.stress_rounds" });
                r2.finding(
                    format!("deadlock | {}", deadlock_signature(&d)),
                    format!("{} schedule, {} readers: every live thread is recorded by the lock hook as requested-not-granted for > 2 s: {}", if forced { "forced (a reader was parked between its two acquisitions until the writer's request was outstanding)" } else { "free-running stress" }, n_readers, d),
                    ctx.witness(round, vec![("monitor", J::s(if forced { "M2 forced schedule" } else { "M2 stress" })), ("wait_for", J::s(d.clone()))]),
                );
                r2.nontrivial(1);
                r2.nontrivial(2);
                crate::common::finish(ctx, &r2);
                std::process::exit(0);
            }
        });
        // the writer is this thread (stream handles are !Send)
        WORKER_ID.with(|w| *w.borrow_mut() = Some(0));
        let mut len_now = stream.len();
        for op in 0..writer_ops {
            if deadlock.lock().unwrap().is_some() {
                break;
            }
            if forced {
                // let a reader reach its parking point first
                let t0 = Instant::now();
                while PARKED.load(Ordering::SeqCst) == 0 && done_readers.load(Ordering::SeqCst) < n_readers && t0.elapsed() < Duration::from_millis(50) {
                    std::thread::sleep(Duration::from_micros(100));
                }
            }
            if !forced && op % 9 == 5 {
                // unflushed bytes in a handle that is dropped while readers hold the lock
                if let Some((p, l, mut h)) = spare.pop() {
                    let add = 100 + op % 50;
                    if h.seek(SeekFrom::End(0)).is_ok() && h.write_all(&vec![5u8; add as usize]).is_ok() {
                        drop(h);
                        dropped_dirty.push((p, l + add));
                    }
                }
            }
            let tb = TS.fetch_add(1, Ordering::SeqCst);
            let r: std::io::Result<()> = (|| {
                match op % 5 {
                    0 | 1 => {
                        stream.seek(SeekFrom::End(0))?;
                        let add = if op % 7 == 0 { 5000 + (op as usize * 911) % 60000 } else { 1 + (op as usize * 37) % 900 };
                        stream.write_all(&vec![7u8; add])?;
                        len_now += add as u64;
                    }
                    2 => stream.flush()?,
                    3 => {
                        // mostly small steps; twice per stress round one extension of several
                        // MiB (a resize that is long enough for readers to run into it)
                        len_now += if !forced && (op == 13 || op == 38) { 4_300_000 + (op * 1_000_003) % 5_000_000 } else { 1 + op % 5 };
                        stream.set_len(len_now)?;
                    }
                    _ => {
                        stream.seek(SeekFrom::Start(0))?;
                        let mut b = [0u8; 64];
                        let _ = stream.read(&mut b)?;
                    }
                }
                Ok(())
            })();
            let te = TS.fetch_add(1, Ordering::SeqCst);
            if r.is_err() {
                break;
            }
            // what a reader can see after this whole operation: the directory entry's length
            // (read by this thread through the shared reference, with the same lock)
            if deadlock.lock().unwrap().is_none() {
                let d = cf_ref.entry(target_ref).map(|e| e.len()).unwrap_or(u64::MAX);
                wlog.push((tb, te, d));
            }
        }
        WORKER_ID.with(|w| *w.borrow_mut() = None);
        global().finished.insert(0);
        writer_done.store(true, Ordering::SeqCst);
    });
    for (p, want) in &dropped_dirty {
        let got = cf.entry(p).map(|e| e.len()).unwrap_or(u64::MAX);
        if got != *want {
            rep.finding("result | bytes written through a handle that was then dropped are missing".to_string(), format!("{p}: the writer appended to the stream and dropped the handle while readers were running; entry().len() is {got}, expected {want}"), ctx.witness(round, vec![("monitor", J::s("M2 stress"))]));
            break;
        }
        rep.count("m2.dirty_handle_drops_checked");
    }
    let sv = static_violations.into_inner().unwrap();
    if let Some(b) = sv.first() {
        rep.finding("result | a read-only call returned what no state of the file ever said".to_string(), format!("{b} ({} such results in this round)", sv.len()), ctx.witness(round, vec![("monitor", J::s(if forced { "M2 forced schedule" } else { "M2 stress" }))]));
    }
    if panicked.load(Ordering::SeqCst) {
        rep.finding("panic | a reader thread panicked".to_string(), "a reader thread panicked during the stress run".into(), ctx.witness(round, vec![]));
    }
    // offline result check
    let obs = observations.into_inner().unwrap();
    for o in &obs {
        let lo = wlog.iter().rposition(|w| w.1 < o.tb).unwrap_or(0);
        let hi = wlog.iter().rposition(|w| w.0 < o.te).unwrap_or(0).max(lo);
        if !wlog[lo..=hi].iter().any(|w| w.2 == o.len) {
            rep.finding("result | reader observed a length the stream never had around that time".to_string(), format!("entry({target}).len() = {} observed in [{}, {}]; admissible (after whole operations {lo}..={hi}): {:?}", o.len, o.tb, o.te, wlog[lo..=hi].iter().map(|w| w.2).collect::<Vec<_>>()), ctx.witness(round, vec![]));
            break;
        }
    }
    rep.add("m2.reader_results_checked", obs.len() as u64);
    rep.add("m2.writer_ops", wlog.len() as u64 - 1);
    rep.count(if forced { "m2.forced_rounds" } else { "m2.stress_rounds" });
    rep.max("m2.max_readers", n_readers as u64);
    if rep.samples.len() < 2 {
        rep.sample(J::obj(vec![
            ("monitor", J::s(if forced { "M2 forced schedule" } else { "M2 stress with random delays" })),
            ("version", J::s(format!("{version:?}"))),
            ("readers", J::Int(n_readers as i128)),
            ("reader_calls_each", J::Int(reader_calls as i128)),
            ("writer_ops", J::Int(writer_ops as i128)),
            ("stream", J::s(target.clone())),
            ("reader_observations_checked", J::Int(obs.len() as i128)),
            ("writer_log_head", J::Arr(wlog.iter().take(6).map(|w| J::s(format!("ts {}..{} -> entry len {}", w.0, w.1, w.2))).collect())),
        ]));
    }
    if spin {
        MODE.store(2, Ordering::Relaxed);
        rep.count("m2.spin_rounds");
    }
    {
        let g = global();
        rep.set_insert("m2.grant_order_prefixes", format!("{:016x}", g.grant_order_hash));
        rep.nontrivial(g.grant_order_hash ^ round);
    }
    {
        let mut g = global();
        g.grant_order_hash = 0;
        g.grants = 0;
    }
    drop(stream);
    rep.evaluations += 1;
    true
}

fn deadlock_signature(d: &str) -> String {
    // the essence of the cycle: threads that wait while holding a guard, plus what the
    // writer waits for; bystanders (threads that hold nothing) are left out so that the
    // signature does not depend on how many readers happened to queue up
    let mut parts: BTreeSet<String> = BTreeSet::new();
    for t in d.split("; ") {
        if let (Some(a), Some(b)) = (t.find("waits for "), t.find(" while holding ")) {
            let holding = &t[b + 15..];
            if holding != "[]" {
                parts.insert(format!("{} while holding {}", &t[a + 10..b], holding));
            } else if t.contains("(writer)") {
                parts.insert(format!("writer: {}", &t[a + 10..b]));
            }
        }
    }
    parts.into_iter().collect::<Vec<_>>().join(" + ")
}

pub fn run_c14(ctx: &Ctx, rep: &mut Report) {
    crate::guard::case_begin(0);
    match ctx.shard {
        0 => run_discipline(ctx, rep),
        1..=3 => {
            install();
            MODE.store(1, Ordering::Relaxed);
            let mut round = 0;
            while ctx.time_left() && round < if ctx.quick() { 40 } else { 400 } {
                run_threads(ctx, rep, true, round);
                round += 1;
            }
        }
        _ => {
            install();
            MODE.store(2, Ordering::Relaxed);
            let mut round = 0;
            while ctx.time_left() {
                run_threads(ctx, rep, false, round);
                round += 1;
            }
        }
    }
    let g = global();
    rep.add("lock_events", g.events);
    crate::guard::case_end();
}
