//! Handle-level workloads: C06 (a handle is a seekable byte array for every buffer
//! size), C07 (handles stay bound to their stream), C08 (grown bytes read as zero).

use crate::common::Ctx;
use crate::engine::{self, Mode, OpenHow, Session, Step};
use crate::gen::{self, Gen, GenCfg};
use crate::guard;
use crate::model::{self, Kind, Op};
use crate::props::hist::{self, steps_json, vname, Fail};
use crate::refparse;
use crate::report::{Report, J};
use crate::rng::{fnv64_add, Rng};
use cfb::Version;
use std::io::SeekFrom;

pub const BUFSIZES: &[Option<usize>] = &[Some(0), Some(1), Some(1023), Some(1024), Some(1025), Some(1500), Some(4095), Some(4096), Some(4097), Some(5000), Some(65536), None];

fn bufname(b: Option<usize>) -> String {
    match b {
        Some(n) => format!("{n}"),
        None => "default".into(),
    }
}

/// Effective buffer capacity limit for a configured size (documented: clamped to 1024).
fn eff_buf(b: Option<usize>) -> u64 {
    match b {
        Some(n) => n.max(1024) as u64,
        None => 1024 * 1024,
    }
}

#[derive(Clone, Copy)]
pub struct HCfg {
    pub max_len: u64,
    pub extreme_seeks: bool,
    pub set_len_pct: u64,
    pub raw_rw: bool,
    /// Buffer capacity the script aims to straddle (a script parameter, so that the
    /// same script can be replayed under every configuration).
    pub cap_hint: u64,
}

pub fn seek_class(from: &SeekFrom) -> &'static str {
    match from {
        SeekFrom::Start(u64::MAX) => "start_u64max",
        SeekFrom::Start(_) => "start",
        SeekFrom::End(i64::MIN) => "end_i64min",
        SeekFrom::End(i64::MAX) => "end_i64max",
        SeekFrom::End(x) if *x == i64::MIN + 1 => "end_i64min+1",
        SeekFrom::End(x) if *x > 0 => "end_positive",
        SeekFrom::End(_) => "end",
        SeekFrom::Current(i64::MIN) => "cur_i64min",
        SeekFrom::Current(i64::MAX) => "cur_i64max",
        SeekFrom::Current(x) if *x == i64::MIN + 1 => "cur_i64min+1",
        SeekFrom::Current(_) => "cur",
    }
}

/// One random step on an open handle, steered by the model's (pos, len) and by the
/// buffer capacity so that windows are straddled.
pub fn handle_step(rng: &mut Rng, sess: &Session, slot: usize, cfg: &HCfg) -> Step {
    let h = sess.hm[slot].as_ref().unwrap();
    let len = sess.model.get(&h.names).map(|n| n.data.len() as u64).unwrap_or(0);
    let pos = h.pos;
    let cap = cfg.cap_hint.max(2);
    let interesting: Vec<u64> = vec![0, 1, 63, 64, 65, 511, 512, 513, 1023, 1024, 1025, 4095, 4096, 4097, cap - 1, cap, cap + 1, len, len.saturating_sub(1), len / 2];
    let pick_off = |rng: &mut Rng| -> u64 {
        let c: Vec<u64> = interesting.iter().cloned().filter(|&x| x <= len).collect();
        if rng.chance(2, 3) && !c.is_empty() {
            *rng.pick(&c)
        } else {
            rng.below(len + 1)
        }
    };
    let pick_n = |rng: &mut Rng| -> usize {
        match rng.below(8) {
            0 => 0,
            1 => 1,
            2 => rng.range(2, 70) as usize,
            3 => *rng.pick(&[63usize, 64, 65, 511, 512, 513, 1023, 1024, 1025, 4096, 4097]),
            4 => (cap as usize).min(70000) + rng.below(3) as usize - 1,
            5 => rng.below(3000) as usize,
            6 => (len.saturating_sub(pos) as usize).min(200000),
            _ => (len.saturating_sub(pos) as usize + 1).min(200000),
        }
    };
    let w = rng.below(100);
    if w < 14 && cfg.raw_rw {
        Step::HRead { slot, n: pick_n(rng) }
    } else if w < 24 {
        Step::HReadExact { slot, n: pick_n(rng).min(20000) }
    } else if w < 32 && cfg.raw_rw {
        Step::HFill { slot, eighths: rng.below(9) as u8 }
    } else if w < 42 && cfg.raw_rw {
        let n = pick_n(rng).min(cfg.max_len.saturating_sub(pos) as usize);
        Step::HWrite { slot, len: n }
    } else if w < 54 {
        let n = pick_n(rng).min(cfg.max_len.saturating_sub(pos) as usize);
        if rng.chance(1, 10) {
            // zeros over whatever is there, long enough to cover whole aligned sectors
            let z = (*rng.pick(&[600usize, 1100, 2048, 4096, 9000, 12288])).min(cfg.max_len.saturating_sub(pos) as usize);
            return Step::HWriteTag { slot, len: z, tag: engine::ZERO_TAG };
        }
        Step::HWriteAll { slot, len: n }
    } else if w < 78 {
        let from = match rng.below(if cfg.extreme_seeks { 20 } else { 11 }) {
            0 => SeekFrom::Start(pick_off(rng)),
            1 => SeekFrom::Start(len),
            2 => SeekFrom::Start(len + 1),
            3 => SeekFrom::End(0),
            4 => SeekFrom::End(-(pick_off(rng) as i64)),
            5 => SeekFrom::End(-(len as i64) - 1),
            6 => SeekFrom::End(1),
            7 => SeekFrom::Current(0),
            8 => SeekFrom::Current(pick_off(rng) as i64 - pos as i64),
            9 => SeekFrom::Current(-(pos as i64) - 1),
            10 => SeekFrom::Current((len - pos) as i64 + 1),
            11 => SeekFrom::Start(u64::MAX),
            12 => SeekFrom::End(i64::MIN),
            13 => SeekFrom::End(i64::MIN + 1),
            14 => SeekFrom::End(i64::MAX),
            15 => SeekFrom::Current(i64::MIN),
            16 => SeekFrom::Current(i64::MIN + 1),
            17 => SeekFrom::Current(i64::MAX),
            18 => SeekFrom::Start(u64::MAX - 1),
            _ => SeekFrom::Current(-1),
        };
        Step::HSeek { slot, from }
    } else if w < 78 + cfg.set_len_pct {
        let n = if rng.chance(1, 2) { gen::pick_size(rng, cfg.max_len) } else { (pick_off(rng) + rng.below(200)).min(cfg.max_len) };
        if cfg.extreme_seeks && rng.chance(1, 25) {
            // as extreme as the seek arguments
            return Step::HSetLen { slot, n: *rng.pick(&[u64::MAX, u64::MAX - 1, u64::MAX - 511, u64::MAX - 4095, 1 << 63, (1 << 63) - 1, 1 << 45, (1 << 45) + 4097, 1 << 32, (1 << 32) + 5, 5 << 30, 1 << 40, (1 << 41) - 3]) };
        }
        Step::HSetLen { slot, n }
    } else if w < 92 {
        Step::HFlush { slot }
    } else if w < 95 {
        Step::HPos { slot }
    } else if w < 97 {
        Step::HLen { slot }
    } else {
        Step::HReadToEnd { slot }
    }
}

fn run_step(sess: &mut Session, step: Step, done: &mut Vec<Step>, rep: &mut Report) -> Result<(), Fail> {
    rep.count(&format!("op.{}", step.name()));
    if let Step::HSeek { from, .. } = &step {
        rep.count(&format!("seek.{}", seek_class(from)));
    }
    done.push(step.clone());
    match sess.run(&step) {
        None => Ok(()),
        Some(d) => Err((d.signature, format!("step #{} {}: expected {}, observed {}", d.step_index, d.step, d.expected, d.observed))),
    }
}

// ------------------------------------------------------------------ C06

/// Runs one script under one configuration; returns the normalised trace of the
/// exact-count calls (for the differential leg).
fn c06_one_config(ctx: &Ctx, rep: &mut Report, script_seed: u64, version: Version, bufsize: Option<usize>, init_len: u64, n_calls: usize, big: bool, raw_rw: bool, done: &mut Vec<Step>) -> Result<u64, Fail> {
    let mut rng = Rng::new(script_seed);
    let rng = &mut rng;
    // a quarter of the scripts run on a stream that another writer produced: the bytes
    // behind its end (rest of the final sector) and all free sectors hold garbage
    let mut foreign = None;
    if !big && script_seed % 4 == 1 {
        let mut srng = Rng::new(script_seed ^ 0xF0E1);
        let model = crate::synth::flat_model(&[("s".to_string(), engine::payload(321, init_len as usize)), ("other".to_string(), engine::payload(322, 4100))]);
        foreign = crate::synth::dirty_foreign_session(&model, version, bufsize, &mut srng);
    }
    let cfg = HCfg { max_len: if big { 1_200_000 } else { 80_000 }, extreme_seeks: true, set_len_pct: if foreign.is_some() { 20 } else { 8 }, raw_rw, cap_hint: if big { 1 << 20 } else { *rng.pick(&[1024u64, 1024, 1025, 1500, 4096, 5000, 65536]) } };
    let mut sess = match foreign {
        Some(s) => {
            rep.count("start.foreign_dirty_slack");
            let mut s = s;
            run_step(&mut s, Step::HOpen { slot: 0, path: "/s".into(), how: OpenHow::Open }, done, rep)?;
            s
        }
        None => {
            let mut s = Session::create(version, bufsize).map_err(|e| ("create | ok | err".to_string(), format!("{e}")))?;
            run_step(&mut s, Step::HOpen { slot: 0, path: "/s".into(), how: OpenHow::Create }, done, rep)?;
            if init_len > 0 {
                run_step(&mut s, Step::HWriteAll { slot: 0, len: init_len as usize }, done, rep)?;
                run_step(&mut s, Step::HSeek { slot: 0, from: SeekFrom::Start(0) }, done, rep)?;
            }
            s
        }
    };
    let mut next_readback = rng.range(10, 20) as usize;
    for k in 0..n_calls {
        let step = handle_step(rng, &sess, 0, &cfg);
        run_step(&mut sess, step, done, rep)?;
        if k == next_readback {
            next_readback += rng.range(10, 20) as usize;
            // fresh-handle readback after flush, and a reopen of the raw bytes
            run_step(&mut sess, Step::HFlush { slot: 0 }, done, rep)?;
            run_step(&mut sess, Step::HOpen { slot: 1, path: "/s".into(), how: OpenHow::Open }, done, rep)?;
            run_step(&mut sess, Step::HReadToEnd { slot: 1 }, done, rep)?;
            run_step(&mut sess, Step::HDrop { slot: 1 }, done, rep)?;
            rep.count("fresh_handle_readbacks");
            if rng.chance(1, 3) {
                let bytes = sess.shared.bytes();
                let d = engine::dump_bytes(&bytes, Mode::Strict).map_err(|w| ("readback | reopen | failed".to_string(), w))?;
                let want = &sess.model.get_path("/s").unwrap().data;
                let got = d.iter().find(|(v, _)| v.path == "/s").map(|(_, b)| b.clone()).unwrap_or_default();
                if &got != want {
                    return Err(("readback | reopen | bytes".to_string(), format!("after flush the reopened file holds different content: {}", engine::describe_bytes_diff(want, &got))));
                }
                rep.count("reopen_readbacks");
            }
        }
    }
    run_step(&mut sess, Step::HClose { slot: 0 }, done, rep)?;
    sess.check_against_model(false).map_err(|w| ("final | dump | mismatch".to_string(), w))?;
    if script_seed % 16 == 3 {
        // a handle that outlives its compound file: every call answers Ok or Err (a panic is
        // caught by the caller and reported)
        use std::io::{BufRead, Read, Seek, Write};
        if let Ok(mut h) = sess.cf().open_stream("/s") {
            // half of the time the handle has just used up its window exactly (the next
            // read has to refill, which is where the missing compound file is noticed)
            let window = eff_buf(bufsize);
            let exhausted = script_seed % 32 == 3 && h.len() > window;
            if exhausted {
                let mut w = vec![0u8; window as usize];
                h.read_exact(&mut w).map_err(|e| ("orphan handle | read before the drop failed".to_string(), format!("{e}")))?;
            } else {
                let _ = h.write(&[1, 2, 3]);
            }
            drop(sess.cf.take());
            let mut b = [0u8; 16];
            let r = h.read(&mut b);
            if exhausted {
                let len = h.len();
                match (r, h.stream_position()) {
                    (Err(_), Ok(p)) if p != window => {
                        return Err(("orphan handle | a failed read moved the position".to_string(), format!("{window} bytes read (position {window}, len {len}), compound file dropped, read() failed, stream_position() = {p}")));
                    }
                    _ => {}
                }
                rep.count("orphan_handle_scripts_with_exhausted_window");
            }
            let _ = h.fill_buf().map(|x| x.len());
            let _ = h.seek(SeekFrom::Start(1));
            let _ = h.seek(SeekFrom::End(i64::MIN));
            let _ = h.write(&[4u8; 2000]);
            let _ = h.flush();
            let _ = h.set_len(5);
            let _ = h.len();
            let _ = h.stream_position();
            drop(h);
            rep.count("orphan_handle_scripts");
            let _ = ctx;
            return Ok(crate::rng::fnv64(&sess.model.get_path("/s").unwrap().data));
        }
    }
    let _ = ctx;
    Ok(crate::rng::fnv64(&sess.model.get_path("/s").unwrap().data))
}

pub fn run_c06(ctx: &Ctx, rep: &mut Report) {
    if crate::props::huge::maybe_run(ctx, rep, "beyond 4 GiB", 0) {
        return;
    }
    let mut i = 0;
    while let Some(case) = ctx.next_case(&mut i) {
        let mut rng = ctx.case_rng(case);
        let script_seed = rng.next_u64();
        let big = rng.chance(1, if ctx.quick() { 40 } else { 15 });
        let init_len = if big { *rng.pick(&[1_048_575u64, 1_048_576, 1_048_577, 1_053_576]) } else { gen::pick_size(&mut rng, 70000) };
        let n_calls = if ctx.quick() { rng.range(20, 120) } else { rng.range(40, 300) } as usize;
        // three configurations per script; the list is cycled so that all are visited
        let mut cfgs: Vec<(Version, Option<usize>)> = Vec::new();
        for k in 0..3u64 {
            let b = BUFSIZES[((case * 3 + k) as usize + rng.usize_below(2)) % BUFSIZES.len()];
            let v = if rng.chance(1, 2) { Version::V3 } else { Version::V4 };
            cfgs.push((v, b));
        }
        if big {
            cfgs = vec![(Version::V4, None), (Version::V3, Some(65536))];
        }
        let raw_rw = rng.chance(1, 2);
        let mut finals: Vec<(String, u64, Vec<Step>)> = Vec::new();
        for (v, b) in cfgs {
            let mut done = Vec::new();
            let r = guard::catch(|| c06_one_config(ctx, rep, script_seed, v, b, init_len, n_calls, big, raw_rw, &mut done));
            let witness = |done: &Vec<Step>| ctx.witness(case, vec![("version", J::s(vname(v))), ("max_buffer_size", J::s(bufname(b))), ("initial_len", J::Int(init_len as i128)), ("steps", steps_json(done))]);
            rep.count(&format!("config.buf_{}", bufname(b)));
            rep.count(&format!("config.{}", vname(v)));
            match r {
                Ok(Ok(h)) => finals.push((format!("{}/{}", vname(v), bufname(b)), h, done.clone())),
                Ok(Err((sig, detail))) => rep.finding(sig, format!("[{} buf={}] {}", vname(v), bufname(b), detail), witness(&done)),
                Err(p) => rep.finding(p.signature(), format!("[{} buf={}] panic at {}:{}: {}", vname(v), bufname(b), p.file, p.line, p.message), witness(&done)),
            }
            rep.add("steps", done.len() as u64);
            if rep.samples.len() < 2 {
                rep.sample(J::obj(vec![("version", J::s(vname(v))), ("max_buffer_size", J::s(bufname(b))), ("steps", steps_json(&done[..done.len().min(30)]))]));
            }
        }
        // differential leg: raw read/write counts may legitimately differ between buffer
        // sizes, which changes later script choices; so only scripts whose final contents
        // agree are compared -- the model check per configuration is the primary oracle.
        rep.count("scripts");
        if big {
            rep.count("scripts_big");
        }
        rep.nontrivial(fnv64_add(script_seed, &init_len.to_le_bytes()));
        rep.evaluations += 1;
        // Differential leg: with exact-count calls only, the script and every result are
        // the same under all configurations.
        if !raw_rw && finals.len() >= 2 && script_seed % 4 != 1 {
            for w in finals.windows(2) {
                if w[0].1 != w[1].1 || w[0].2 != w[1].2 {
                    rep.finding("differential | exact-count script | configurations disagree".to_string(), format!("{} and {} produced different traces/contents for the same exact-count script", w[0].0, w[1].0), ctx.witness(case, vec![("a", J::s(&w[0].0)), ("b", J::s(&w[1].0)), ("steps_a", steps_json(&w[0].2)), ("steps_b", steps_json(&w[1].2))]));
                }
            }
            rep.count("differential_scripts_compared");
        }
    }
}

// ------------------------------------------------------------------ C08

fn provenance(history: &[(String, Vec<u8>)], stale: &[u8], own_path: &str) -> String {
    // search a window of the stale bytes in former contents
    let start = stale.iter().position(|&b| b != 0).unwrap_or(0);
    let win = &stale[start..(start + 8).min(stale.len())];
    if win.len() < 3 {
        return "unknown".into();
    }
    for (p, data) in history.iter().rev() {
        if data.windows(win.len()).any(|w| w == win) {
            return if p == own_path { "same-stream former content".into() } else { "former content of another (removed/truncated) stream".into() };
        }
    }
    "unknown".into()
}

fn payload_history(sess: &Session, p: &str) -> Vec<u8> {
    sess.model.get_path(p).map(|n| n.data.clone()).unwrap_or_default()
}

/// "Regardless of earlier history such as a previous shrink of the same stream": here
/// the shrink happens through a second handle, behind the back of a long-lived handle
/// that saw the stream at its old length and then grows it.  Uses a scratch stream that
/// is removed again, so the session's model is not involved.
fn two_handle_episode(sess: &mut Session, rng: &mut Rng, rep: &mut Report) -> Result<(), Fail> {
    use std::io::{Read, Seek, Write};
    let regular = rng.chance(1, 2);
    let (l, c, n): (u64, u64, u64) = if regular {
        let l = rng.range(6000, 20000);
        let c = rng.range(4096, l - 1000);
        (l, c, l + rng.range(1, 9000))
    } else {
        let l = rng.range(300, 3500);
        let c = rng.range(0, l - 100);
        (l, c, (l + rng.range(1, 500)).min(4095))
    };
    let ctx_s = format!("/two: written {l} bytes through handle A; set_len({c}) through handle B; set_len({n}) through handle A");
    let io = |what: &str| {
        let c = ctx_s.clone();
        let w = what.to_string();
        move |e: std::io::Error| ("grow | two handles | call failed".to_string(), format!("{c}: {w}: {e}"))
    };
    let cf = sess.cf();
    let mut a = cf.create_stream("/two").map_err(io("create_stream"))?;
    let data: Vec<u8> = (0..l).map(|i| 0x80 | (i as u8)).collect();
    a.write_all(&data).map_err(io("write"))?;
    a.flush().map_err(io("flush"))?;
    if rng.chance(1, 2) {
        // A has read its data too (its buffer has seen the long content)
        a.seek(SeekFrom::Start(0)).map_err(io("seek"))?;
        let mut v = Vec::new();
        a.read_to_end(&mut v).map_err(io("read"))?;
    }
    {
        let mut b = cf.open_stream("/two").map_err(io("open second handle"))?;
        b.set_len(c).map_err(io("set_len through B"))?;
        b.flush().map_err(io("flush B"))?;
    }
    a.set_len(n).map_err(io("set_len through A"))?;
    a.flush().map_err(io("flush A"))?;
    drop(a);
    // the bytes gained by A's set_len lie between the stream's real end (c) and n
    let mut f = cf.open_stream("/two").map_err(io("open fresh handle"))?;
    let mut got = Vec::new();
    f.read_to_end(&mut got).map_err(io("read fresh handle"))?;
    drop(f);
    let res = if got.len() as u64 != n {
        Err(("grow | two handles | length".to_string(), format!("{ctx_s}: a fresh handle reads {} bytes", got.len())))
    } else if got[..c as usize] != data[..c as usize] {
        Err(("grow | two handles | kept bytes changed".to_string(), format!("{ctx_s}: the first {c} bytes differ")))
    } else if let Some(k) = got[c as usize..].iter().position(|&b| b != 0) {
        let nz = got[c as usize..].iter().filter(|&&b| b != 0).count();
        Err((format!("grow | {} | truncated data of the same stream is back (shrunk through another handle)", if regular { "regular" } else { "mini" }), format!("{ctx_s}: {nz} of the {} gained bytes are non-zero, first at offset {}", n - c, c + k as u64)))
    } else {
        Ok(())
    };
    cf.remove_stream("/two").map_err(io("remove_stream"))?;
    rep.count("grows_checked");
    rep.count("grows_after_shrink_through_another_handle");
    res
}

fn c08_case(ctx: &Ctx, rep: &mut Report, rng: &mut Rng, version: Version, bufsize: Option<usize>, done: &mut Vec<Step>) -> Result<(), Fail> {
    let names = ["/a", "/b", "/c", "/d", "/e"];
    // "regardless of earlier history": a third of the cases start from a file another
    // writer produced, in which the bytes behind the end of each stream (rest of the final
    // sector / mini sector) and all free sectors hold garbage
    let mut start = None;
    if rng.chance(1, 3) {
        let lens: &[usize] = &[0, 0, 1, 30, 100, 600, 4000, 4097, 4200, 5000, 8193, 9000, 13000];
        let mut items: Vec<(String, Vec<u8>)> = Vec::new();
        for (i, n) in names.iter().enumerate() {
            if rng.chance(3, 4) {
                let len = *rng.pick(lens);
                items.push((n[1..].to_string(), engine::payload(500 + i as u64, len)));
            }
        }
        let model = crate::synth::flat_model(&items);
        start = crate::synth::dirty_foreign_session(&model, version, bufsize, rng);
        if start.is_some() {
            rep.count("start.foreign_dirty_slack");
            done.push(Step::Api(Op::Walk)); // marks the witness: the start image is regenerated from the case
        }
    }
    let mut sess = match start {
        Some(s) => s,
        None => {
            // (creating over a store that still holds an older document is not done here: the
            // crate documents "the writer should be initially empty", and it does fail there)
            let old: Vec<u8> = Vec::new();
            Session::create_over(version, bufsize, old).map_err(|e| ("create | ok | err".to_string(), format!("{e}")))?
        }
    };
    // a quarter of the histories run on a store that grants reads and writes only in part
    // (legal for any Read / Write): the zero fill must not depend on whole-buffer transfers
    if rng.chance(1, 4) {
        sess.shared.set_perturb(Some(crate::backend::Perturb { rng: Rng::new(rng.next_u64()), short_pct: 40, intr_pct: 0 }));
        rep.count("histories_on_a_short_io_store");
    }
    let mut former: Vec<(String, Vec<u8>)> = Vec::new();
    let n_ops = if ctx.quick() { rng.range(10, 60) } else { rng.range(20, 200) };
    let sizes: &[u64] = &[0, 1, 30, 63, 64, 65, 100, 128, 200, 511, 512, 513, 600, 1000, 2048, 4000, 4031, 4032, 4095, 4096, 4097, 4159, 4160, 5000, 8192, 8193, 9000];
    for _ in 0..n_ops {
        if rng.chance(1, 25) {
            two_handle_episode(&mut sess, rng, rep)?;
            continue;
        }
        let p = *rng.pick(&names);
        let exists = sess.model.get_path(p).is_some();
        let w = rng.below(100);
        if exists && w >= 90 {
            // one handle kept open across write / shrink / write-at-the-new-end / grow: the
            // handle's own buffer has seen the longer data
            let long = *rng.pick(&[300usize, 700, 1500, 3000, 6000]);
            run_step(&mut sess, Step::HOpen { slot: 0, path: p.into(), how: OpenHow::Create }, done, rep)?;
            run_step(&mut sess, Step::HWriteAll { slot: 0, len: long }, done, rep)?;
            if rng.chance(1, 2) {
                run_step(&mut sess, Step::HFlush { slot: 0 }, done, rep)?;
            }
            if rng.chance(1, 2) {
                run_step(&mut sess, Step::HSeek { slot: 0, from: SeekFrom::Start(0) }, done, rep)?;
                run_step(&mut sess, Step::HReadToEnd { slot: 0 }, done, rep)?;
            }
            let short = rng.below(long as u64 / 2 + 1);
            if short > 0 && rng.chance(1, 3) {
                // the handle's window is warm from a read near the start and its position
                // lies inside what remains: shrink, grow, and read the gained bytes through
                // it without the position ever having had to move
                let head = 1 + rng.below(short) as usize;
                run_step(&mut sess, Step::HSeek { slot: 0, from: SeekFrom::Start(0) }, done, rep)?;
                run_step(&mut sess, Step::HReadExact { slot: 0, n: head }, done, rep)?;
                run_step(&mut sess, Step::HSetLen { slot: 0, n: short }, done, rep)?;
                let new = short + 1 + rng.below(long as u64);
                former.push((p.to_string(), payload_history(&sess, p)));
                run_step(&mut sess, Step::HSetLen { slot: 0, n: new }, done, rep)?;
                if rng.chance(1, 2) {
                    run_step(&mut sess, Step::HSeek { slot: 0, from: SeekFrom::Start(short) }, done, rep).map_err(|(s, d)| (format!("grow | warm window | {s}"), d))?;
                    run_step(&mut sess, Step::HReadExact { slot: 0, n: (new - short) as usize }, done, rep).map_err(|(s, d)| (format!("grow | warm window | {s}"), d))?;
                } else {
                    // straight on from where the read stopped
                    run_step(&mut sess, Step::HReadToEnd { slot: 0 }, done, rep).map_err(|(s, d)| (format!("grow | warm window | {s}"), d))?;
                }
                rep.count("grows_checked");
                rep.count("grows_under_a_warm_window");
                run_step(&mut sess, Step::HClose { slot: 0 }, done, rep)?;
                continue;
            }
            run_step(&mut sess, Step::HSetLen { slot: 0, n: short }, done, rep)?;
            run_step(&mut sess, Step::HSeek { slot: 0, from: SeekFrom::End(0) }, done, rep)?;
            run_step(&mut sess, Step::HWriteAll { slot: 0, len: 1 + rng.below(40) as usize }, done, rep)?;
            let old = sess.model.get_path(p).unwrap().data.len() as u64;
            let new = old + 1 + rng.below(long as u64);
            former.push((p.to_string(), payload_history(&sess, p)));
            run_step(&mut sess, Step::HSetLen { slot: 0, n: new }, done, rep)?;
            // the gained bytes through the same handle (model-checked read), then reopened
            run_step(&mut sess, Step::HSeek { slot: 0, from: SeekFrom::Start(old) }, done, rep).map_err(|(s, d)| (format!("grow | long-lived handle | {s}"), d))?;
            run_step(&mut sess, Step::HReadExact { slot: 0, n: (new - old) as usize }, done, rep).map_err(|(s, d)| (format!("grow | long-lived handle | {s}"), d))?;
            run_step(&mut sess, Step::HFlush { slot: 0 }, done, rep)?;
            let bytes = sess.shared.bytes();
            let d = engine::dump_bytes(&bytes, Mode::Strict).map_err(|w| ("grow | reopen | failed".to_string(), w))?;
            let got = d.iter().find(|(v, _)| v.path == p).map(|(_, b)| b.clone()).unwrap_or_default();
            if got.len() as u64 != new || got[old as usize..].iter().any(|&b| b != 0) {
                return Err(("grow | long-lived handle | non-zero gained bytes after reopen".to_string(), format!("set_len({old} -> {new}) on {p} through a handle that had buffered longer data")));
            }
            rep.count("grows_checked");
            rep.count("grows_through_long_lived_handle");
            run_step(&mut sess, Step::HClose { slot: 0 }, done, rep)?;
            continue;
        }
        if !exists || w < 15 {
            // (re)create with content
            if exists {
                former.push((p.to_string(), sess.model.get_path(p).unwrap().data.clone()));
            }
            let len = *rng.pick(sizes) as usize;
            run_step(&mut sess, Step::HOpen { slot: 0, path: p.into(), how: OpenHow::Create }, done, rep)?;
            if rng.chance(4, 5) {
                run_step(&mut sess, Step::HWriteAll { slot: 0, len }, done, rep)?;
            }
            run_step(&mut sess, Step::HClose { slot: 0 }, done, rep)?;
        } else if w < 30 {
            former.push((p.to_string(), sess.model.get_path(p).unwrap().data.clone()));
            run_step(&mut sess, Step::Api(Op::RemoveStream(p.into())), done, rep)?;
        } else {
            // resize through a handle: shrink or grow
            let old = sess.model.get_path(p).unwrap().data.len() as u64;
            let new = if rng.chance(1, 3) && old > 0 { rng.below(old) } else { *rng.pick(sizes) };
            former.push((p.to_string(), sess.model.get_path(p).unwrap().data.clone()));
            run_step(&mut sess, Step::HOpen { slot: 0, path: p.into(), how: OpenHow::Open }, done, rep)?;
            if rng.chance(1, 3) {
                run_step(&mut sess, Step::HSeek { slot: 0, from: SeekFrom::Start(rng.below(old + 1)) }, done, rep)?;
            }
            if rng.chance(1, 4) && old < 9000 {
                // unflushed write before the resize
                run_step(&mut sess, Step::HWriteAll { slot: 0, len: rng.below(300) as usize }, done, rep)?;
            }
            let old = sess.model.get_path(p).unwrap().data.len() as u64;
            run_step(&mut sess, Step::HSetLen { slot: 0, n: new }, done, rep)?;
            if new > old {
                let cls = |n: u64| if n == 0 { "empty" } else if n < 4096 { "mini" } else { "regular" };
                rep.count(&format!("grow.{}->{}", cls(old), cls(new)));
                rep.add("grown_bytes_inspected", new - old);
                // (1) through the same handle
                let stream = sess.streams[0].as_mut().unwrap();
                use std::io::{Read, Seek};
                let keep = stream.stream_position().unwrap_or(0);
                let mut buf = vec![0xAAu8; (new - old) as usize];
                stream.seek(SeekFrom::Start(old)).map_err(|e| ("grow | seek".to_string(), format!("{e}")))?;
                stream.read_exact(&mut buf).map_err(|e| ("grow | read".to_string(), format!("{e}")))?;
                stream.seek(SeekFrom::Start(keep)).map_err(|e| ("grow | seek".to_string(), format!("{e}")))?;
                if let Some(k) = buf.iter().position(|&b| b != 0) {
                    let nz = buf.iter().filter(|&&b| b != 0).count();
                    let prov = provenance(&former, &buf, p);
                    return Err((format!("grow | {} | {}", cls(new), prov), format!("set_len({old} -> {new}) on {p}: {nz} of {} gained bytes are non-zero through the same handle, first at offset {}", new - old, old + k as u64)));
                }
                // (2) fresh handle after flush, (3) reopen of the raw bytes
                run_step(&mut sess, Step::HFlush { slot: 0 }, done, rep)?;
                let bytes = sess.shared.bytes();
                for mode in [Mode::Permissive, Mode::Strict] {
                    let d = engine::dump_bytes(&bytes, mode).map_err(|w| ("grow | reopen | failed".to_string(), w))?;
                    let got = d.iter().find(|(v, _)| v.path == p).map(|(_, b)| b.clone()).unwrap_or_default();
                    if got.len() as u64 != new {
                        return Err(("grow | reopen | length".to_string(), format!("{p}: {} bytes after reopen, expected {new}", got.len())));
                    }
                    if let Some(k) = got[old as usize..].iter().position(|&b| b != 0) {
                        let prov = provenance(&former, &got[old as usize..], p);
                        return Err((format!("grow | {} | {} (after reopen)", cls(new), prov), format!("set_len({old} -> {new}) on {p}: non-zero gained byte at offset {} after reopen", old + k as u64)));
                    }
                }
                rep.count("grows_checked");
            } else if new < old {
                rep.count("shrinks");
            }
            run_step(&mut sess, Step::HClose { slot: 0 }, done, rep)?;
        }
        if rng.chance(1, 5) {
            sess.check_against_model(false).map_err(|w| ("dump | model | mismatch".to_string(), w))?;
        }
    }
    sess.check_against_model(false).map_err(|w| ("dump | model | mismatch".to_string(), w))?;
    Ok(())
}

pub fn run_c08(ctx: &Ctx, rep: &mut Report) {
    let mut i = 0;
    while let Some(case) = ctx.next_case(&mut i) {
        let mut rng = ctx.case_rng(case);
        let version = hist::version_of(&mut rng);
        let bufsize = *rng.pick(&[None, Some(1024usize), Some(4096)]);
        let mut done = Vec::new();
        let before = rep.get("grows_checked");
        let r = guard::catch(|| c08_case(ctx, rep, &mut rng, version, bufsize, &mut done));
        let witness = |done: &Vec<Step>| ctx.witness(case, vec![("version", J::s(vname(version))), ("max_buffer_size", J::s(bufname(bufsize))), ("steps", steps_json(done))]);
        match r {
            Ok(Ok(())) => {}
            Ok(Err((sig, detail))) => rep.finding(sig, detail, witness(&done)),
            Err(p) => rep.finding(p.signature(), format!("panic at {}:{}: {}", p.file, p.line, p.message), witness(&done)),
        }
        if rep.get("grows_checked") > before {
            let mut h = fnv64_add(0xcbf29ce484222325, vname(version).as_bytes());
            for s in &done {
                h = fnv64_add(h, format!("{:?}", s).as_bytes());
            }
            rep.nontrivial(h);
        }
        if rep.samples.len() < 2 {
            rep.sample(J::obj(vec![("version", J::s(vname(version))), ("steps", steps_json(&done[..done.len().min(30)]))]));
        }
        rep.add("steps", done.len() as u64);
        rep.evaluations += 1;
    }
}

// ------------------------------------------------------------------ C07

/// Complete comparison at a checkpoint: all handles flushed, dump through fresh lookups
/// and through the independent parser both equal the model.
fn c07_checkpoint(sess: &mut Session, rep: &mut Report, done: &mut Vec<Step>) -> Result<(), Fail> {
    for slot in sess.open_slots() {
        if sess.hm[slot].as_ref().unwrap().dirty {
            run_step(sess, Step::HFlush { slot }, done, rep)?;
        }
    }
    sess.check_against_model(true).map_err(|w| ("checkpoint | fresh lookups | mismatch".to_string(), format!("after step #{}: {}", done.len(), w)))?;
    let bytes = sess.shared.bytes();
    let (img, chk, log) = refparse::full(&bytes).map_err(|e| ("checkpoint | independent parser | unreadable".to_string(), e))?;
    let _ = img;
    if let Some(v) = chk.violations.first() {
        return Err((format!("checkpoint | independent parser | rule {}", v.rule), format!("after step #{}: {}", done.len(), v.detail)));
    }
    let exp = sess.model.dump();
    if log.len() != exp.len() {
        return Err(("checkpoint | independent parser | tree".to_string(), format!("after step #{}: parser sees {} objects, model {}", done.len(), log.len(), exp.len())));
    }
    for (l, (v, data)) in log.iter().zip(exp.iter()) {
        if l.path != "/" && l.name != v.name {
            return Err(("checkpoint | independent parser | tree".to_string(), format!("name {:?} vs {:?}", l.name, v.name)));
        }
        if v.kind == Kind::Stream && &l.data != data {
            return Err(("checkpoint | independent parser | content".to_string(), format!("after step #{}: {}: {}", done.len(), v.path, engine::describe_bytes_diff(data, &l.data))));
        }
        if l.state != v.state || l.clsid != v.clsid || v.ctime.map(|t| t != l.ctime).unwrap_or(false) || v.mtime.map(|t| t != l.mtime).unwrap_or(false) {
            return Err(("checkpoint | independent parser | metadata".to_string(), format!("after step #{}: {} metadata differs in the bytes", done.len(), v.path)));
        }
    }
    rep.count("checkpoints");
    Ok(())
}

/// A listing that is in progress while a handle changes a stream's length: entries handed
/// out after the write must describe the stream as it is then (scratch storage, removed
/// again; the session's model is not involved).
pub fn listing_across_a_write_episode(sess: &mut Session, rng: &mut Rng, rep: &mut Report) -> Result<(), Fail> {
    use std::io::{Seek, Write};
    let io = |what: &str| {
        let w = what.to_string();
        move |e: std::io::Error| ("listing across a write | call failed".to_string(), format!("{w}: {e}"))
    };
    let add = 1 + rng.below(6000);
    let walk = rng.chance(1, 2);
    let cf = sess.cf();
    cf.create_storage("/it").map_err(io("create_storage"))?;
    for (n, len) in [("a", 100usize), ("b", 5000), ("c", 300)] {
        let mut s = cf.create_stream(format!("/it/{n}")).map_err(io("create_stream"))?;
        s.write_all(&engine::payload(40, len)).map_err(io("write"))?;
        s.flush().map_err(io("flush"))?;
    }
    let mut h = cf.open_stream("/it/c").map_err(io("open_stream"))?;
    let seen: Vec<(String, u64)> = {
        let mut it: Box<dyn Iterator<Item = cfb::Entry>> = if walk { Box::new(cf.walk_storage("/it").map_err(io("walk_storage"))?) } else { Box::new(cf.read_storage("/it").map_err(io("read_storage"))?) };
        let mut v: Vec<(String, u64)> = it.by_ref().take(1).map(|e| (e.name().to_string(), e.len())).collect();
        h.seek(SeekFrom::End(0)).map_err(io("seek"))?;
        h.write_all(&engine::payload(41, add as usize)).map_err(io("write through the handle"))?;
        h.flush().map_err(io("flush the handle"))?;
        v.extend(it.map(|e| (e.name().to_string(), e.len())));
        v
    };
    drop(h);
    let res = match seen.iter().find(|(n, _)| n == "c") {
        Some((_, l)) if *l == 300 + add => Ok(()),
        Some((_, l)) => Err(("listing across a write | stale length".to_string(), format!("{}(/it) was started, one entry taken, then /it/c grew from 300 to {} bytes through its handle (flushed); the listing then reported {} bytes for c", if walk { "walk_storage" } else { "read_storage" }, 300 + add, l))),
        None => Err(("listing across a write | entry missing".to_string(), format!("{:?}", seen))),
    };
    sess.cf().remove_storage_all("/it").map_err(io("remove_storage_all"))?;
    rep.count("listings_across_a_write");
    res
}

/// A stream is re-created (create_stream over it) while a handle on it is open and a lower
/// directory slot is free; whatever the old handle then does, it must not touch another
/// stream (scratch storage, removed again).
fn recreate_under_a_handle_episode(sess: &mut Session, rng: &mut Rng, rep: &mut Report) -> Result<(), Fail> {
    use std::io::{Read, Seek, Write};
    let io = |what: &str| {
        let w = what.to_string();
        move |e: std::io::Error| ("re-creation under a handle | call failed".to_string(), format!("{w}: {e}"))
    };
    let big = rng.chance(1, 2);
    let cf = sess.cf();
    cf.create_storage("/rc").map_err(io("create_storage"))?;
    for n in ["low1", "low2"] {
        cf.create_stream(format!("/rc/{n}")).map_err(io("create_stream"))?;
    }
    {
        let mut s = cf.create_stream("/rc/x").map_err(io("create_stream"))?;
        s.write_all(&vec![b'x'; if big { 5000 } else { 10 }]).map_err(io("write"))?;
        s.flush().map_err(io("flush"))?;
    }
    let mut h = cf.open_stream("/rc/x").map_err(io("open_stream"))?;
    cf.remove_stream("/rc/low1").map_err(io("remove_stream"))?;
    drop(cf.create_stream("/rc/x").map_err(io("create_stream over the open stream"))?);
    let d_want = vec![b'd'; if big { 4500 } else { 10 }];
    {
        let mut s = cf.create_stream("/rc/d").map_err(io("create_stream"))?;
        s.write_all(&d_want).map_err(io("write"))?;
        s.flush().map_err(io("flush"))?;
    }
    // the old handle is used again; its own results are not judged (its stream was emptied
    // behind its back), only what happens to the others
    let _ = h.seek(SeekFrom::Start(0));
    let _ = h.write_all(b"0123456789");
    let _ = h.flush();
    drop(h);
    let mut got = Vec::new();
    cf.open_stream("/rc/d").map_err(io("open /rc/d"))?.read_to_end(&mut got).map_err(io("read /rc/d"))?;
    let low2 = cf.entry("/rc/low2").map(|e| e.len()).map_err(io("entry /rc/low2"))?;
    let res = if got != d_want {
        Err(("re-creation under a handle | another stream was touched".to_string(), format!("/rc/x re-created with create_stream while a handle on it was open (a lower directory slot was free); after the old handle wrote 10 bytes, /rc/d reads {:?}... instead of its {} bytes of 'd'", &got[..got.len().min(12)], d_want.len())))
    } else if low2 != 0 {
        Err(("re-creation under a handle | another stream was touched".to_string(), format!("/rc/low2 has {low2} bytes")))
    } else {
        Ok(())
    };
    sess.cf().remove_storage_all("/rc").map_err(io("remove_storage_all"))?;
    rep.count("recreations_under_a_handle");
    res
}

/// A handle that is still around after its stream was removed (with unwritten changes or
/// without), possibly after the freed directory slot was taken by a new stream or storage.
/// What the old handle's own calls answer is not judged - its stream is gone - but they
/// answer (a panic is reported by the caller), and they "change only that stream's bytes
/// and length": every other object is as before, live and in the stored bytes.
pub fn handle_after_removal_episode(sess: &mut Session, rng: &mut Rng, rep: &mut Report) -> Result<(), Fail> {
    use std::io::{Read, Seek, Write};
    let io = |what: &str| {
        let w = what.to_string();
        move |e: std::io::Error| ("harness-or-C01: handle-after-removal episode".to_string(), format!("{w}: {e}"))
    };
    let keep_len = *rng.pick(&[100usize, 200, 3000, 5000]);
    let keep = engine::payload(61, keep_len);
    let pending = *rng.pick(&[0usize, 5, 100, 300, 5000]);
    let reuse = rng.below(3); // 0: slot stays free, 1: new stream, 2: new storage
    let fresh = engine::payload(62, *rng.pick(&[150usize, 4200]));
    let what_then = rng.below(4);
    let cf = sess.cf();
    cf.create_storage("/rm").map_err(io("create_storage"))?;
    {
        let mut s = cf.create_stream("/rm/keep").map_err(io("create_stream"))?;
        s.write_all(&keep).map_err(io("write"))?;
        s.flush().map_err(io("flush"))?;
    }
    let mut old = cf.create_stream("/rm/gone").map_err(io("create_stream"))?;
    if rng.chance(1, 2) {
        old.write_all(&[0x11; 40]).map_err(io("write"))?;
        old.flush().map_err(io("flush"))?;
    }
    if pending > 0 {
        old.write_all(&vec![0x9Au8; pending]).map_err(io("write (left in the buffer)"))?;
    }
    cf.remove_stream("/rm/gone").map_err(io("remove_stream"))?;
    // one time in three the creation that takes the freed slot first fails on a hiccup of
    // the store (one underlying write or seek fails) and is then repeated
    let hiccup: Option<u64> = if reuse != 0 && rng.chance(1, 3) { Some(rng.below(50)) } else { None };
    if let Some(k) = hiccup {
        sess.shared.arm(vec![crate::backend::Fault { kinds: crate::backend::K_WRITE | crate::backend::K_SEEK, k, err: std::io::ErrorKind::Other, sticky: false, partial: false }]);
        let r0 = if reuse == 1 { sess.cf().create_new_stream("/rm/new").map(|_| ()) } else { sess.cf().create_storage("/rm/new") };
        sess.shared.disarm();
        match r0 {
            Ok(()) => {
                // the fault was not reached: undo, so that the creation below is the first
                let _ = if reuse == 1 { sess.cf().remove_stream("/rm/new") } else { sess.cf().remove_storage("/rm/new") };
            }
            Err(_) => rep.count("handle_after_removal.slot_taken_after_a_failed_creation"),
        }
    }
    let cf = sess.cf();
    match reuse {
        1 => {
            let mut s = cf.create_new_stream("/rm/new").map_err(io("create_new_stream"))?;
            s.write_all(&fresh).map_err(io("write"))?;
            s.flush().map_err(io("flush"))?;
        }
        2 => {
            cf.create_storage("/rm/new").map_err(io("create_storage"))?;
            cf.set_state_bits("/rm/new", 0x5151).map_err(io("set_state_bits"))?;
        }
        _ => {}
    }
    // the old handle speaks again
    let log = match what_then {
        0 => {
            let a = old.flush().is_ok();
            drop(old);
            format!("flush -> {}", if a { "Ok" } else { "Err" })
        }
        1 => {
            drop(old);
            "dropped".to_string()
        }
        2 => {
            let a = old.set_len(*rng.pick(&[0u64, 150, 5000])).is_ok();
            let b = old.flush().is_ok();
            drop(old);
            format!("set_len -> {}, flush -> {}", if a { "Ok" } else { "Err" }, if b { "Ok" } else { "Err" })
        }
        _ => {
            let a = old.seek(SeekFrom::Start(0)).is_ok();
            let b = old.write_all(b"0123456789").is_ok();
            let c = old.flush().is_ok();
            let mut v = Vec::new();
            let d = old.seek(SeekFrom::Start(0)).and_then(|_| old.read_to_end(&mut v)).is_ok();
            drop(old);
            format!("seek -> {a}, write -> {b}, flush -> {c}, read -> {d}")
        }
    };
    let what = format!("/rm/keep ({keep_len} bytes); /rm/gone created through a handle{}, removed{}; then the old handle: {log}", if pending > 0 { format!(" with {pending} bytes left in its buffer") } else { String::new() }, match reuse { 1 => format!(", /rm/new ({} bytes) created in the freed slot", fresh.len()), 2 => ", storage /rm/new created in the freed slot".to_string(), _ => String::new() });
    let cf = sess.cf();
    let mut res: Result<(), Fail> = Ok(());
    let mut got = Vec::new();
    match cf.open_stream("/rm/keep").and_then(|mut s| s.read_to_end(&mut got)) {
        Ok(_) if got == keep => {}
        Ok(_) => res = Err(("handle after removal | another stream was touched".to_string(), format!("{what}; /rm/keep now reads {}", engine::describe_bytes_diff(&keep, &got)))),
        Err(e) => res = Err(("handle after removal | another stream was touched".to_string(), format!("{what}; /rm/keep can no longer be read: {e}"))),
    }
    if res.is_ok() && reuse == 1 {
        let mut got = Vec::new();
        match cf.open_stream("/rm/new").and_then(|mut s| s.read_to_end(&mut got)) {
            Ok(_) if got == fresh => {}
            Ok(_) => res = Err(("handle after removal | the stream now in its old slot was touched".to_string(), format!("{what}; /rm/new now reads {}", engine::describe_bytes_diff(&fresh, &got)))),
            Err(e) => res = Err(("handle after removal | the stream now in its old slot was touched".to_string(), format!("{what}; /rm/new can no longer be read: {e}"))),
        }
    }
    if res.is_ok() && reuse == 2 {
        match cf.entry("/rm/new") {
            Ok(e) if e.is_storage() && e.len() == 0 && e.state_bits() == 0x5151 => {}
            Ok(e) => res = Err(("handle after removal | the storage now in its old slot was touched".to_string(), format!("{what}; /rm/new: is_storage {}, len {}, state {:#x}", e.is_storage(), e.len(), e.state_bits()))),
            Err(e) => res = Err(("handle after removal | the storage now in its old slot was touched".to_string(), format!("{what}; entry(/rm/new): {e}"))),
        }
    }
    if res.is_ok() && cf.exists("/rm/gone") {
        res = Err(("handle after removal | the removed stream is back".to_string(), what.clone()));
    }
    if res.is_ok() {
        let bytes = sess.shared.bytes();
        if let Err(w) = engine::dump_bytes(&bytes, Mode::Strict) {
            res = Err(("handle after removal | the stored file no longer opens (strict)".to_string(), format!("{what}; {w}")));
        } else if let Ok(img) = refparse::parse(&bytes) {
            let r = refparse::check(&img, &bytes);
            if let Some(v) = r.violations.first() {
                res = Err((format!("handle after removal | independent parser | rule {}", v.rule), format!("{what}; {}", v.detail)));
            }
        }
    }
    if res.is_ok() {
        sess.cf().remove_storage_all("/rm").map_err(io("remove_storage_all"))?;
    }
    rep.count("handles_used_after_removal");
    rep.count(&format!("handle_after_removal.slot_{}", match reuse { 1 => "reused_by_stream", 2 => "reused_by_storage", _ => "left_free" }));
    res
}

fn c07_case(ctx: &Ctx, rep: &mut Report, rng: &mut Rng, version: Version, bufsize: Option<usize>, done: &mut Vec<Step>) -> Result<(), Fail> {
    let mut sess = Session::create(version, bufsize).map_err(|e| ("create | ok | err".to_string(), format!("{e}")))?;
    // "every entry's metadata is left as the model predicts" includes the root's: give it
    // a CLSID and state bits that an operation through a handle could lose
    if rng.chance(2, 3) {
        let mut c = [0u8; 16];
        for b in c.iter_mut() {
            *b = rng.next_u32() as u8 | 1;
        }
        run_step(&mut sess, Step::Api(Op::SetClsid("/".into(), c)), done, rep)?;
        run_step(&mut sess, Step::Api(Op::SetState("/".into(), rng.next_u32() | 1)), done, rep)?;
    }
    // sibling sets built middle-first so that interior nodes have two children
    let pool: Vec<&str> = vec!["h", "d", "l", "\u{e9}", "b", "f", "j", "n", "\u{3c9}\u{3bc}", "a", "c", "e", "g", "i", "k", "m", "o", "D", "bb", "hh", "r\u{e9}sum\u{e9}", "zz"];
    let storages = ["/", "/st", "/st/in"];
    run_step(&mut sess, Step::Api(Op::CreateStorageAll("/st/in".into())), done, rep)?;
    let child = |st: &str, n: &str| if st == "/" { format!("/{n}") } else { format!("{st}/{n}") };
    let n_init = rng.range(5, 14) as usize;
    for k in 0..n_init {
        let st = if k < 7 { "/" } else { *rng.pick(&storages) };
        let p = child(st, pool[k % pool.len()]);
        if sess.model.get_path(&p).is_some() {
            continue;
        }
        if rng.chance(1, 6) {
            run_step(&mut sess, Step::Api(Op::CreateStorage(p)), done, rep)?;
        } else {
            let len = gen::pick_size(rng, 9000) as usize;
            run_step(&mut sess, Step::HOpen { slot: 7, path: p, how: OpenHow::CreateNew }, done, rep)?;
            run_step(&mut sess, Step::HWriteAll { slot: 7, len }, done, rep)?;
            run_step(&mut sess, Step::HClose { slot: 7 }, done, rep)?;
        }
    }
    // a third of the histories go on from the same file as another writer might have left
    // it: some nodes of the sibling trees red (a legal colouring), reopened from the bytes
    if rng.chance(1, 3) {
        let mut bytes = sess.shared.bytes();
        let painted = crate::synth::repaint_red(&mut bytes, rng);
        if painted > 0 {
            let mode = if rng.chance(1, 2) { Mode::Strict } else { Mode::Permissive };
            let model = sess.model.clone();
            match Session::open_bytes(bytes, mode, bufsize, model) {
                Ok(s2) => {
                    sess = s2;
                    rep.count("start.repainted_red_nodes");
                    rep.add("red_nodes_painted", painted as u64);
                    // marks the witness: the image is regenerated from the case on replay
                    done.push(Step::Api(Op::Walk));
                }
                Err(e) => return Err(("reopen | a legal recolouring of the sibling trees is rejected".to_string(), format!("{painted} nodes painted red without a red-red edge, tops black; open ({mode:?}) says: {e}"))),
            }
        }
    }
    let hcfg = HCfg { max_len: 20000, extreme_seeks: false, set_len_pct: 6, raw_rw: true, cap_hint: eff_buf(bufsize) };
    let n_ops = if ctx.quick() { rng.range(20, 90) } else { rng.range(40, 300) };
    let mut pending_slot_reuse = false;
    for _ in 0..n_ops {
        if rng.chance(1, 40) {
            if rng.chance(1, 2) {
                listing_across_a_write_episode(&mut sess, rng, rep)?;
            } else {
                recreate_under_a_handle_episode(&mut sess, rng, rep)?;
            }
            continue;
        }
        if rng.chance(1, 40) && sess.model.get_path("/rm").is_none() {
            handle_after_removal_episode(&mut sess, rng, rep)?;
            continue;
        }
        let idx = gen::index(&sess);
        let open = sess.open_slots();
        let w = rng.below(100);
        if (open.len() < 2 || (w < 12 && open.len() < 6)) && !idx.streams.is_empty() {
            // open a long-lived handle, steering onto predecessor / successor / parent of a
            // two-child node when there is one
            let img = refparse::parse(&sess.shared.bytes()).ok();
            let mut target: Option<String> = None;
            if let Some(img) = &img {
                if rng.chance(2, 3) {
                    let log = refparse::logical(img, &sess.shared.bytes()).unwrap_or_default();
                    let two: Vec<&refparse::LEntry> = log.iter().filter(|e| e.path != "/" && refparse::shape_of(img, &e.path).map(|(_, s)| s.has_left && s.has_right).unwrap_or(false)).collect();
                    if !two.is_empty() {
                        let victim = *rng.pick(&two);
                        if let Some((_, sh)) = refparse::shape_of(img, &victim.path) {
                            let cand = match rng.below(3) {
                                0 => sh.predecessor,
                                1 => sh.successor,
                                _ => sh.parent_in_tree,
                            };
                            if let Some(id) = cand {
                                if let Some(e) = log.iter().find(|e| e.entry_idx == id && e.kind == refparse::LKind::Stream) {
                                    target = Some(e.path.clone());
                                }
                            }
                        }
                    }
                }
            }
            let p = target.unwrap_or_else(|| rng.pick(&idx.streams).clone());
            let names = model::normalise(&p).unwrap();
            if sess.handle_on(&names).is_none() {
                let slot = sess.free_slot();
                // a third of the handles are opened under a letter-case variant of the path
                let p = if rng.chance(1, 3) { model::join(&names.iter().map(|n| gen::case_variant(rng, n)).collect::<Vec<_>>()) } else { p };
                run_step(&mut sess, Step::HOpen { slot, path: p, how: OpenHow::Open }, done, rep)?;
                rep.count("long_lived_handles_opened");
            }
            continue;
        }
        if w < 50 && !open.is_empty() {
            // operate through a handle
            let slot = *rng.pick(&open);
            let step = handle_step(rng, &sess, slot, &hcfg);
            if pending_slot_reuse {
                rep.count("handle_ops_after_slot_reuse");
            }
            run_step(&mut sess, step, done, rep)?;
            continue;
        }
        if w < 54 && open.len() > 1 {
            let slot = *rng.pick(&open);
            // flush-and-drop, or just drop (Drop writes the buffer back)
            let st = if rng.chance(1, 2) { Step::HClose { slot } } else { Step::HDrop { slot } };
            run_step(&mut sess, st, done, rep)?;
            continue;
        }
        if w < 80 {
            // structural removal of an entry without a live handle; prefer two-child nodes
            let img = match refparse::parse(&sess.shared.bytes()) {
                Ok(i) => i,
                Err(_) => continue,
            };
            let mut cands: Vec<(String, Kind, bool)> = Vec::new();
            for (p, k) in sess.model.all_paths() {
                if p == "/" || p == "/st" || p == "/st/in" {
                    continue;
                }
                let names = model::normalise(&p).unwrap();
                if sess.handle_under(&names) {
                    continue;
                }
                if k != Kind::Stream && sess.model.get_path(&p).map(|n| !n.children.is_empty()).unwrap_or(true) {
                    continue;
                }
                let two = refparse::shape_of(&img, &p).map(|(_, s)| s.has_left && s.has_right).unwrap_or(false);
                cands.push((p, k, two));
            }
            if cands.is_empty() {
                continue;
            }
            let twos: Vec<&(String, Kind, bool)> = cands.iter().filter(|c| c.2).collect();
            let (p, k, two) = if !twos.is_empty() && rng.chance(3, 5) { (*rng.pick(&twos)).clone() } else { rng.pick(&cands).clone() };
            if two {
                rep.count("two_child_removals");
                // where do the live handles sit relative to the victim?
                if let Some((_, sh)) = refparse::shape_of(&img, &p) {
                    let log = refparse::logical(&img, &sess.shared.bytes()).unwrap_or_default();
                    for (rel, id) in [("predecessor", sh.predecessor), ("successor", sh.successor), ("parent", sh.parent_in_tree)] {
                        if let Some(id) = id {
                            if let Some(e) = log.iter().find(|e| e.entry_idx == id) {
                                if let Some(names) = model::normalise(&e.path) {
                                    if sess.handle_on(&names).is_some() {
                                        rep.count(&format!("two_child_removal_with_handle_on.{rel}"));
                                    }
                                }
                            }
                        }
                    }
                }
            } else {
                rep.count("other_removals");
            }
            let op = if k == Kind::Stream { Op::RemoveStream(p) } else { Op::RemoveStorage(p) };
            run_step(&mut sess, Step::Api(op), done, rep)?;
            // a creation follows most removals so that the freed slot is reused at once
            if rng.chance(4, 5) {
                let st = *rng.pick(&storages);
                let p = child(st, *rng.pick(&pool));
                if sess.model.get_path(&p).is_none() {
                    if !open.is_empty() {
                        rep.count("creations_reusing_slot_with_live_handles");
                        pending_slot_reuse = true;
                    }
                    if rng.chance(1, 5) {
                        run_step(&mut sess, Step::Api(Op::CreateStorage(p)), done, rep)?;
                    } else {
                        let len = gen::pick_size(rng, 9000) as usize;
                        run_step(&mut sess, Step::HOpen { slot: 7, path: p, how: OpenHow::CreateNew }, done, rep)?;
                        run_step(&mut sess, Step::HWriteAll { slot: 7, len }, done, rep)?;
                        run_step(&mut sess, Step::HClose { slot: 7 }, done, rep)?;
                    }
                }
            }
            continue;
        }
        if w < 90 {
            // other structural mutations: create, overwrite / resize other streams, metadata
            let st = *rng.pick(&storages);
            let p = child(st, *rng.pick(&pool));
            match sess.model.get_path(&p).map(|n| n.kind) {
                None => {
                    let len = gen::pick_size(rng, 9000) as usize;
                    run_step(&mut sess, Step::HOpen { slot: 7, path: p, how: OpenHow::Create }, done, rep)?;
                    run_step(&mut sess, Step::HWriteAll { slot: 7, len }, done, rep)?;
                    run_step(&mut sess, Step::HClose { slot: 7 }, done, rep)?;
                }
                Some(Kind::Stream) => {
                    let names = model::normalise(&p).unwrap();
                    if sess.handle_on(&names).is_none() {
                        let len = gen::pick_size(rng, 9000);
                        if rng.chance(1, 2) {
                            run_step(&mut sess, Step::HOpen { slot: 7, path: p, how: OpenHow::Create }, done, rep)?;
                            run_step(&mut sess, Step::HWriteAll { slot: 7, len: len as usize }, done, rep)?;
                        } else {
                            run_step(&mut sess, Step::HOpen { slot: 7, path: p, how: OpenHow::Open }, done, rep)?;
                            run_step(&mut sess, Step::HSetLen { slot: 7, n: len }, done, rep)?;
                        }
                        run_step(&mut sess, Step::HClose { slot: 7 }, done, rep)?;
                    }
                }
                Some(_) => {
                    run_step(&mut sess, Step::Api(Op::SetState(p, rng.next_u32())), done, rep)?;
                }
            }
            continue;
        }
        // checkpoint (about every 4th..10th step); between checkpoints nothing is flushed
        c07_checkpoint(&mut sess, rep, done)?;
        pending_slot_reuse = false;
    }
    c07_checkpoint(&mut sess, rep, done)?;
    if let Some(d) = sess.close_all() {
        return Err((d.signature, format!("{}: expected {}, observed {}", d.step, d.expected, d.observed)));
    }
    c07_checkpoint(&mut sess, rep, done)?;
    let _ = (Gen::new(GenCfg::default()), ctx);
    Ok(())
}

pub fn run_c07(ctx: &Ctx, rep: &mut Report) {
    if crate::props::huge::maybe_run(ctx, rep, "beyond 4 GiB", 5) {
        return;
    }
    let mut i = 0;
    while let Some(case) = ctx.next_case(&mut i) {
        let mut rng = ctx.case_rng(case);
        let version = hist::version_of(&mut rng);
        let bufsize = *rng.pick(&[None, None, Some(1024usize), Some(4096)]);
        let mut done = Vec::new();
        let before = rep.get("two_child_removals");
        let r = guard::catch(|| c07_case(ctx, rep, &mut rng, version, bufsize, &mut done));
        let witness = |done: &Vec<Step>| ctx.witness(case, vec![("version", J::s(vname(version))), ("max_buffer_size", J::s(bufname(bufsize))), ("steps", steps_json(done))]);
        match r {
            Ok(Ok(())) => {}
            Ok(Err((sig, detail))) => rep.finding(sig, detail, witness(&done)),
            Err(p) => rep.finding(p.signature(), format!("panic at {}:{}: {}", p.file, p.line, p.message), witness(&done)),
        }
        if rep.get("two_child_removals") > before {
            let mut h = fnv64_add(0xcbf29ce484222325, vname(version).as_bytes());
            for s in &done {
                h = fnv64_add(h, format!("{:?}", s).as_bytes());
            }
            rep.nontrivial(h);
        }
        if rep.samples.len() < 2 {
            rep.sample(J::obj(vec![("version", J::s(vname(version))), ("steps", steps_json(&done[..done.len().min(40)]))]));
        }
        rep.add("steps", done.len() as u64);
        rep.evaluations += 1;
    }
}
