//! C05 (reading arbitrary bytes never panics, hangs or exhausts memory) and C11
//! (mutating any file the library agreed to open never panics or hangs).

use crate::backend::MonFile;
use crate::common::Ctx;
use crate::corrupt::{self, Emphasis, FieldIndex};
use crate::engine::{self, Mode, OpenHow, Session, Step};
use crate::gen::{Gen, GenCfg};
use crate::guard;
use crate::model::Op;
use crate::refparse::{self, Image};
use crate::report::{hex, Report, J};
use crate::rng::{fnv64, Rng};
use crate::synth::{self, Layout};
use cfb::{CompoundFile, Version};
use std::io::{BufRead, Read, Seek, SeekFrom, Write};

pub struct Base {
    pub bytes: Vec<u8>,
    pub img: Image,
    pub idx: FieldIndex,
    pub origin: String,
}

/// Deterministic pool of valid base images for a shard: library-written (both versions,
/// mini + regular streams, nested storages, several directory sectors) and synthesised
/// foreign layouts.
pub fn base_pool(seed: u64, shard: u64, n: usize) -> Vec<Base> {
    let mut out = Vec::new();
    let mut k = 0u64;
    while out.len() < n && k < 4 * n as u64 {
        let mut rng = Rng::derive(seed, &[0xBA5E, shard, k]);
        k += 1;
        let bytes = if k % 3 == 0 {
            let layout = Layout::random(&mut rng);
            let nn = *rng.pick(&[4usize, 12, 40]);
            let model = synth::random_model(&mut rng, nn, 9000);
            synth::synthesize(&model, &layout, &mut rng).0
        } else {
            let version = if rng.chance(1, 2) { Version::V3 } else { Version::V4 };
            let mut sess = match Session::create(version, None) {
                Ok(s) => s,
                Err(_) => continue,
            };
            let mut cfg = GenCfg::default();
            cfg.refusal_pct = 0;
            cfg.query_pct = 0;
            cfg.reopen_pct = 0;
            cfg.max_size = *rng.pick(&[600, 5000, 9000]);
            cfg.soft_max_objects = *rng.pick(&[6, 14, 40]);
            let gen = Gen::new(cfg);
            let steps = rng.range(5, 60);
            let mut bad = false;
            for _ in 0..steps {
                for st in gen.next(&mut rng, &sess) {
                    if sess.run(&st).is_some() {
                        bad = true;
                    }
                }
            }
            if bad {
                continue;
            }
            let _ = sess.close_all();
            sess.shared.bytes()
        };
        if let Ok(img) = refparse::parse(&bytes) {
            if refparse::check(&img, &bytes).violations.is_empty() {
                let idx = corrupt::index_fields(&img);
                out.push(Base { bytes, img, idx, origin: if k % 3 == 0 { "synthesised".into() } else { "library-written".into() } });
            }
        }
    }
    out
}

pub fn repo_seeds() -> Vec<(String, Vec<u8>)> {
    let mut v = Vec::new();
    for dir in ["/repo/tests/infinite_loops_fuzzed", "/repo/tests/panics_fuzzed"] {
        if let Ok(rd) = std::fs::read_dir(dir) {
            let mut names: Vec<_> = rd.flatten().map(|e| e.path()).collect();
            names.sort();
            for p in names {
                if let Ok(b) = std::fs::read(&p) {
                    v.push((p.to_string_lossy().into_owned(), b));
                }
            }
        }
    }
    v
}

/// Builds the hostile input of a case.
pub fn make_input(rng: &mut Rng, pool: &[Base], seeds: &[(String, Vec<u8>)], emph: Emphasis, rep: &mut Report) -> (Vec<u8>, Vec<String>) {
    let mut desc = Vec::new();
    let w = rng.below(100);
    if w < 5 && emph == Emphasis::Any {
        rep.count("input.random_with_magic");
        return (corrupt::random_with_magic(rng), vec!["random bytes with valid magic".into()]);
    }
    if w < 8 && emph == Emphasis::Any {
        rep.count("input.amplification");
        return (corrupt::amplification_input(rng), vec!["DIFAT amplification".into()]);
    }
    if w < 14 && !seeds.is_empty() {
        let (name, b) = rng.pick(seeds);
        let mut bytes = b.clone();
        desc.push(format!("repo seed {name}"));
        rep.count("input.repo_seed");
        if rng.chance(1, 2) {
            desc.push(corrupt::mutate_file(rng, &mut bytes));
        }
        return (bytes, desc);
    }
    let base = rng.pick(pool);
    let mut bytes = base.bytes.clone();
    desc.push(format!("{} base ({} bytes, v{})", base.origin, bytes.len(), base.img.version));
    rep.count(&format!("input.base.{}", base.origin));
    let mut n_mut = rng.range(1, 4);
    if rng.chance(1, 10) {
        if let Some(d) = corrupt::compound(rng, &mut bytes, &base.img) {
            rep.count("mutation.compound");
            desc.push(d);
            n_mut = rng.below(2); // mostly alone, sometimes with one more field
        }
    }
    for _ in 0..n_mut {
        let d = corrupt::mutate_field(rng, &mut bytes, &base.img, &base.idx, emph);
        let class = d.split(|c: char| !c.is_alphanumeric()).next().unwrap_or("?").to_string();
        rep.count(&format!("mutation.{}", class));
        desc.push(d);
    }
    if emph == Emphasis::Any && rng.chance(1, 8) {
        desc.push(corrupt::mutate_file(rng, &mut bytes));
        rep.count("mutation.file_level");
    }
    (bytes, desc)
}

fn error_family(e: &std::io::Error) -> String {
    let m = e.to_string();
    let f: String = m.split(|c: char| c == '(' || c == ':' || c.is_ascii_digit()).next().unwrap_or("").trim().chars().take(40).collect();
    format!("{:?}:{}", e.kind(), f)
}

const C0: u64 = 8 << 20;
const C1: u64 = 4096;

/// The read-only battery of C05 on one opened file.
fn read_battery(cf: &mut CompoundFile<MonFile>, shared: &crate::backend::Shared, rng: &mut Rng, rep: &mut Report, step_budget: u64) -> Result<(), (String, String)> {
    let api = |shared: &crate::backend::Shared| {
        shared.set_step_budget(step_budget);
    };
    let check = |shared: &crate::backend::Shared, what: &str| -> Result<(), (String, String)> {
        if shared.over_budget() {
            Err((format!("io-steps | {what}"), format!("more than {step_budget} underlying I/O calls inside one {what} call")))
        } else {
            Ok(())
        }
    };
    api(shared);
    let entries: Vec<cfb::Entry> = cf.walk().take(100_000).collect();
    check(shared, "walk")?;
    rep.max("max_entries_walked", entries.len() as u64);
    let _ = cf.root_entry();
    let _ = cf.version();
    api(shared);
    let _ = cf.read_root_storage().take(100_000).count();
    let mut n_streams = 0;
    for e in entries.iter().take(60) {
        let p = e.path().to_path_buf();
        api(shared);
        let _ = cf.entry(&p);
        let _ = cf.exists(&p);
        let _ = cf.is_stream(&p);
        let _ = cf.is_storage(&p);
        if e.is_storage() {
            api(shared);
            if let Ok(it) = cf.read_storage(&p) {
                let _ = it.take(100_000).count();
            }
            check(shared, "read_storage")?;
            if rng.chance(1, 4) {
                api(shared);
                if let Ok(it) = cf.walk_storage(&p) {
                    let _ = it.take(100_000).count();
                }
                check(shared, "walk_storage")?;
            }
        } else {
            n_streams += 1;
            if n_streams > 25 {
                continue;
            }
            api(shared);
            let mut s = match cf.open_stream(&p) {
                Ok(s) => s,
                Err(e) => {
                    rep.set_insert("error_families", error_family(&e));
                    continue;
                }
            };
            let len = s.len();
            rep.count("streams_opened");
            let mut total = 0u64;
            let mut buf = vec![0u8; 5000];
            // reads in odd chunk sizes
            for _ in 0..40 {
                let n = *rng.pick(&[1usize, 7, 63, 64, 65, 511, 513, 1000, 4097, 5000]);
                api(shared);
                match s.read(&mut buf[..n]) {
                    Ok(0) => break,
                    Ok(k) => total += k as u64,
                    Err(e) => {
                        rep.set_insert("error_families", error_family(&e));
                        break;
                    }
                }
                check(shared, "read")?;
                if total > 200_000 {
                    break;
                }
            }
            // seeks, including extremes
            for from in [SeekFrom::Start(0), SeekFrom::End(0), SeekFrom::End(i64::MIN), SeekFrom::Current(i64::MIN), SeekFrom::Current(i64::MAX), SeekFrom::Start(u64::MAX), SeekFrom::Start(len / 2), SeekFrom::End(-((len / 3).min(i64::MAX as u64) as i64)), SeekFrom::Start(len)] {
                api(shared);
                let _ = s.seek(from);
                check(shared, "seek")?;
            }
            api(shared);
            let _ = s.seek(SeekFrom::Start(len / 2));
            api(shared);
            match s.fill_buf() {
                Ok(b) => {
                    let k = b.len() / 2;
                    s.consume(k);
                }
                Err(e) => rep.set_insert("error_families", error_family(&e)),
            }
            check(shared, "fill_buf")?;
            if len <= 300_000 || rng.chance(1, 4) {
                api(shared);
                let _ = s.seek(SeekFrom::Start(0));
                let mut v = Vec::new();
                api(shared);
                // every other time through the handle's own read_to_end (which a length
                // taken on trust could turn into one huge reservation; what can really be
                // read is bounded by the file), otherwise through a capped adapter
                let r = if rng.chance(1, 2) { s.read_to_end(&mut v) } else { (&mut s).take(3_000_000).read_to_end(&mut v) };
                if let Err(e) = r {
                    rep.set_insert("error_families", error_family(&e));
                }
                check(shared, "read_to_end")?;
            }
            let _ = s.stream_position();
        }
    }
    // lookups *below* objects the walk has shown - also below streams, which have no
    // children to look among (whatever their child field says)
    for e in entries.iter().take(40) {
        for leaf in ["x", "Foo", "\u{e9}"] {
            let q = e.path().join(leaf);
            api(shared);
            let _ = cf.exists(&q);
            let _ = cf.is_stream(&q);
            let _ = cf.is_storage(&q);
            let _ = cf.entry(&q);
            check(shared, "lookup below an object")?;
            api(shared);
            if let Ok(it) = cf.read_storage(&q) {
                let _ = it.take(1000).count();
            }
            if let Ok(it) = cf.walk_storage(&q) {
                let _ = it.take(1000).count();
            }
            if let Ok(mut s) = cf.open_stream(&q) {
                let mut b = [0u8; 64];
                let _ = s.read(&mut b);
            }
            check(shared, "listing / opening below an object")?;
            rep.count("lookups_below_listed_objects");
        }
    }
    for p in ["/", "", "/nope", "a/../..", "/a:b", "//", "/\u{1F600}", "/x/y/z/../../q"] {
        api(shared);
        let _ = cf.entry(p);
        let _ = cf.exists(p);
        let _ = cf.is_storage(p);
        if let Ok(it) = cf.read_storage(p) {
            let _ = it.take(1000).count();
        }
    }
    check(shared, "lookups")?;
    shared.set_step_budget(0);
    let _ = format!("{:?}", entries.first());
    Ok(())
}

fn input_witness(ctx: &Ctx, case: u64, bytes: &[u8], desc: &[String], extra: Vec<(&str, J)>) -> J {
    let mut v = vec![("input_len", J::Int(bytes.len() as i128)), ("input_fnv64", J::s(format!("{:016x}", fnv64(bytes)))), ("how_built", J::Arr(desc.iter().map(|d| J::s(d.clone())).collect()))];
    if bytes.len() <= 70_000 {
        v.push(("input_hex", J::s(hex(bytes))));
    }
    v.extend(extra);
    ctx.witness(case, v)
}

fn load_input(ctx: &Ctx) -> Option<Vec<u8>> {
    ctx.input_file.as_ref().and_then(|p| std::fs::read(p).ok())
}

pub fn run_c05(ctx: &Ctx, rep: &mut Report) {
    let pool = base_pool(ctx.seed, ctx.shard, if ctx.quick() { 24 } else { 64 });
    let seeds = repo_seeds();
    if pool.is_empty() {
        rep.inconclusive("no valid base image could be built".into());
        return;
    }
    guard::set_alloc_cap(1 << 30);
    if crate::props::wide::maybe_run(ctx, rep, crate::props::wide::Role::Hostile, 0, 4) {
        return;
    }
    let mut i = 0;
    while let Some(case) = ctx.next_case(&mut i) {
        let mut rng = ctx.case_rng(case);
        let (bytes, desc) = match load_input(ctx) {
            Some(b) => (b, vec!["explicit input file".to_string()]),
            None => make_input(&mut rng, &pool, &seeds, Emphasis::Any, rep),
        };
        rep.evaluations += 1;
        let len = bytes.len() as u64;
        let step_budget = 64 * (len / 64 + 8) * (len / 64 + 8);
        let bufsize = *rng.pick(&[Some(0usize), Some(4096), None]);
        let mut past_header = false;
        for mode in [Mode::Permissive, Mode::Strict] {
            let mut rng2 = rng.clone();
            guard::alloc_begin();
            let r = guard::catch(|| -> Result<bool, (String, String)> {
                let (file, shared) = MonFile::new(bytes.clone());
                shared.set_step_budget(step_budget);
                let opened = engine::open_with(file, mode, bufsize);
                if shared.over_budget() {
                    return Err(("io-steps | open".to_string(), format!("more than {step_budget} underlying I/O calls inside open")));
                }
                match opened {
                    Ok(mut cf) => {
                        read_battery(&mut cf, &shared, &mut rng2, rep, step_budget)?;
                        Ok(true)
                    }
                    Err(e) => {
                        rep.set_insert("error_families", error_family(&e));
                        if !e.to_string().contains("magic") && !e.to_string().contains("too small") {
                            rep.count("rejected_after_header");
                        }
                        Ok(false)
                    }
                }
            });
            let (peak, _total) = guard::alloc_end();
            // the harness's own copy of the input is inside the measured region
            let lib_peak = peak.saturating_sub(len);
            rep.max("max_peak_heap_bytes", lib_peak);
            if len > 0 {
                rep.max("max_peak_heap_per_input_byte_x100", lib_peak * 100 / len.max(512));
            }
            match r {
                Ok(Ok(accepted)) => {
                    if accepted {
                        rep.count(&format!("accepted.{:?}", mode));
                        past_header = true;
                    } else {
                        rep.count(&format!("rejected.{:?}", mode));
                    }
                }
                Ok(Err((sig, detail))) => rep.finding(sig, detail, input_witness(ctx, case, &bytes, &desc, vec![("mode", J::s(format!("{mode:?}")))])),
                Err(p) => rep.finding(p.signature(), format!("[{mode:?}] panic at {}:{}: {}", p.file, p.line, p.message), input_witness(ctx, case, &bytes, &desc, vec![("mode", J::s(format!("{mode:?}")))])),
            }
            if lib_peak > C0 + C1 * len {
                rep.finding("memory | peak heap not proportional to the input".to_string(), format!("[{mode:?}] peak heap {lib_peak} bytes for an input of {len} bytes (bound {} + {}*len)", C0, C1), input_witness(ctx, case, &bytes, &desc, vec![]));
            }
        }
        if past_header || rep.get("rejected_after_header") > 0 {
            rep.nontrivial(fnv64(&bytes));
        }
        if rep.samples.len() < 3 {
            rep.sample(J::obj(vec![("how_built", J::Arr(desc.iter().map(|d| J::s(d.clone())).collect())), ("input_len", J::Int(len as i128))]));
        }
    }
}

// ------------------------------------------------------------------ C11

/// A stream handle that is dropped normally on the success/error paths but *leaked* when
/// a panic unwinds through it: `Stream::drop` writes back buffered data and would hit
/// the same broken state again - a second panic during unwinding aborts the worker and
/// hides the first panic's location, which is the finding.
struct NoDropOnPanic<T>(std::mem::ManuallyDrop<T>);

impl<T> NoDropOnPanic<T> {
    fn new(t: T) -> Self {
        NoDropOnPanic(std::mem::ManuallyDrop::new(t))
    }
    fn done(mut self) {
        unsafe { std::mem::ManuallyDrop::drop(&mut self.0) };
        std::mem::forget(self);
    }
}
impl<T> Drop for NoDropOnPanic<T> {
    fn drop(&mut self) {
        if !std::thread::panicking() {
            unsafe { std::mem::ManuallyDrop::drop(&mut self.0) };
        }
    }
}
impl<T> std::ops::Deref for NoDropOnPanic<T> {
    type Target = T;
    fn deref(&self) -> &T {
        &self.0
    }
}
impl<T> std::ops::DerefMut for NoDropOnPanic<T> {
    fn deref_mut(&mut self) -> &mut T {
        &mut self.0
    }
}

fn mutate_battery(cf: &mut CompoundFile<MonFile>, rng: &mut Rng, rep: &mut Report, log: &mut Vec<String>) {
    let existing: Vec<(std::path::PathBuf, bool)> = cf.walk().take(2000).map(|e| (e.path().to_path_buf(), e.is_stream())).collect();
    let streams: Vec<&std::path::PathBuf> = existing.iter().filter(|e| e.1).map(|e| &e.0).collect();
    let storages: Vec<&std::path::PathBuf> = existing.iter().filter(|e| !e.1).map(|e| &e.0).collect();
    let n_ops = rng.range(3, 12);
    let sizes: &[usize] = &[0, 5, 64, 200, 4095, 4096, 5000, 70_000];
    let note = |rep: &mut Report, op: &str, r: std::io::Result<()>, log: &mut Vec<String>| {
        rep.count(&format!("op.{op}"));
        match &r {
            Ok(()) => {
                if std::env::var_os("CFBMON_TRACE").is_some() {
                    eprintln!("  {op} -> Ok");
                }
                log.push(format!("{op} -> Ok"))
            }
            Err(e) => {
                rep.set_insert("error_families", error_family(e));
                log.push(format!("{op} -> Err({:?})", e.kind()));
            }
        }
    };
    for k in 0..n_ops {
        let parent = storages.get(rng.usize_below(storages.len().max(1))).map(|p| p.to_path_buf()).unwrap_or_else(|| "/".into());
        let newp = parent.join(format!("n{}", rng.below(4)));
        let some_stream = streams.get(rng.usize_below(streams.len().max(1))).map(|p| p.to_path_buf());
        let which = rng.below(13);
        if std::env::var_os("CFBMON_TRACE").is_some() {
            eprintln!("  op kind {which}: newp={newp:?} some_stream={some_stream:?}");
        }
        match which {
            0 => {
                let r = cf.create_storage(&newp);
                note(rep, "create_storage", r, log);
            }
            1 | 2 => {
                let size = *rng.pick(sizes);
                let r = (|| {
                    let mut s = NoDropOnPanic::new(cf.create_stream(&newp)?);
                    s.write_all(&engine::payload(k, size))?;
                    s.flush()?;
                    s.done();
                    Ok(())
                })();
                note(rep, &format!("create_stream+write({size})"), r, log);
            }
            3 | 4 => {
                if let Some(p) = &some_stream {
                    let size = *rng.pick(sizes);
                    let at_end = rng.chance(1, 2);
                    let r = (|| {
                        let mut s = NoDropOnPanic::new(cf.open_stream(p)?);
                        if at_end {
                            s.seek(SeekFrom::End(0))?;
                        }
                        s.write_all(&engine::payload(k, size))?;
                        s.flush()?;
                        s.done();
                        Ok(())
                    })();
                    note(rep, &format!("open_stream+write({size})"), r, log);
                }
            }
            5 | 6 => {
                if let Some(p) = &some_stream {
                    let size = *rng.pick(&[0u64, 1, 63, 64, 65, 4095, 4096, 4097, 8192, 70_000]);
                    let r = (|| {
                        let mut s = NoDropOnPanic::new(cf.open_stream(p)?);
                        s.set_len(size)?;
                        s.flush()?;
                        s.done();
                        Ok(())
                    })();
                    note(rep, &format!("set_len({size})"), r, log);
                }
            }
            7 => {
                if let Some(p) = &some_stream {
                    let r = cf.remove_stream(p);
                    note(rep, "remove_stream", r, log);
                }
            }
            8 => {
                let p = storages.get(rng.usize_below(storages.len().max(1))).map(|p| p.to_path_buf()).unwrap_or_else(|| "/".into());
                let r = if rng.chance(1, 2) { cf.remove_storage(&p) } else { cf.remove_storage_all(&p) };
                note(rep, "remove_storage(_all)", r, log);
            }
            9 => {
                let p = existing.get(rng.usize_below(existing.len().max(1))).map(|e| e.0.clone()).unwrap_or_else(|| "/".into());
                let r = match rng.below(4) {
                    0 => cf.set_state_bits(&p, rng.next_u32()),
                    1 => cf.set_storage_clsid(&p, uuid::Uuid::from_bytes([7; 16])),
                    2 => cf.touch(&p),
                    _ => cf.set_created_time(&p, std::time::UNIX_EPOCH),
                };
                note(rep, "metadata", r, log);
            }
            12 => {
                // two handles on one stream, both used: appends, overwrites, resizes, flushes
                if let Some(p) = &some_stream {
                    let grow = rng.chance(1, 2);
                    let r = (|| {
                        let mut a = NoDropOnPanic::new(cf.open_stream(p)?);
                        let mut b = NoDropOnPanic::new(cf.open_stream(p)?);
                        if grow {
                            b.seek(SeekFrom::End(0))?;
                            b.write_all(&engine::payload(k, 100))?;
                        } else {
                            // (a damaged length field can claim terabytes; resizing to a third of
                            // that is a legitimate request for terabytes, not what is probed here)
                            let l = b.len().min(1 << 20);
                            b.set_len(l / 3)?;
                        }
                        b.flush()?;
                        if rng.chance(1, 2) {
                            // the stale handle reads on to wherever the data ends, then asks
                            // where it is and moves relative to that
                            let mut v = Vec::new();
                            let _ = (&mut *a).take(1 << 20).read_to_end(&mut v);
                            let _ = a.stream_position();
                            let _ = a.seek(SeekFrom::Current(0));
                            let _ = a.seek(SeekFrom::Current(-1));
                            let _ = a.seek(SeekFrom::Current(1000));
                        }
                        a.seek(SeekFrom::Start(0))?;
                        a.write_all(&engine::payload(k + 1, 20))?;
                        a.flush()?;
                        let l = a.len();
                        let _ = a.seek(SeekFrom::Start(l));
                        let _ = a.write_all(&[7u8; 10]);
                        let _ = a.flush();
                        let _ = b.flush();
                        a.done();
                        b.done();
                        Ok(())
                    })();
                    note(rep, if grow { "two_handles(grow)" } else { "two_handles(shrink)" }, r, log);
                }
            }
            10 => {
                if let Some(p) = &some_stream {
                    let r = (|| {
                        let mut s = NoDropOnPanic::new(cf.open_stream(p)?);
                        let mut v = Vec::new();
                        if rng.chance(1, 2) {
                            s.read_to_end(&mut v)?;
                        } else {
                            (&mut *s).take(1_000_000).read_to_end(&mut v)?;
                        }
                        s.done();
                        Ok(())
                    })();
                    note(rep, "read_to_end", r, log);
                }
            }
            _ => {
                let r = cf.flush();
                note(rep, "flush", r, log);
                let _ = cf.walk().take(5000).count();
            }
        }
    }
}


/// Base images for the alias episode: every object in the root storage, `n_small` streams of
/// 4000 bytes (a MiniFAT chain of several sectors, a directory chain of several sectors, a
/// long mini stream container) and two regular streams.
fn alias_base(version: Version, n_small: usize) -> Option<Vec<u8>> {
    let (file, shared) = MonFile::new(Vec::new());
    let mut cf = CompoundFile::create_with_version(version, file).ok()?;
    for i in 0..n_small {
        let mut s = cf.create_stream(format!("/m{i:02}")).ok()?;
        s.write_all(&engine::payload(i as u64, 4000)).ok()?;
        s.flush().ok()?;
    }
    for (name, len) in [("/victim", 5000usize), ("/big", 9000)] {
        let mut s = cf.create_stream(name).ok()?;
        s.write_all(&engine::payload(77, len)).ok()?;
        s.flush().ok()?;
    }
    cf.flush().ok()?;
    drop(cf);
    Some(shared.bytes())
}

/// The alias episode of C11: `/victim`'s directory entry is made to name one of the chains
/// the format keeps for itself (MiniFAT, directory, mini stream container) as its data.
/// Open looks at no stream's chain, so the file is accepted.  The stream is then shortened by
/// whole sectors (which frees sectors of that structure), overwritten, or removed, and the
/// small streams, whose bookkeeping lives there, are removed, resized, written and created.
/// Every call may answer Ok or Err; none may panic or spin.
fn alias_episode(rng: &mut Rng, bases: &[(Vec<u8>, Image)], rep: &mut Report, log: &mut Vec<String>, bytes_out: &mut Vec<u8>, desc: &mut Vec<String>) -> bool {
    let (base, img) = rng.pick(bases);
    let mut bytes = base.clone();
    let (what, chain): (&str, &Vec<u32>) = match rng.below(3) {
        0 => ("MiniFAT chain", &img.minifat_chain),
        1 => ("directory chain", &img.dir_chain),
        _ => ("mini stream container", &img.ministream_chain),
    };
    desc.push(format!("alias base ({} bytes, v{}, {} MiniFAT sectors, {} directory sectors)", bytes.len(), img.version, img.minifat_chain.len(), img.dir_chain.len()));
    let victim = match img.entries.iter().find(|e| e.obj_type == 2 && e.name().as_deref() == Some("victim")) {
        Some(v) => v,
        None => return false,
    };
    if chain.is_empty() {
        return false;
    }
    let from = if rng.chance(3, 4) { 0 } else { rng.usize_below(chain.len()) };
    let held = ((chain.len() - from) * img.sector_len) as u64;
    let len = match rng.below(3) {
        0 => held,
        1 => held.saturating_sub(rng.below(img.sector_len as u64)),
        _ => held + img.sector_len as u64,
    }
    .max(4096);
    bytes[victim.off + 116..victim.off + 120].copy_from_slice(&chain[from].to_le_bytes());
    bytes[victim.off + 120..victim.off + 128].copy_from_slice(&len.to_le_bytes());
    desc.push(format!("/victim (entry {}) starts at sector {} = position {from} of the {what} ({} sectors), size {len}", victim.idx, chain[from], chain.len()));
    rep.count(&format!("alias.{}", what.replace(' ', "_")));
    *bytes_out = bytes.clone();
    let (file, _shared) = MonFile::new(bytes);
    let mut cf = match engine::open_with(file, Mode::Permissive, *rng.pick(&[Some(1024usize), None])) {
        Ok(cf) => cf,
        Err(_) => {
            rep.count("alias.rejected_by_open");
            return false;
        }
    };
    let sl = img.sector_len as u64;
    let n_small = img.entries.iter().filter(|e| e.obj_type == 2 && e.size == 4000).count();
    let note = |rep: &mut Report, op: String, r: std::io::Result<()>, log: &mut Vec<String>| {
        rep.count(&format!("alias.op.{}", op.split('(').next().unwrap_or("?")));
        match &r {
            Ok(()) => {
                rep.count("alias.ok");
                log.push(format!("{op} -> Ok"))
            }
            Err(e) => {
                rep.set_insert("error_families", error_family(e));
                log.push(format!("{op} -> Err({:?})", e.kind()));
            }
        }
    };
    // first what is done to the aliasing stream
    let first = rng.below(5);
    match first {
        0 | 1 => {
            let k = rng.range(1, 3) as u64;
            let target = len.saturating_sub(k * sl).max(4096);
            let r = (|| {
                let mut s = NoDropOnPanic::new(cf.open_stream("/victim")?);
                s.set_len(target)?;
                s.flush()?;
                s.done();
                Ok(())
            })();
            note(rep, format!("victim.set_len({target})"), r, log);
        }
        2 => {
            let r = cf.remove_stream("/victim");
            note(rep, "victim.remove".into(), r, log);
        }
        3 => {
            let at = rng.below(len);
            let n = *rng.pick(&[4usize, 64, 600, 5000]);
            let r = (|| {
                let mut s = NoDropOnPanic::new(cf.open_stream("/victim")?);
                s.seek(SeekFrom::Start(at))?;
                s.write_all(&vec![0xFFu8; n])?;
                s.flush()?;
                s.done();
                Ok(())
            })();
            note(rep, format!("victim.write({n} x 0xFF at {at})"), r, log);
        }
        _ => {
            let target = *rng.pick(&[0u64, 100, 4095]);
            let r = (|| {
                let mut s = NoDropOnPanic::new(cf.open_stream("/victim")?);
                s.set_len(target)?;
                s.flush()?;
                s.done();
                Ok(())
            })();
            note(rep, format!("victim.set_len({target})"), r, log);
        }
    }
    // then the objects whose bookkeeping lives in that structure, the last ones first
    let n_ops = rng.range(3, 10);
    for k in 0..n_ops {
        let i = if rng.chance(2, 3) { n_small.saturating_sub(1 + (k as usize) / 2) } else { rng.usize_below(n_small.max(1)) };
        let p = format!("/m{i:02}");
        match rng.below(7) {
            0 | 1 => {
                let r = cf.remove_stream(&p);
                note(rep, format!("remove_stream({p})"), r, log);
            }
            2 => {
                let target = *rng.pick(&[0u64, 64, 3000, 4095, 4096, 9000]);
                let r = (|| {
                    let mut s = NoDropOnPanic::new(cf.open_stream(&p)?);
                    s.set_len(target)?;
                    s.flush()?;
                    s.done();
                    Ok(())
                })();
                note(rep, format!("set_len({p}, {target})"), r, log);
            }
            3 => {
                let r = (|| {
                    let mut s = NoDropOnPanic::new(cf.open_stream(&p)?);
                    s.seek(SeekFrom::End(0))?;
                    s.write_all(&engine::payload(k, 90))?;
                    s.flush()?;
                    let mut v = Vec::new();
                    s.seek(SeekFrom::Start(0))?;
                    (&mut *s).take(1 << 20).read_to_end(&mut v)?;
                    s.done();
                    Ok(())
                })();
                note(rep, format!("append+read({p})"), r, log);
            }
            4 => {
                let q = format!("/x{k}");
                let size = *rng.pick(&[1usize, 64, 4000, 4096, 20_000]);
                let r = (|| {
                    let mut s = NoDropOnPanic::new(cf.create_stream(&q)?);
                    s.write_all(&engine::payload(k, size))?;
                    s.flush()?;
                    s.done();
                    Ok(())
                })();
                note(rep, format!("create_stream+write({q}, {size})"), r, log);
            }
            5 => {
                let q = format!("/dir{k}/a/b");
                let r = cf.create_storage_all(&q);
                note(rep, format!("create_storage_all({q})"), r, log);
            }
            _ => {
                let r = cf.flush();
                note(rep, "flush".into(), r, log);
                let _ = cf.walk().take(5000).count();
                if let Ok(mut s) = cf.open_stream("/victim") {
                    let mut v = Vec::new();
                    let _ = (&mut s).take(1 << 20).read_to_end(&mut v);
                }
            }
        }
    }
    true
}

pub fn run_c11(ctx: &Ctx, rep: &mut Report) {
    let pool = base_pool(ctx.seed, ctx.shard, if ctx.quick() { 24 } else { 64 });
    let seeds = repo_seeds();
    if pool.is_empty() {
        rep.inconclusive("no valid base image could be built".into());
        return;
    }
    guard::set_alloc_cap(1 << 30);
    let mut alias_bases: Vec<(Vec<u8>, Image)> = Vec::new();
    for (version, n_small) in [(Version::V3, 18usize), (Version::V3, 5), (Version::V4, 40), (Version::V4, 18)] {
        if let Some(b) = alias_base(version, n_small) {
            if let Ok(img) = refparse::parse(&b) {
                alias_bases.push((b, img));
            }
        }
    }
    if alias_bases.len() < 4 {
        rep.inconclusive("alias base images could not be built".into());
        return;
    }
    let mut i = 0;
    while let Some(case) = ctx.next_case(&mut i) {
        let mut rng = ctx.case_rng(case);
        if load_input(ctx).is_none() && case % 16 == 5 {
            // the alias episode (see alias_episode)
            rep.evaluations += 1;
            let mut log: Vec<String> = Vec::new();
            let (mut bytes, mut desc, mut accepted) = (Vec::new(), Vec::new(), false);
            let r = guard::catch(|| {
                accepted = alias_episode(&mut rng, &alias_bases, rep, &mut log, &mut bytes, &mut desc);
            });
            if accepted || r.is_err() {
                rep.count("alias.episodes");
                rep.nontrivial(fnv64(&bytes) ^ fnv64(log.join(";").as_bytes()));
            }
            if let Err(p) = r {
                rep.finding(p.signature(), format!("panic at {}:{}: {} (after: {})", p.file, p.line, p.message, log.join("; ")), input_witness(ctx, case, &bytes, &desc, vec![("calls_before_panic", J::Arr(log.iter().map(|l| J::s(l.clone())).collect()))]));
            }
            continue;
        }
        let (bytes, desc) = match load_input(ctx) {
            Some(b) => (b, vec!["explicit input file".to_string()]),
            None => make_input(&mut rng, &pool, &seeds, Emphasis::PostOpen, rep),
        };
        rep.evaluations += 1;
        let bufsize = *rng.pick(&[Some(1024usize), None]);
        if ctx.verbose {
            eprintln!("case {case}: input {} bytes, built by {:?}", bytes.len(), desc);
            let _ = std::fs::write(format!("{}.input", ctx.out), &bytes);
        }
        let mut log: Vec<String> = Vec::new();
        let mut accepted = false;
        let r = guard::catch(|| {
            let (file, _shared) = MonFile::new(bytes.clone());
            match engine::open_with(file, Mode::Permissive, bufsize) {
                Ok(mut cf) => {
                    accepted = true;
                    mutate_battery(&mut cf, &mut rng, rep, &mut log);
                }
                Err(e) => {
                    rep.set_insert("open_error_families", error_family(&e));
                }
            }
        });
        if accepted {
            rep.count("accepted_by_permissive_open");
            rep.nontrivial(fnv64(&bytes));
        } else {
            rep.count("rejected_by_permissive_open");
        }
        if let Err(p) = r {
            rep.finding(p.signature(), format!("panic at {}:{}: {} (after: {})", p.file, p.line, p.message, log.join("; ")), input_witness(ctx, case, &bytes, &desc, vec![("calls_before_panic", J::Arr(log.iter().map(|l| J::s(l.clone())).collect()))]));
        }
        if accepted && rep.samples.len() < 3 {
            rep.sample(J::obj(vec![("how_built", J::Arr(desc.iter().map(|d| J::s(d.clone())).collect())), ("calls", J::Arr(log.iter().map(|l| J::s(l.clone())).collect()))]));
        }
    }
    let _ = (OpenHow::Open, Step::FlushFile, Op::Walk);
}
