//! C01 - namespace and content operations agree with the abstract tree model.

use crate::common::Ctx;
use crate::engine::{Session, Step};
use crate::gen::{Gen, GenCfg};
use crate::model::{Expect, Op};
use crate::refparse;
use crate::report::{Report, J};
use crate::rng::{fnv64_add, Rng};
use crate::guard;
use cfb::Version;

pub fn steps_json(steps: &[Step]) -> J {
    J::Arr(steps.iter().map(|s| J::s(format!("{:?}", s))).collect())
}

pub fn version_of(rng: &mut Rng) -> Version {
    if rng.chance(1, 2) {
        Version::V3
    } else {
        Version::V4
    }
}

pub fn vname(v: Version) -> &'static str {
    match v {
        Version::V3 => "V3",
        Version::V4 => "V4",
    }
}

/// Coverage bookkeeping for one executed step (shared with other properties).
pub fn note_step(rep: &mut Report, sess: &Session, step: &Step, pre_bytes: Option<&[u8]>) {
    rep.count(&format!("op.{}", step.name()));
    if let Step::Api(op) = step {
        if let (Op::RemoveStream(p) | Op::RemoveStorage(p), Some(bytes)) = (op, pre_bytes) {
            if let Ok(img) = refparse::parse(bytes) {
                if let Some(norm) = crate::model::normalise(p) {
                    if let Some((_, sh)) = refparse::shape_of(&img, &crate::model::join(&norm)) {
                        let k = sh.has_left as u32 + sh.has_right as u32;
                        rep.count(&format!("removal_children.{k}"));
                        rep.max("max_sibling_depth", sh.depth as u64);
                    }
                }
            }
        }
    }
    let _ = sess;
}

pub fn run(ctx: &Ctx, rep: &mut Report) {
    let mut i = 0;
    while let Some(case) = ctx.next_case(&mut i) {
        let mut rng = ctx.case_rng(case);
        run_case(ctx, case, &mut rng, rep);
        rep.evaluations += 1;
    }
}

fn run_case(ctx: &Ctx, case: u64, rng: &mut Rng, rep: &mut Report) {
    let version = version_of(rng);
    let max_steps = if ctx.quick() { rng.range(10, 80) } else { rng.range(20, 300) } as usize;
    let mut cfg = GenCfg::default();
    cfg.refusal_pct = *rng.pick(&[10, 25, 40]);
    cfg.reopen_pct = *rng.pick(&[0, 3, 10]);
    cfg.soft_max_objects = *rng.pick(&[8, 20, 45]);
    if rng.chance(1, 3) {
        cfg.max_size = 5000;
    }
    let gen = Gen::new(cfg);
    let mut done: Vec<Step> = Vec::new();
    let mut h = fnv64_add(0xcbf29ce484222325, vname(version).as_bytes());
    let mut saw_removal = false;
    let mut saw_large = false;
    let res = guard::catch(|| {
        let mut sess = match Session::create(version, None) {
            Ok(s) => s,
            Err(e) => return Err(("create | ok | err".to_string(), format!("create failed: {e}"))),
        };
        let mut n = 0;
        while n < max_steps {
            let steps = gen.next(rng, &sess);
            for step in steps {
                n += 1;
                let pre = if matches!(step, Step::Api(Op::RemoveStream(_)) | Step::Api(Op::RemoveStorage(_))) { Some(sess.shared.bytes()) } else { None };
                // classify the model's expectation for coverage before running
                if let Step::Api(op) = &step {
                    let mut probe = sess.model.clone();
                    if let Expect::Refuse { classes, .. } = probe.apply(op) {
                        for c in classes {
                            rep.count(&format!("refusal.{c}"));
                        }
                    }
                    if matches!(op, Op::RemoveStream(_) | Op::RemoveStorage(_) | Op::RemoveStorageAll(_)) {
                        saw_removal = true;
                    }
                }
                if let Step::HWriteAll { len, .. } = &step {
                    if *len >= 4096 {
                        saw_large = true;
                    }
                    rep.count(&format!("size_class.{}", size_class(*len as u64)));
                }
                h = fnv64_add(h, format!("{:?}", step).as_bytes());
                done.push(step.clone());
                note_step(rep, &sess, &step, pre.as_deref());
                if let Some(d) = sess.run(&step) {
                    return Err((d.signature.clone(), format!("step #{} {}: expected {}, observed {}", d.step_index, d.step, d.expected, d.observed)));
                }
                if let Step::Reopen(m) = &step {
                    rep.count(&format!("reopen.{:?}", m));
                }
            }
            if !sess.any_dirty() && sess.open_slots().is_empty() {
                let deep = rng.chance(1, 4);
                match sess.check_against_model(deep) {
                    Ok(k) => {
                        rep.count("dumps_compared");
                        rep.max("max_objects", k as u64);
                    }
                    Err(why) => return Err(("dump | model | mismatch".to_string(), format!("after step #{}: {}", done.len(), why))),
                }
            }
        }
        Ok(())
    });
    let witness = |done: &Vec<Step>| ctx.witness(case, vec![("version", J::s(vname(version))), ("steps", steps_json(done))]);
    match res {
        Ok(Ok(())) => {}
        Ok(Err((sig, detail))) => rep.finding(sig, detail, witness(&done)),
        Err(p) => rep.finding(p.signature(), format!("panic at {}:{}: {}", p.file, p.line, p.message), witness(&done)),
    }
    if saw_removal && saw_large {
        rep.nontrivial(h);
    }
    rep.add("steps", done.len() as u64);
    if rep.samples.len() < 2 {
        rep.sample(J::obj(vec![("version", J::s(vname(version))), ("steps", steps_json(&done[..done.len().min(25)]))]));
    }
}

pub fn size_class(n: u64) -> &'static str {
    match n {
        0 => "0",
        1..=63 => "lt64",
        64 => "64",
        65..=4095 => "mini",
        4096 => "4096",
        4097..=65535 => "regular",
        _ => "ge64k",
    }
}
