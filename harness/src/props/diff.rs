//! C18 - results do not depend on buffering, I/O chunking, backend or run.
//!
//! A history is generated once (model-checked, exact-count calls only, storage times
//! pinned through the API), then replayed by a backend-generic executor under several
//! configurations; per-call normalised outcomes, final dump and final bytes are
//! compared.

use crate::backend::{MonFile, Perturb};
use crate::common::Ctx;
use crate::engine::{self, payload, OpenHow, Session, Step};
use crate::gen::{Gen, GenCfg};
use crate::guard;
use crate::model::{Kind, Op};
use crate::props::handles::{handle_step, HCfg};
use crate::props::hist::{steps_json, vname, Fail};
use crate::report::{Report, J};
use crate::rng::{fnv64, fnv64_add, Rng};
use cfb::{CompoundFile, OpenOptions, Stream, Version};
use std::io::{BufRead, Read, Seek, Write};

pub struct Replayer<F> {
    pub cf: CompoundFile<F>,
    pub streams: Vec<Option<Stream<F>>>,
    pub write_counter: u64,
}

fn norm_err(e: &std::io::Error) -> String {
    format!("err:{:?}", e.kind())
}

impl<F: Read + Write + Seek> Replayer<F> {
    pub fn new(cf: CompoundFile<F>) -> Replayer<F> {
        Replayer { cf, streams: Vec::new(), write_counter: 0 }
    }

    /// Executes a step, returning its normalised outcome.
    pub fn step(&mut self, step: &Step) -> String {
        let slot_of = |s: &Step| match s {
            Step::HOpen { slot, .. } | Step::HRead { slot, .. } | Step::HReadExact { slot, .. } | Step::HFill { slot, .. } | Step::HWrite { slot, .. } | Step::HWriteAll { slot, .. } | Step::HWriteTag { slot, .. } | Step::HSeek { slot, .. } | Step::HSetLen { slot, .. } | Step::HFlush { slot } | Step::HPos { slot } | Step::HLen { slot } | Step::HReadToEnd { slot } | Step::HClose { slot } | Step::HDrop { slot } => Some(*slot),
            _ => None,
        };
        match step {
            Step::Api(op) => match engine::exec_api_on(&mut self.cf, op) {
                Ok(o) => format!("ok:{}", full_out(&o)),
                Err(e) => norm_err(&e),
            },
            Step::HOpen { slot, path, how } => {
                let r = match how {
                    OpenHow::Open => self.cf.open_stream(path),
                    OpenHow::Create => self.cf.create_stream(path),
                    OpenHow::CreateNew => self.cf.create_new_stream(path),
                };
                match r {
                    Ok(s) => {
                        while self.streams.len() <= *slot {
                            self.streams.push(None);
                        }
                        let l = s.len();
                        self.streams[*slot] = Some(s);
                        format!("ok:handle(len={l})")
                    }
                    Err(e) => norm_err(&e),
                }
            }
            Step::FlushFile => match self.cf.flush() {
                Ok(()) => "ok".into(),
                Err(e) => norm_err(&e),
            },
            Step::Reopen(_) => "skipped".into(),
            other => {
                let slot = slot_of(other).unwrap();
                let s = match self.streams.get_mut(slot).and_then(|s| s.as_mut()) {
                    Some(s) => s,
                    None => return "no-handle".into(),
                };
                let r: Result<String, std::io::Error> = (|| {
                    Ok(match other {
                        Step::HRead { n, .. } => {
                            let mut b = vec![0u8; *n];
                            let k = s.read(&mut b)?;
                            format!("read {k} {:016x}", fnv64(&b[..k]))
                        }
                        Step::HReadExact { n, .. } => {
                            let mut b = vec![0u8; *n];
                            let pos = s.stream_position()?;
                            if engine::use_vectored_exact(*n, pos) {
                                engine::read_exact_vectored(s, &mut b)?;
                            } else {
                                s.read_exact(&mut b)?;
                            }
                            format!("read_exact {:016x}", fnv64(&b))
                        }
                        Step::HFill { eighths, .. } => {
                            let l = s.fill_buf()?.len();
                            if *eighths == 255 {
                                // exact-count use of BufRead: one byte if there is one
                                let k = l.min(1);
                                let b = if k == 1 { s.fill_buf()?[0] } else { 0 };
                                s.consume(k);
                                format!("fill+consume {k} {b:02x}")
                            } else {
                                let k = l * (*eighths as usize).min(8) / 8;
                                s.consume(k);
                                format!("fill {l}")
                            }
                        }
                        Step::HWrite { len, .. } | Step::HWriteAll { len, .. } | Step::HWriteTag { len, .. } => {
                            let j = if let Step::HWriteTag { tag, .. } = other {
                                *tag
                            } else {
                                self.write_counter += 1;
                                self.write_counter - 1
                            };
                            let data = payload(j, *len);
                            if matches!(other, Step::HWrite { .. }) {
                                format!("write {}", s.write(&data)?)
                            } else {
                                s.write_all(&data)?;
                                "write_all".into()
                            }
                        }
                        Step::HSeek { from, .. } => {
                            let pos = s.stream_position()?;
                            match from {
                                std::io::SeekFrom::Current(d) if engine::use_seek_relative(*d, pos) => {
                                    s.seek_relative(*d)?;
                                    format!("seek {}", s.stream_position()?)
                                }
                                _ => format!("seek {}", s.seek(*from)?),
                            }
                        }
                        // (4 GiB ... 32 TiB is refused by a version 3 file and would be
                        // carried out by a version 4 file: not replayed)
                        Step::HSetLen { n, .. } if *n >= engine::V3_UNREPRESENTABLE_LEN && *n < engine::UNREPRESENTABLE_LEN => "set_len (not replayed)".into(),
                        Step::HSetLen { n, .. } => {
                            s.set_len(*n)?;
                            "set_len".into()
                        }
                        Step::HFlush { .. } => {
                            s.flush()?;
                            "flush".into()
                        }
                        Step::HPos { .. } => format!("pos {}", s.stream_position()?),
                        Step::HLen { .. } => format!("len {}", s.len()),
                        Step::HReadToEnd { .. } => {
                            let pos = s.stream_position()?;
                            if engine::use_read_to_string(s.len(), pos) {
                                let mut t = String::new();
                                s.read_to_string(&mut t)?;
                                format!("read_to_end {} {:016x}", t.len(), fnv64(t.as_bytes()))
                            } else {
                                let mut v = Vec::new();
                                s.read_to_end(&mut v)?;
                                format!("read_to_end {} {:016x}", v.len(), fnv64(&v))
                            }
                        }
                        Step::HClose { .. } => {
                            s.flush()?;
                            "close".into()
                        }
                        Step::HDrop { .. } => "drop".into(),
                        _ => unreachable!(),
                    })
                })();
                if matches!(other, Step::HClose { .. } | Step::HDrop { .. }) {
                    self.streams[slot] = None;
                }
                match r {
                    Ok(x) => format!("ok:{x}"),
                    Err(e) => {
                        // read_exact at EOF leaves position unspecified but deterministic
                        norm_err(&e)
                    }
                }
            }
        }
    }

    pub fn close_all(&mut self) {
        for s in self.streams.iter_mut() {
            if let Some(st) = s.as_mut() {
                let _ = st.flush();
            }
            *s = None;
        }
    }
}

fn full_out(o: &crate::model::Out) -> String {
    use crate::model::Out;
    // the "length" of a storage / the root is the physical size of the mini stream
    // container, which legitimately depends on allocation order: not compared
    let ev = |e: &crate::model::EntryView| format!("{}|{}|{:?}|{}|{:02x?}|{:#x}|{:?}|{:?}", e.path.to_lowercase(), e.name, e.kind, if e.kind == Kind::Stream { e.len } else { 0 }, e.clsid, e.state, e.ctime, e.mtime);
    match o {
        Out::Unit => "()".into(),
        Out::Bool(b) => format!("{b}"),
        Out::Num(n) => format!("{n}"),
        Out::Handle(n) => format!("handle(len={n})"),
        Out::Bytes(b) => format!("{} bytes {:016x}", b.len(), fnv64(b)),
        Out::Entry(e) => ev(e),
        Out::List(l) => l.iter().map(ev).collect::<Vec<_>>().join(";"),
    }
}

struct RunResult {
    name: String,
    trace: Vec<String>,
    dump_hash: u64,
    bytes: Option<Vec<u8>>,
}

fn dump_hash<F: Read + Seek>(cf: &mut CompoundFile<F>) -> Result<u64, String> {
    let d = engine::dump_live(cf)?;
    let mut h = 0xcbf29ce484222325u64;
    for (v, data) in &d {
        h = fnv64_add(h, format!("{}|{}|{:?}|{}|{:02x?}|{:#x}|{:?}|{:?}", v.path, v.name, v.kind, if v.kind == Kind::Stream { v.len } else { 0 }, v.clsid, v.state, v.ctime, v.mtime).as_bytes());
        h = fnv64_add(h, data);
    }
    Ok(h)
}

fn replay_mon(name: &str, steps: &[Step], version: Version, bufsize: Option<usize>, perturb: Option<Perturb>, rep: &mut Report) -> Result<RunResult, String> {
    replay_mon_from(name, steps, version, bufsize, perturb, rep, None)
}

/// `start`: replay on an existing image (opened permissively) instead of a fresh file.
fn replay_mon_from(name: &str, steps: &[Step], version: Version, bufsize: Option<usize>, perturb: Option<Perturb>, rep: &mut Report, start: Option<&[u8]>) -> Result<RunResult, String> {
    let (file, shared) = MonFile::new(start.map(|b| b.to_vec()).unwrap_or_default());
    shared.set_perturb(perturb);
    let cf = match start {
        Some(_) => engine::open_with(file, engine::Mode::Permissive, bufsize).map_err(|e| format!("{name}: open of the start image failed: {e}"))?,
        None => make_cf(file, version, bufsize).map_err(|e| format!("{name}: create failed: {e}"))?,
    };
    let mut r = Replayer::new(cf);
    let trace: Vec<String> = steps.iter().map(|s| r.step(s)).collect();
    r.close_all();
    r.cf.flush().map_err(|e| format!("{name}: flush failed: {e}"))?;
    let dh = dump_hash(&mut r.cf)?;
    {
        let g = shared.lock();
        rep.add("underlying_calls_shortened", g.c.short_reads + g.c.short_writes);
        rep.add("underlying_calls_interrupted", g.c.interrupted);
    }
    let perturbed = shared.lock().perturb.is_some();
    shared.set_perturb(None);
    let bytes = shared.bytes();
    if perturbed {
        // the same bytes opened through a backend that shortens and interrupts its reads
        // decode to the same tree (both modes)
        for (k, mode) in [engine::Mode::Strict, engine::Mode::Permissive].into_iter().enumerate() {
            let (f2, sh2) = MonFile::new(bytes.clone());
            sh2.set_perturb(Some(Perturb { rng: Rng::new(fnv64(&bytes[..bytes.len().min(4096)]) ^ k as u64), short_pct: 40, intr_pct: 8 }));
            let mut cf2 = engine::open_with(f2, mode, bufsize).map_err(|e| format!("{name}: reopening the written bytes through short/interrupted reads failed ({mode:?}): {e}"))?;
            let dh2 = dump_hash(&mut cf2)?;
            if dh2 != dh {
                return Err(format!("{name}: dump after reopening through short/interrupted reads ({mode:?}) differs from the live dump"));
            }
            rep.count("reopens_through_perturbed_reads");
        }
    }
    Ok(RunResult { name: name.to_string(), trace, dump_hash: dh, bytes: Some(bytes) })
}

/// Fixed histories that push a version 3 file past 109 (and 236) FAT sectors, so that the
/// DIFAT chain is created, extended and read back under every configuration.
fn big_steps(shard: u64) -> Vec<Step> {
    use std::io::SeekFrom;
    let s = 0usize;
    let mut v = vec![Step::HOpen { slot: s, path: "/big".into(), how: OpenHow::Create }];
    const ONE_DIFAT: u64 = 109 * 128 * 512; // first byte count that needs a 110th FAT sector (about)
    match shard {
        0 => v.push(Step::HSetLen { slot: s, n: 7_300_000 }),
        1 => {
            v.push(Step::HSetLen { slot: s, n: ONE_DIFAT - 70_000 });
            v.push(Step::HSetLen { slot: s, n: ONE_DIFAT + 3 * 512 });
        }
        2 | 5 => v.push(Step::HSetLen { slot: s, n: 15_700_000 + shard * 4096 }),
        3 => {
            for _ in 0..8 {
                v.push(Step::HWriteAll { slot: s, len: 920_000 });
            }
        }
        _ => {
            v.push(Step::HSetLen { slot: s, n: 7_400_000 });
            v.push(Step::HSetLen { slot: s, n: 100_000 });
            v.push(Step::HSetLen { slot: s, n: 7_500_000 });
        }
    }
    v.push(Step::HSeek { slot: s, from: SeekFrom::End(-10) });
    v.push(Step::HWriteAll { slot: s, len: 30 });
    v.push(Step::HClose { slot: s });
    v.push(Step::HOpen { slot: s, path: "/small".into(), how: OpenHow::Create });
    v.push(Step::HWriteAll { slot: s, len: 100 });
    v.push(Step::HClose { slot: s });
    v.push(Step::Api(Op::Walk));
    v.push(Step::HOpen { slot: s, path: "/big".into(), how: OpenHow::Open });
    v.push(Step::HSeek { slot: s, from: SeekFrom::Start(6_999_000) });
    v.push(Step::HReadExact { slot: s, n: 3000 });
    v.push(Step::HClose { slot: s });
    v
}

fn make_cf<F: Read + Write + Seek>(file: F, version: Version, bufsize: Option<usize>) -> std::io::Result<CompoundFile<F>> {
    match (version, bufsize) {
        (Version::V4, Some(b)) => OpenOptions::new().max_buffer_size(b).create_with(file),
        (v, None) => CompoundFile::create_with_version(v, file),
        (v, Some(b)) => {
            let cf = CompoundFile::create_with_version(v, file)?;
            let f = cf.into_inner();
            OpenOptions::new().max_buffer_size(b).open_with(f)
        }
    }
}

fn replay_file(name: &str, steps: &[Step], version: Version, dir: &str, via_path: bool, rep: &mut Report) -> Result<RunResult, String> {
    let path = format!("{dir}/{name}.cfb");
    let _ = std::fs::remove_file(&path);
    if via_path {
        // cfb::create promises to overwrite an existing file: leave an older, larger one there
        let _ = std::fs::write(&path, vec![0xEEu8; 150_000 + (steps.len() % 7) * 4096]);
        rep.count("real_files_replacing_an_older_larger_file");
    }
    let cf: CompoundFile<std::fs::File> = if via_path && version == Version::V4 {
        cfb::create(&path).map_err(|e| format!("{name}: cfb::create failed: {e}"))?
    } else {
        let f = std::fs::OpenOptions::new().read(true).write(true).create(true).truncate(true).open(&path).map_err(|e| format!("{name}: cannot create {path}: {e}"))?;
        make_cf(f, version, None).map_err(|e| format!("{name}: create failed: {e}"))?
    };
    let mut r = Replayer::new(cf);
    let trace: Vec<String> = steps.iter().map(|s| r.step(s)).collect();
    r.close_all();
    r.cf.flush().map_err(|e| format!("{name}: flush failed: {e}"))?;
    let dh = dump_hash(&mut r.cf)?;
    drop(r);
    // reopen through the path constructors as well
    let mut again = cfb::open(&path).map_err(|e| format!("{name}: cfb::open failed: {e}"))?;
    let dh2 = dump_hash(&mut again)?;
    drop(again);
    let mut rw = cfb::open_rw(&path).map_err(|e| format!("{name}: cfb::open_rw failed: {e}"))?;
    let dh3 = dump_hash(&mut rw)?;
    drop(rw);
    if dh2 != dh || dh3 != dh {
        return Err(format!("{name}: dump after cfb::open / open_rw of the real file differs from the live dump"));
    }
    let bytes = std::fs::read(&path).map_err(|e| format!("{name}: {e}"))?;
    let _ = std::fs::remove_file(&path);
    rep.count("real_files_written");
    rep.add("real_file_bytes", bytes.len() as u64);
    Ok(RunResult { name: name.to_string(), trace, dump_hash: dh, bytes: Some(bytes) })
}

/// Generation pass: a model-checked history with exact-count calls only, no reopen, no
/// touch, and storage times pinned right after each creation.
fn generate(rng: &mut Rng, version: Version, quick: bool, rep: &mut Report, start: Option<Session>) -> Result<Vec<Step>, Fail> {
    let foreign = start.is_some();
    let mut sess = match start {
        Some(s) => s,
        None => Session::create(version, None).map_err(|e| ("create | ok | err".to_string(), format!("{e}")))?,
    };
    let mut cfg = GenCfg::default();
    if foreign {
        cfg.names = crate::synth::SYNTH_NAMES;
    }
    cfg.reopen_pct = 0;
    cfg.refusal_pct = 12;
    cfg.max_size = *rng.pick(&[2000, 9000, 70000]);
    cfg.soft_max_objects = *rng.pick(&[8, 25]);
    let gen = Gen::new(cfg);
    let hcfg = HCfg { max_len: 30000, extreme_seeks: true, set_len_pct: 8, raw_rw: false, cap_hint: *rng.pick(&[1024u64, 4096, 5000]) };
    let mut done = Vec::new();
    let n_steps = if quick { rng.range(15, 60) } else { rng.range(30, 200) };
    let mix = *rng.pick(&[0u64, 30, 50]);
    let mut n = 0;
    while n < n_steps {
        let steps = if rng.below(100) < mix {
            let open = sess.open_slots();
            let idx = crate::gen::index(&sess);
            if (open.is_empty() || (open.len() < 3 && rng.chance(1, 4))) && !idx.streams.is_empty() {
                let p = rng.pick(&idx.streams).clone();
                let names = crate::model::normalise(&p).unwrap();
                if sess.handle_on(&names).is_none() {
                    vec![Step::HOpen { slot: sess.free_slot(), path: p, how: OpenHow::Open }]
                } else {
                    vec![]
                }
            } else if !open.is_empty() {
                let slot = *rng.pick(&open);
                if rng.chance(1, 12) {
                    vec![Step::HClose { slot }]
                } else if rng.chance(1, 10) {
                    // BufRead used with an exact count: fill_buf, take one byte
                    vec![Step::HFill { slot, eighths: 255 }]
                } else {
                    vec![handle_step(rng, &sess, slot, &hcfg)]
                }
            } else {
                vec![]
            }
        } else {
            gen.next(rng, &sess)
        };
        for step in steps {
            if matches!(step, Step::Api(Op::Touch(_))) {
                continue;
            }
            // Queries report what has been written back so far for streams whose handle
            // holds unflushed data - that depends on the buffer size by design; flush
            // first so that every compared result is defined.
            if matches!(step, Step::Api(_)) && sess.any_dirty() {
                for slot in sess.open_slots() {
                    if sess.hm[slot].as_ref().map(|h| h.dirty).unwrap_or(false) {
                        let st = Step::HFlush { slot };
                        done.push(st.clone());
                        if sess.run(&st).is_some() {
                            rep.count("abandoned_model_divergence");
                            return Err(("abandoned".into(), String::new()));
                        }
                    }
                }
            }
            n += 1;
            done.push(step.clone());
            if let Some(d) = sess.run(&step) {
                rep.count("abandoned_model_divergence");
                rep.set_insert("abandoned_signatures", d.signature);
                return Err(("abandoned".into(), String::new()));
            }
            // pin the times of every storage created by this step
            if matches!(step, Step::Api(Op::CreateStorage(_) | Op::CreateStorageAll(_))) {
                let unpinned: Vec<String> = sess.model.dump().iter().filter(|(v, _)| v.kind == Kind::Storage && (v.ctime.is_none() || v.mtime.is_none())).map(|(v, _)| v.path.clone()).collect();
                for p in unpinned {
                    for op in [Op::SetCreated(p.clone(), crate::gen::pick_time_ns(rng)), Op::SetModified(p.clone(), crate::gen::pick_time_ns(rng))] {
                        let st = Step::Api(op);
                        done.push(st.clone());
                        if sess.run(&st).is_some() {
                            rep.count("abandoned_model_divergence");
                            return Err(("abandoned".into(), String::new()));
                        }
                    }
                }
            }
        }
    }
    Ok(done)
}

pub fn run_c18(ctx: &Ctx, rep: &mut Report) {
    let dir = format!("{}.files", ctx.out);
    let _ = std::fs::create_dir_all(&dir);
    let mut i = 0;
    while let Some(case) = ctx.next_case(&mut i) {
        let mut rng = ctx.case_rng(case);
        let big = case == 0 && ctx.shard < 6;
        let version = if big || rng.chance(1, 2) { Version::V3 } else { Version::V4 };
        let other_version = if version == Version::V3 { Version::V4 } else { Version::V3 };
        let quick = ctx.quick();
        // one history in eight starts from another writer's file (red-black sibling trees
        // with red nodes, fragmented chains ...): removals there recolour nodes, which a
        // fresh file never does
        let mut start_image: Option<Vec<u8>> = None;
        let mut version = version;
        let mut start_sess = None;
        if !big && rng.chance(1, 8) {
            if let Some((s, v)) = crate::props::hist::foreign_start(&mut rng) {
                start_image = Some(s.shared.bytes());
                version = v;
                start_sess = Some(s);
                rep.count("histories_on_a_foreign_start_image");
            }
        }
        let gen_res = if big {
            rep.count("histories_with_difat_chain");
            Ok(Ok(big_steps(ctx.shard)))
        } else {
            guard::catch(|| generate(&mut rng, version, quick, rep, start_sess))
        };
        let steps = match gen_res {
            Ok(Ok(s)) => s,
            Ok(Err(_)) => {
                rep.evaluations += 1;
                continue;
            }
            Err(p) => {
                rep.count("abandoned_panic_in_generation");
                rep.set_insert("abandoned_signatures", p.signature());
                rep.evaluations += 1;
                continue;
            }
        };
        let other_buf = *rng.pick(&[Some(0usize), Some(1024), Some(1025), Some(1500), Some(4096), Some(5000), Some(65536)]);
        let pseed = rng.next_u64();
        let with_file = rng.chance(1, if quick { 6 } else { 3 });
        let res = guard::catch(|| -> Result<(), Fail> {
            let mut runs: Vec<RunResult> = Vec::new();
            let e = |s: String| ("configuration failed".to_string(), s);
            let st = start_image.as_deref();
            runs.push(replay_mon_from("A:memory", &steps, version, None, None, rep, st).map_err(e)?);
            runs.push(replay_mon_from("A':memory again", &steps, version, None, None, rep, st).map_err(e)?);
            runs.push(replay_mon_from("C:short+interrupted I/O", &steps, version, None, Some(Perturb { rng: Rng::new(pseed), short_pct: 35, intr_pct: 10 }), rep, st).map_err(e)?);
            if st.is_some() {
                // a second perturbation stream with more interruptions
                runs.push(replay_mon_from("C2:mostly interrupted I/O", &steps, version, None, Some(Perturb { rng: Rng::new(pseed ^ 0x55), short_pct: 10, intr_pct: 45 }), rep, st).map_err(e)?);
            }
            if with_file && st.is_none() {
                runs.push(replay_file("B-file", &steps, version, &dir, rng.chance(1, 2), rep).map_err(e)?);
            }
            let byte_group = runs.len();
            runs.push(replay_mon_from("D:other max_buffer_size", &steps, version, other_buf, None, rep, st).map_err(e)?);
            if st.is_none() {
                runs.push(replay_mon("E:other version", &steps, other_version, None, None, rep).map_err(e)?);
            }
            let a = &runs[0];
            for r in &runs[1..] {
                if r.trace != a.trace {
                    let k = r.trace.iter().zip(a.trace.iter()).position(|(x, y)| x != y).unwrap_or(0);
                    return Err((format!("outcomes differ | {}", r.name.split(':').next().unwrap_or("?")), format!("step #{k} {:?}: {} gave {:?}, {} gave {:?}", steps[k], a.name, a.trace[k], r.name, r.trace[k])));
                }
                if r.dump_hash != a.dump_hash {
                    return Err((format!("final dump differs | {}", r.name.split(':').next().unwrap_or("?")), format!("{} vs {}", a.name, r.name)));
                }
                rep.count("configurations_compared");
            }
            for r in &runs[1..byte_group] {
                if r.bytes != a.bytes {
                    let (x, y) = (a.bytes.as_ref().unwrap(), r.bytes.as_ref().unwrap());
                    let first = x.iter().zip(y.iter()).position(|(p, q)| p != q).unwrap_or(x.len().min(y.len()));
                    return Err((format!("final bytes differ | {}", r.name.split(':').next().unwrap_or("?")), format!("{} ({} bytes) vs {} ({} bytes), first difference at offset {}", a.name, x.len(), r.name, y.len(), first)));
                }
                rep.add("bytes_compared", a.bytes.as_ref().map(|b| b.len()).unwrap_or(0) as u64);
            }
            Ok(())
        });
        let witness = || ctx.witness(case, vec![("version", J::s(vname(version))), ("other_max_buffer_size", J::s(format!("{other_buf:?}"))), ("perturbation_seed", J::Int(pseed as i128)), ("steps", steps_json(&steps))]);
        match res {
            Ok(Ok(())) => {}
            Ok(Err((sig, detail))) => rep.finding(sig, detail, witness()),
            Err(p) => rep.finding(p.signature(), format!("panic at {}:{}: {}", p.file, p.line, p.message), witness()),
        }
        let mut h = fnv64_add(0xcbf29ce484222325, vname(version).as_bytes());
        for s in &steps {
            h = fnv64_add(h, format!("{:?}", s).as_bytes());
        }
        if steps.len() >= 10 {
            rep.nontrivial(h);
        }
        rep.count("histories");
        rep.add("steps", steps.len() as u64);
        if rep.samples.len() < 2 {
            rep.sample(J::obj(vec![("version", J::s(vname(version))), ("steps", steps_json(&steps[..steps.len().min(30)]))]));
        }
        rep.evaluations += 1;
    }
    let _ = std::fs::remove_dir_all(&dir);
}
