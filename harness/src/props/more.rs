//! C10 (rejected operations have no effect), C15 (net-zero cycles do not grow the
//! file), C17 (metadata round trip).

use crate::common::Ctx;
use crate::engine::{self, Mode, OpenHow, Session, Step};
use crate::gen::{self, Gen, GenCfg};
use crate::guard;
use crate::model::{self, Expect, Kind, Op};
use crate::props::hist::{self, drive, steps_json, vname, DriveOpts, Fail, Monitor};
use crate::refparse;
use crate::report::{Report, J};
use crate::rng::{fnv64_add, Rng};
use cfb::Version;
use std::io::SeekFrom;

// ------------------------------------------------------------------ C10

struct Snapshot {
    predicted: bool,
    bytes: Vec<u8>,
    writes: u64,
    class: String,
    handles: Vec<(usize, u64, u64)>, // slot, len, pos
}

pub struct NoEffectMonitor {
    snap: Option<Snapshot>,
    refusals: u64,
}

fn handle_states(sess: &mut Session, real_positions: bool) -> Vec<(usize, u64, u64)> {
    use std::io::Seek;
    let mut v = Vec::new();
    for slot in sess.open_slots() {
        if let Some(s) = sess.streams[slot].as_mut() {
            let l = s.len();
            // no seek(Current(0)) on a handle with unwritten changes before the call under
            // observation: the model's position (verified by the engine) stands in
            let modelled = sess.hm[slot].as_ref().filter(|h| h.dirty && !real_positions).map(|h| h.pos);
            let p = modelled.unwrap_or_else(|| s.stream_position().unwrap_or(u64::MAX));
            v.push((slot, l, p));
        }
    }
    v
}

impl Monitor for NoEffectMonitor {
    fn owns_divergence(&self) -> bool {
        false
    }
    fn claims(&self, d: &engine::Divergence) -> bool {
        // the step was predicted as a refusal and the engine saw it change handle state
        self.snap.as_ref().map_or(false, |s| s.predicted) && (d.signature.contains("position-moved") || d.signature.contains("len-not-current") || d.signature.contains("position-mismatch"))
    }
    fn before(&mut self, sess: &mut Session, step: &Step, _rep: &mut Report) {
        self.snap = None;
        let class: Option<String> = match step {
            Step::Api(op) => {
                let mut probe = sess.model.clone();
                match probe.apply(op) {
                    Expect::Refuse { .. } => Some(format!("{} | {}", op.name(), engine::expect_class(&probe_expect(sess, op)))),
                    _ => None,
                }
            }
            Step::HOpen { path, how, .. } => {
                let op = match how {
                    OpenHow::Open => Op::OpenStream(path.clone()),
                    OpenHow::Create => Op::CreateStream(path.clone()),
                    OpenHow::CreateNew => Op::CreateNewStream(path.clone()),
                };
                let e = probe_expect(sess, &op);
                if e.is_refusal() {
                    Some(format!("{} | {}", op.name(), engine::expect_class(&e)))
                } else {
                    None
                }
            }
            Step::HSetLen { slot, n } if engine::unrepresentable_len(sess.version, *n) => {
                // refused with InvalidInput ("no compound file can hold that"): like any
                // other refusal it must leave the store and the handle alone - also the
                // handle's unwritten changes
                sess.hm.get(*slot).and_then(|h| h.as_ref()).map(|h| format!("set_len | refuse:unrepresentable_length{}", if h.dirty { "+dirty_buffer" } else { "" }))
            }
            Step::HSeek { slot, from } => {
                if let Some(Some(h)) = sess.hm.get(*slot) {
                    let len = sess.model.get(&h.names).map(|n| n.data.len() as i128).unwrap_or(0);
                    let target: i128 = match from {
                        SeekFrom::Start(n) => *n as i128,
                        SeekFrom::End(d) => len + *d as i128,
                        SeekFrom::Current(d) => h.pos as i128 + *d as i128,
                    };
                    if target < 0 || target > len {
                        Some(format!("seek | refuse:out_of_range{}", if h.dirty { "+dirty_buffer" } else { "" }))
                    } else {
                        None
                    }
                } else {
                    None
                }
            }
            _ => None,
        };
        if let Some(class) = class {
            let handles = handle_states(sess, false);
            self.snap = Some(Snapshot { predicted: true, bytes: sess.shared.bytes(), writes: sess.shared.writes(), class, handles });
        } else if let Step::Api(op) = step {
            // not predicted to be refused: if the implementation refuses it all the same
            // (a matter for C01), the refusal must still have had no effect
            if op.is_mutation() {
                self.snap = Some(Snapshot { predicted: false, bytes: sess.shared.bytes(), writes: sess.shared.writes(), class: format!("{} | unpredicted", op.name()), handles: Vec::new() });
            }
        }
    }
    fn on_divergence(&mut self, sess: &mut Session, step: &Step, d: &engine::Divergence, rep: &mut Report) -> Option<Fail> {
        let snap = self.snap.take()?;
        if snap.predicted {
            return None;
        }
        let kind = ["NotFound", "AlreadyExists", "InvalidInput"].iter().find(|k| d.signature.ends_with(&format!("ok | err:{}", k)))?;
        rep.count("unpredicted_refusals_checked");
        let now = sess.shared.bytes();
        if now != snap.bytes {
            let first = now.iter().zip(snap.bytes.iter()).position(|(a, b)| a != b).unwrap_or(now.len().min(snap.bytes.len()));
            return Some((format!("refused {} ({}) | bytes changed", snap.class, kind), format!("{:?} was refused with {} ({}) but the bytes differ (len {} -> {}, first difference at offset {})", step, kind, d.observed, snap.bytes.len(), now.len(), first)));
        }
        None
    }
    fn after(&mut self, sess: &mut Session, step: &Step, rep: &mut Report) -> Result<(), Fail> {
        // `drive` only calls us when the outcome was admissible, i.e. the call was refused
        // with one of the predicted kinds.
        if let Some(snap) = self.snap.take().filter(|s| s.predicted) {
            self.refusals += 1;
            rep.count("refusals_checked");
            rep.count(&format!("refusal.{}", snap.class));
            if snap.handles.iter().any(|_| true) && sess.any_dirty() {
                rep.count("refusals_with_dirty_handle_present");
            }
            if matches!(step, Step::Api(Op::CreateStorageAll(_)) | Step::Api(Op::RemoveStorageAll(_))) {
                rep.count("refusals_multi_step");
            }
            let w = sess.shared.writes();
            if w != snap.writes {
                return Err((format!("refused {} | underlying write events", snap.class), format!("{:?} was refused but {} write call(s) reached the backing store during it", step, w - snap.writes)));
            }
            let now = sess.shared.bytes();
            if now != snap.bytes {
                let first = now.iter().zip(snap.bytes.iter()).position(|(a, b)| a != b).unwrap_or(now.len().min(snap.bytes.len()));
                return Err((format!("refused {} | bytes changed", snap.class), format!("{:?} was refused but the bytes differ (len {} -> {}, first difference at offset {})", step, snap.bytes.len(), now.len(), first)));
            }
            let hs = handle_states(sess, true);
            if hs != snap.handles {
                return Err((format!("refused {} | handle state changed", snap.class), format!("{:?}: (slot, len, position) before {:?}, after {:?}", step, snap.handles, hs)));
            }
        }
        Ok(())
    }
    fn quiescent(&mut self, sess: &mut Session, rng: &mut Rng, _gen: &Gen, rep: &mut Report, done: &mut Vec<Step>) -> Result<(), Fail> {
        if sess.open_slots().is_empty() && rng.chance(1, 25) {
            refusals_on_a_stale_handle_episode(sess, rng, rep)?;
            self.refusals += 1;
        }
        // "every subsequently observable result is the same as if the call had not been
        // made": the model never saw the refused calls, so the dump must still match it.
        if sess.open_slots().is_empty() {
            match sess.check_against_model(false) {
                Ok(_) => {
                    rep.count("dumps_compared");
                    Ok(())
                }
                Err(why) => {
                    if self.refusals > 0 {
                        Err(("later results | differ from a model that never saw the refused calls".to_string(), format!("after step #{}: {}", done.len(), why)))
                    } else {
                        rep.count("abandoned_live_disagrees_with_model");
                        Ok(())
                    }
                }
            }
        } else {
            Ok(())
        }
    }
}

/// Two handles opened on a scratch stream at the same moment; a third one resizes the stream
/// and goes away.  One of the two then makes out-of-range seeks, the other (the control)
/// does not.  "As if the call had not been made": the store is untouched by the refused
/// seeks, and afterwards both handles answer the same questions the same way.
fn refusals_on_a_stale_handle_episode(sess: &mut Session, rng: &mut Rng, rep: &mut Report) -> Result<(), Fail> {
    use std::io::{Read, Seek, Write};
    let io = |what: &str| {
        let w = what.to_string();
        move |e: std::io::Error| ("harness-or-C01: stale-handle refusals episode".to_string(), format!("{w}: {e}"))
    };
    let len0 = *rng.pick(&[100u64, 1000, 3000, 5000]);
    let delta = *rng.pick(&[1u64, 50, 700, 5000]);
    let grow = rng.chance(2, 3);
    let len1 = if grow { len0 + delta } else { len0.saturating_sub(delta.min(len0 / 2)) };
    let warm = rng.chance(1, 2);
    let cf = sess.cf();
    {
        let mut s = cf.create_stream("/q2").map_err(io("create_stream"))?;
        s.write_all(&crate::engine::payload(79, len0 as usize)).map_err(io("write"))?;
        s.flush().map_err(io("flush"))?;
    }
    let mut a = cf.open_stream("/q2").map_err(io("open A"))?;
    let mut c = cf.open_stream("/q2").map_err(io("open control"))?;
    if warm {
        let mut buf = [0u8; 40];
        a.read_exact(&mut buf).map_err(io("read A"))?;
        c.read_exact(&mut buf).map_err(io("read control"))?;
    }
    {
        let mut b = cf.open_stream("/q2").map_err(io("open B"))?;
        if grow && rng.chance(1, 2) {
            b.seek(SeekFrom::End(0)).map_err(io("seek B"))?;
            b.write_all(&vec![0xB7u8; delta as usize]).map_err(io("write B"))?;
        } else {
            b.set_len(len1).map_err(io("set_len B"))?;
        }
        b.flush().map_err(io("flush B"))?;
    }
    let before = sess.shared.bytes();
    let writes_before = sess.shared.writes();
    // (the position is known from what was read; asking for it would be a seek, and a seek
    // is the call under observation)
    let (la, pa) = (a.len(), if warm { 40u64 } else { 0 });
    let mut refused = 0;
    let mut len_moved: Option<(SeekFrom, u64)> = None;
    // (targets that are out of range for every length the stream has had come first)
    for from in [SeekFrom::End(1), SeekFrom::Current(-(pa as i64) - 1), SeekFrom::Start(la + delta + 7), SeekFrom::Start(la + 1), SeekFrom::End(-(la as i64) - 1)] {
        if len_moved.is_some() {
            break;
        }
        let r = a.seek(from);
        if std::env::var_os("CFBMON_TRACE").is_some() {
            eprintln!("stale episode: len0={len0} len1={len1} warm={warm} la={la} pa={pa} {:?} -> {:?}", from, r);
        }
        match r {
            Err(e) if e.kind() == std::io::ErrorKind::InvalidInput => {
                refused += 1;
                if a.len() != la {
                    len_moved = Some((from, a.len()));
                }
            }
            _ => {
                // not a refusal (or another kind of failure): nothing to judge here
                rep.count("stale_handle_seeks_not_refused");
                drop(a);
                drop(c);
                sess.cf().remove_stream("/q2").map_err(io("remove_stream"))?;
                return Ok(());
            }
        }
    }
    let mut res = Ok(());
    let what = format!("/q2: {len0} bytes, handles A and control opened{}, a third handle made it {len1} bytes and went away, A then made {refused} refused seeks", if warm { " and 40 bytes read through each" } else { "" });
    if sess.shared.writes() != writes_before || sess.shared.bytes() != before {
        res = Err(("refused seek | refuse:out_of_range+stale_handle | bytes changed".to_string(), what.clone()));
    } else if let Some((from, now)) = len_moved {
        res = Err(("refused seek | refuse:out_of_range+stale_handle | handle state changed".to_string(), format!("{what}: len() was {la}, after the refused {from:?} it is {now}")));
    } else if (a.len(), a.stream_position().ok()) != (la, Some(pa)) {
        res = Err(("refused seek | refuse:out_of_range+stale_handle | handle state changed".to_string(), format!("{what}: len()/position were ({la}, {pa}), now ({}, {:?})", a.len(), a.stream_position().ok())));
    } else {
        // the same questions to both handles
        let mut ask = |h: &mut cfb::Stream<crate::backend::MonFile>| -> (u64, Option<u64>, Option<u64>, Option<(usize, u64)>, u64) {
            let l = h.len();
            let p = h.stream_position().ok();
            let e = h.seek(SeekFrom::End(0)).ok();
            let mut v = Vec::new();
            let r = h.seek(SeekFrom::Start(0)).and_then(|_| h.read_to_end(&mut v)).ok().map(|n| (n, crate::rng::fnv64(&v)));
            (l, p, e, r, h.len())
        };
        let oa = ask(&mut a);
        let oc = ask(&mut c);
        if oa != oc {
            res = Err(("refused seek | refuse:out_of_range+stale_handle | later results differ from a handle that did not make the call".to_string(), format!("{what}; (len, position, seek(End(0)), read_to_end from 0 (count, hash), len) through A: {:?}, through the control: {:?}", oa, oc)));
        }
    }
    drop(a);
    drop(c);
    sess.cf().remove_stream("/q2").map_err(io("remove_stream"))?;
    rep.count("stale_handle_refusal_episodes");
    rep.add("refusals_checked", refused);
    res
}

fn probe_expect(sess: &Session, op: &Op) -> Expect {
    let mut probe = sess.model.clone();
    probe.apply(op)
}

pub fn run_c10(ctx: &Ctx, rep: &mut Report) {
    if crate::props::wide::maybe_run(ctx, rep, crate::props::wide::Role::NoEffect, 4, 8) {
        return;
    }
    if ctx.shard == 13 && (ctx.only_case.is_none() || ctx.only_case == Some(crate::props::huge::HUGE_CASE + 1)) {
        crate::guard::case_begin(crate::props::huge::HUGE_CASE + 1);
        crate::props::huge::v3_limit_probe(ctx, rep);
        if ctx.only_case.is_some() {
            return;
        }
    }
    let mut i = 0;
    while let Some(case) = ctx.next_case(&mut i) {
        let mut rng = ctx.case_rng(case);
        let rng = &mut rng;
        let version = hist::version_of(rng);
        let max_steps = if ctx.quick() { rng.range(15, 80) } else { rng.range(30, 300) } as usize;
        let mut cfg = GenCfg::default();
        cfg.refusal_pct = 50;
        cfg.query_pct = 5;
        cfg.metadata_pct = 4;
        cfg.reopen_pct = 1;
        cfg.soft_max_objects = *rng.pick(&[8, 20]);
        cfg.max_size = 6000;
        let bufsize = *rng.pick(&[None, Some(1024usize), Some(4096)]);
        let mut mon = NoEffectMonitor { snap: None, refusals: 0 };
        let mix = *rng.pick(&[0, 30, 45]);
        let info = drive(ctx, case, rng, rep, DriveOpts { version, bufsize, max_steps, cfg, handle_mix_pct: mix, max_handles: 2, start: None }, &mut mon);
        if mon.refusals >= 3 && !info.abandoned {
            rep.nontrivial(info.hash);
        }
        rep.evaluations += 1;
    }
}

// ------------------------------------------------------------------ C15

fn run_step(sess: &mut Session, step: Step, done: &mut Vec<Step>, rep: &mut Report) -> Result<(), Fail> {
    rep.count(&format!("op.{}", step.name()));
    done.push(step.clone());
    match sess.run(&step) {
        None => Ok(()),
        Some(d) => Err((format!("harness-or-C01: {}", d.signature), format!("step #{} {}: expected {}, observed {}", d.step_index, d.step, d.expected, d.observed))),
    }
}

/// The steps of one repetition of a cycle template (net-zero on the logical state).
fn cycle_steps(template: u64, p: &CycleParams) -> Vec<Step> {
    let s = 6usize; // scratch slot
    let mut v = Vec::new();
    match template {
        0 => {
            // create - write - remove
            v.push(Step::HOpen { slot: s, path: "/cyc".into(), how: OpenHow::Create });
            v.push(Step::HWriteTag { slot: s, len: p.size as usize, tag: 7 });
            v.push(Step::HClose { slot: s });
            v.push(Step::Api(Op::RemoveStream("/cyc".into())));
        }
        1 => {
            // nested storages created, then remove_storage_all
            v.push(Step::Api(Op::CreateStorageAll("/cy/a/b".into())));
            for (k, path) in ["/cy/x", "/cy/a/y", "/cy/a/b/z"].iter().enumerate() {
                v.push(Step::HOpen { slot: s, path: (*path).into(), how: OpenHow::CreateNew });
                v.push(Step::HWriteTag { slot: s, len: (p.size as usize + k * 700) % 9000, tag: 11 + k as u64 });
                v.push(Step::HClose { slot: s });
            }
            v.push(Step::Api(Op::RemoveStorageAll("/cy".into())));
        }
        2 => {
            // grow then shrink an existing stream by set_len
            v.push(Step::HOpen { slot: s, path: "/keep".into(), how: OpenHow::Open });
            v.push(Step::HSetLen { slot: s, n: p.keep_len + p.delta });
            v.push(Step::HSetLen { slot: s, n: p.keep_len });
            v.push(Step::HClose { slot: s });
        }
        3 => {
            // overwrite with the same content
            v.push(Step::HOpen { slot: s, path: "/keep".into(), how: OpenHow::Create });
            v.push(Step::HWriteTag { slot: s, len: p.keep_len as usize, tag: 3 });
            v.push(Step::HClose { slot: s });
        }
        4 => {
            // several streams created, then removed in the same or the reverse order
            let names = ["/q1", "/q2", "/q3", "/q4"];
            for (k, n) in names.iter().enumerate() {
                v.push(Step::HOpen { slot: s, path: (*n).into(), how: OpenHow::CreateNew });
                v.push(Step::HWriteTag { slot: s, len: (p.size as usize + 300 * k) % 9000, tag: 20 + k as u64 });
                v.push(Step::HClose { slot: s });
            }
            let order: Vec<&str> = if p.reverse { names.iter().rev().cloned().collect() } else { names.to_vec() };
            for n in order {
                v.push(Step::Api(Op::RemoveStream(n.into())));
            }
        }
        5 => {
            // shrink then grow back and rewrite the tail (content restored)
            v.push(Step::HOpen { slot: s, path: "/keep".into(), how: OpenHow::Open });
            v.push(Step::HSetLen { slot: s, n: 0 });
            v.push(Step::HWriteTag { slot: s, len: p.keep_len as usize, tag: 3 });
            v.push(Step::HClose { slot: s });
        }
        7 => {
            // small stream flushed, then rewritten from offset 0 past the cutoff through a
            // new handle (mini -> regular migration inside a write-back), then removed
            v.push(Step::HOpen { slot: s, path: "/cyc".into(), how: OpenHow::Create });
            v.push(Step::HWriteTag { slot: s, len: (1 + p.size % 4095) as usize, tag: 7 });
            v.push(Step::HClose { slot: s });
            v.push(Step::HOpen { slot: s, path: "/cyc".into(), how: OpenHow::Open });
            v.push(Step::HWriteTag { slot: s, len: 4096 + (p.delta as usize % 6000), tag: 8 });
            v.push(Step::HClose { slot: s });
            v.push(Step::Api(Op::RemoveStream("/cyc".into())));
        }
        8 => {
            // append across the cutoff in two flushes, shrink back below it, remove
            v.push(Step::HOpen { slot: s, path: "/cyc".into(), how: OpenHow::Create });
            v.push(Step::HWriteTag { slot: s, len: 4000, tag: 7 });
            v.push(Step::HFlush { slot: s });
            v.push(Step::HWriteTag { slot: s, len: 96 + (p.delta as usize % 500), tag: 9 });
            v.push(Step::HFlush { slot: s });
            v.push(Step::HSetLen { slot: s, n: p.size % 4096 });
            v.push(Step::HClose { slot: s });
            v.push(Step::Api(Op::RemoveStream("/cyc".into())));
        }
        9 => {
            // overwrite a large stream by a small one and back (regular -> mini -> regular)
            v.push(Step::HOpen { slot: s, path: "/keep2".into(), how: OpenHow::Create });
            v.push(Step::HWriteTag { slot: s, len: 5000 + p.size as usize % 3000, tag: 5 });
            v.push(Step::HClose { slot: s });
            v.push(Step::HOpen { slot: s, path: "/keep2".into(), how: OpenHow::Create });
            v.push(Step::HWriteTag { slot: s, len: (p.size % 4000) as usize, tag: 6 });
            v.push(Step::HClose { slot: s });
            v.push(Step::Api(Op::RemoveStream("/keep2".into())));
        }
        10 | 11 => {
            // a stream created behind another one grows into the space the other releases
            // (a chain that is not monotone), is cut back to a prefix with set_len, and removed
            let n = 1 + (p.size % 63) as usize;
            v.push(Step::HOpen { slot: s, path: "/h".into(), how: OpenHow::CreateNew });
            v.push(Step::HWriteTag { slot: s, len: n * 64, tag: 31 });
            v.push(Step::HClose { slot: s });
            v.push(Step::HOpen { slot: s, path: "/x".into(), how: OpenHow::CreateNew });
            v.push(Step::HWriteTag { slot: s, len: 128, tag: 32 });
            v.push(Step::HClose { slot: s });
            v.push(Step::Api(Op::RemoveStream("/h".into())));
            v.push(Step::HOpen { slot: s, path: "/x".into(), how: OpenHow::Open });
            v.push(Step::HSeek { slot: s, from: SeekFrom::End(0) });
            v.push(Step::HWriteTag { slot: s, len: n * 64, tag: 33 });
            v.push(Step::HFlush { slot: s });
            v.push(Step::HSetLen { slot: s, n: if template == 10 { 64 } else { 64 * (1 + p.delta % 3) } });
            v.push(Step::HClose { slot: s });
            v.push(Step::Api(Op::RemoveStream("/x".into())));
        }
        12 => {
            // so many small streams that the MiniFAT needs a second sector (and a third),
            // all removed again
            let names: Vec<String> = (0..p.many).map(|k| format!("/w{k:02}")).collect();
            for (k, n) in names.iter().enumerate() {
                v.push(Step::HOpen { slot: s, path: n.clone(), how: OpenHow::CreateNew });
                v.push(Step::HWriteTag { slot: s, len: 3000 + ((p.size as usize + 411 * k) % 1090), tag: 40 + k as u64 });
                v.push(Step::HClose { slot: s });
            }
            let order: Vec<&String> = if p.reverse { names.iter().rev().collect() } else { names.iter().collect() };
            for n in order {
                v.push(Step::Api(Op::RemoveStream(n.clone())));
            }
        }
        _ => {
            // empty storage created and removed; metadata set and reset
            v.push(Step::Api(Op::CreateStorage("/tmpst".into())));
            v.push(Step::Api(Op::RemoveStorage("/tmpst".into())));
            v.push(Step::Api(Op::SetState("/keep".into(), 5)));
            v.push(Step::Api(Op::SetState("/keep".into(), 0)));
        }
    }
    v
}

/// (root stream size, free mini sectors below it) of an image.
fn mini_state(bytes: &[u8]) -> Option<(u64, Vec<u32>)> {
    let img = refparse::parse(bytes).ok()?;
    let root = img.entries.first()?.size;
    let free = img.minifat.iter().take((root / 64) as usize).enumerate().filter(|(_, &x)| x == refparse::FREE).map(|(i, _)| i as u32).collect();
    Some((root, free))
}

struct CycleParams {
    /// template 12: how many small streams it takes to need a second MiniFAT sector
    many: usize,
    size: u64,
    keep_len: u64,
    delta: u64,
    reverse: bool,
}

fn c15_case(ctx: &Ctx, rep: &mut Report, rng: &mut Rng, version: Version, done: &mut Vec<Step>) -> Result<bool, Fail> {
    let mut sess = Session::create(version, None).map_err(|e| ("create | ok | err".to_string(), format!("{e}")))?;
    // random prefix: leaves the mini stream / MiniFAT at various fill levels
    let mut cfg = GenCfg::default();
    cfg.refusal_pct = 0;
    cfg.query_pct = 0;
    cfg.metadata_pct = 0;
    cfg.reopen_pct = 3;
    cfg.respell_pct = 0;
    cfg.case_variant_pct = 0;
    cfg.use_bad_names = false;
    cfg.max_size = *rng.pick(&[700, 4200, 9000, 70000]);
    cfg.names = &["p1", "p2", "p3", "p4", "p5", "p6", "p7", "p8", "dir", "dir2"];
    let gen = Gen::new(cfg);
    let n_prefix = rng.below(if ctx.quick() { 40 } else { 120 });
    let mut n = 0;
    while n < n_prefix {
        for step in gen.next(rng, &sess) {
            n += 1;
            run_step(&mut sess, step, done, rep)?;
        }
    }
    // fill level steering: k mini sectors at / around whole-sector multiples
    let per_sector: u64 = if version == Version::V3 { 8 } else { 64 };
    if rng.chance(1, 2) {
        let k = per_sector * rng.range(1, 3) + rng.below(3) - 1;
        run_step(&mut sess, Step::HOpen { slot: 6, path: "/fill".into(), how: OpenHow::Create }, done, rep)?;
        run_step(&mut sess, Step::HWriteTag { slot: 6, len: (k * 64).min(4095) as usize, tag: 1 }, done, rep)?;
        run_step(&mut sess, Step::HClose { slot: 6 }, done, rep)?;
        rep.count("prefix.fill_steered");
    }
    if rng.chance(1, 4) {
        // empty mini stream with an existing MiniFAT chain
        run_step(&mut sess, Step::Api(Op::RemoveStorageAll("/".into())), done, rep)?;
        rep.count("prefix.emptied");
    }
    // megabyte-sized cycles (thousands of sectors freed and re-used per repetition,
    // growth steps above 1 MiB) in a few cases
    let mega = rng.chance(1, if ctx.quick() { 30 } else { 12 });
    let keep_len = if mega { *rng.pick(&[4_200_000u64, 4_718_592, 6_000_000, 1_100_000, 7_600_000]) } else { *rng.pick(&[0u64, 10, 64, 100, 1000, 4000, 4095, 4096, 5000, 9000]) };
    run_step(&mut sess, Step::HOpen { slot: 6, path: "/keep".into(), how: OpenHow::Create }, done, rep)?;
    run_step(&mut sess, Step::HWriteTag { slot: 6, len: keep_len as usize, tag: 3 }, done, rep)?;
    run_step(&mut sess, Step::HClose { slot: 6 }, done, rep)?;
    let mut template = rng.below(13);
    if mega {
        template = *rng.pick(&[0u64, 2, 2, 3, 5, 0]);
    }
    let many = if version == Version::V3 { 3 + rng.usize_below(6) } else { 17 + rng.usize_below(20) };
    let mut params = CycleParams { many, size: *rng.pick(&[1u64, 60, 64, 100, 500, 1000, 4000, 4095, 4096, 5000, 10000, 70000]), keep_len, delta: *rng.pick(&[1u64, 63, 64, 500, 4000, 4096, 6000]), reverse: rng.chance(1, 2) };
    if mega {
        params.size = *rng.pick(&[2_200_000u64, 2_500_000, 3_145_728, 5_000_000]);
        params.delta = *rng.pick(&[1_048_576u64, 1_100_000, 2_621_440, 1_500_000]);
        rep.count("cycles_megabyte_sized");
    }
    let reps = rng.range(5, 10);
    let container = if params.size < 4096 || template == 12 { "mini" } else { "regular" };
    let before = sess.model.dump();
    let mut lens: Vec<usize> = Vec::new();
    let mut frees: Vec<(usize, usize, u64)> = Vec::new();
    let reopen_in_cycle = rng.chance(1, 4) || (template == 12 && rng.chance(1, 2));
    if reopen_in_cycle {
        rep.count("cycles_with_reopen");
    }
    // one case in eight: every repetition starts with a creation that fails on a store
    // hiccup (one underlying write or seek fails) and is then repeated by the cycle; what
    // the failed attempt had taken (a directory slot, sectors) must be reused as well
    let failing_create: Option<u64> = if !mega && matches!(template, 0 | 7 | 8) && rng.chance(1, 2) { Some(rng.below(45)) } else { None };
    if failing_create.is_some() {
        rep.count("cycles_with_a_failed_first_creation");
    }
    for r in 0..reps {
        if let Some(k) = failing_create {
            sess.shared.arm(vec![crate::backend::Fault { kinds: crate::backend::K_WRITE | crate::backend::K_SEEK, k, err: std::io::ErrorKind::Other, sticky: false, partial: false }]);
            let r0 = sess.cf().create_new_stream("/cyc").map(|_| ());
            sess.shared.disarm();
            if r0.is_ok() {
                // the fault was not reached: undo, so that the cycle starts as always
                let _ = sess.cf().remove_stream("/cyc");
            }
        }
        for step in cycle_steps(template, &params) {
            // "Space released ... is reused by later allocations": from the second repetition
            // on, whenever a write extends the file, the FAT as stored at that moment must
            // not list a free sector; and when the mini stream grows during a step, no mini
            // sector that was free before may still be free afterwards
            let watch = r >= 1;
            let mini_before = if watch { mini_state(&sess.shared.bytes()) } else { None };
            if watch {
                sess.shared.watch_growth(true);
            }
            let what = format!("{:?}", step);
            run_step(&mut sess, step, done, rep)?;
            if watch {
                if let Some((off, before)) = sess.shared.take_growth_snapshot() {
                    if let Ok(img) = refparse::parse(&before) {
                        let free: Vec<usize> = img.fat.iter().take(img.nsect).enumerate().filter(|(_, &x)| x == refparse::FREE).map(|(i, _)| i).collect();
                        rep.count("growth_events_inspected");
                        if !free.is_empty() {
                            return Err((format!("released space not reused | template{} | the file was extended although free sectors existed", template), format!("{}: repetition {} step {what}: a write at offset {off} extended the {}-byte file while its FAT listed {} free sector(s) (e.g. sector {})", vname(version), r + 1, before.len(), free.len(), free[0])));
                        }
                    }
                }
                sess.shared.watch_growth(false);
                if let (Some((root_b, free_b)), Some((root_a, _))) = (mini_before, mini_state(&sess.shared.bytes())) {
                    if root_a > root_b && !free_b.is_empty() {
                        // were the formerly free mini sectors used up by this step?
                        let after = sess.shared.bytes();
                        if let Ok(img) = refparse::parse(&after) {
                            let still: Vec<u32> = free_b.iter().cloned().filter(|&m| img.minifat.get(m as usize) == Some(&refparse::FREE)).collect();
                            rep.count("mini_growth_events_inspected");
                            if !still.is_empty() {
                                return Err((format!("released space not reused | template{} | the mini stream was extended although free mini sectors existed", template), format!("{}: repetition {} step {what}: the mini stream grew from {root_b} to {root_a} bytes while {} mini sector(s) that were free before the step are still free (e.g. mini sector {})", vname(version), r + 1, still.len(), still[0])));
                            }
                        }
                    }
                }
            }
        }
        if reopen_in_cycle {
            // closing and reopening the file is part of many real cycles; it does not change
            // the logical state
            // (template 12 always reopens leniently: a header count that has fallen behind its
            // chain is for C02 / C03 to report; what is measured here is the growth that goes
            // with it, and a refused strict reopen would end the measurement)
            run_step(&mut sess, Step::Reopen(if r % 2 == 0 || template == 12 { Mode::Permissive } else { Mode::Strict }), done, rep)?;
        }
        // the cycle must be net-zero on the logical state, else the case is a harness error
        let after = sess.model.dump();
        let same = before.len() == after.len() && before.iter().zip(after.iter()).all(|(a, b)| a.0.path == b.0.path && a.0.kind == b.0.kind && a.1 == b.1 && a.0.state == b.0.state);
        if !same {
            rep.inconclusive(format!("cycle template {template} is not net-zero in the model (harness error)"));
            return Ok(false);
        }
        sess.check_against_model(false).map_err(|w| ("harness-or-C01: dump | model | mismatch".to_string(), w))?;
        lens.push(sess.shared.len());
        if std::env::var_os("CFBMON_C15_TRACE").is_some() {
            let b = sess.shared.bytes();
            if let Ok(img) = refparse::parse(&b) {
                let free_fat = img.fat.iter().take(img.nsect).filter(|&&x| x == refparse::FREE).count();
                let root = img.entries.first().map(|e| e.size).unwrap_or(0);
                let free_mini = img.minifat.iter().take((root / 64) as usize).filter(|&&x| x == refparse::FREE).count();
                frees.push((free_fat, free_mini, root));
            }
        }
        let _ = r;
    }
    rep.count(&format!("cycles.template{}.{}", template, container));
    let sector = if version == Version::V3 { 512 } else { 4096 };
    let growth: Vec<i64> = lens.windows(2).map(|w| (w[1] as i64 - w[0] as i64) / sector).collect();
    let later_growth: i64 = growth.iter().skip(0).sum::<i64>();
    rep.count(&format!("growth_histogram.{}", later_growth.clamp(-1, 5)));
    // "unchanged from the second repetition on": the first repetition may allocate, and
    // the second may still differ because the free lists it starts from are in another
    // order; from then on the size must not move (a leak grows without bound).
    if lens[1] != lens[0] {
        rep.count("size_changed_between_repetition_1_and_2");
        if std::env::var_os("CFBMON_C15_TRACE").is_some() {
            eprintln!("C15TRACE {} template {} size {} keep {} delta {} reopen {} lens {:?} (free FAT cells, free mini sectors, root size) {:?}", vname(version), template, params.size, params.keep_len, params.delta, reopen_in_cycle, &lens[..lens.len().min(5)], &frees[..frees.len().min(5)]);
        }
    }
    if lens[2..].iter().any(|&l| l != lens[1]) {
        let per: Vec<String> = growth.iter().map(|g| format!("{g:+}")).collect();
        return Err((format!("growth | template{} | {} | file grows on repeating a net-zero cycle", template, container), format!("{}: file length after repetitions 1..{} = {:?} (sector deltas {})", vname(version), lens.len(), lens, per.join(","))));
    }
    Ok(true)
}

pub fn run_c15(ctx: &Ctx, rep: &mut Report) {
    let mut i = 0;
    while let Some(case) = ctx.next_case(&mut i) {
        let mut rng = ctx.case_rng(case);
        let version = hist::version_of(&mut rng);
        let mut done = Vec::new();
        let r = guard::catch(|| c15_case(ctx, rep, &mut rng, version, &mut done));
        let witness = |done: &Vec<Step>| ctx.witness(case, vec![("version", J::s(vname(version))), ("steps", steps_json(done))]);
        let mut ok = false;
        match r {
            Ok(Ok(b)) => ok = b,
            Ok(Err((sig, detail))) => {
                if sig.starts_with("harness-or-C01") {
                    rep.count("abandoned_model_divergence");
                    rep.set_insert("abandoned_signatures", sig);
                } else {
                    rep.finding(sig, detail, witness(&done))
                }
            }
            Err(p) => rep.finding(p.signature(), format!("panic at {}:{}: {}", p.file, p.line, p.message), witness(&done)),
        }
        if ok {
            let mut h = fnv64_add(0xcbf29ce484222325, vname(version).as_bytes());
            for s in &done {
                h = fnv64_add(h, format!("{:?}", s).as_bytes());
            }
            rep.nontrivial(h);
            rep.count("cycles_checked");
        }
        if rep.samples.len() < 2 {
            rep.sample(J::obj(vec![("version", J::s(vname(version))), ("last_steps", steps_json(&done[done.len().saturating_sub(30)..]))]));
        }
        rep.add("steps", done.len() as u64);
        rep.evaluations += 1;
    }
}

// ------------------------------------------------------------------ C17

pub struct MetaMonitor {
    checked: u64,
    expect_ok: bool,
    /// drives the occasional failed first attempt of a setter
    rng: Rng,
    /// a verdict reached in `before` (reported by `after`)
    pending: Option<Fail>,
}

impl Monitor for MetaMonitor {
    fn owns_divergence(&self) -> bool {
        // outcome kinds of the setters (NotFound / InvalidInput) are part of C17
        true
    }
    fn before(&mut self, sess: &mut Session, step: &Step, rep: &mut Report) {
        self.expect_ok = match step {
            Step::Api(op) => !probe_expect(sess, op).is_refusal(),
            _ => false,
        };
        // "Survives reopening" also after a hiccup of the store: one setter in twelve is
        // first attempted with one underlying write or seek failing (its outcome is not
        // judged, and the model does not see it); the step itself then is the retry, and
        // what it reports as set must be what every later check - reopen included - finds.
        if let Step::Api(op @ (Op::SetState(..) | Op::SetCreated(..) | Op::SetModified(..) | Op::SetClsid(..))) = step {
            if self.expect_ok && self.rng.chance(1, 12) {
                // (an entry is rewritten with 47 small writes, each after a seek: up to 96, so that the
                // fault may also come after the new value has reached the file)
                let k = self.rng.below(96);
                // variant B (storages and the root): what fails is a setter of a *different*
                // field of the same object, and it is not repeated; whatever the object shows
                // afterwards (the old or the new value - the call failed) is adopted, and the
                // step's own successful setter must then leave live object and file in agreement
                let path = match op {
                    Op::SetState(p, _) | Op::SetCreated(p, _) | Op::SetModified(p, _) | Op::SetClsid(p, _) => p.clone(),
                    _ => String::new(),
                };
                let names = model::normalise(&path).unwrap_or_default();
                let is_stream = sess.model.get(&names).map(|n| n.kind == Kind::Stream).unwrap_or(true);
                let other: Option<Op> = if !is_stream && self.rng.chance(1, 2) {
                    let mut c = [0u8; 16];
                    for b in c.iter_mut() {
                        *b = self.rng.next_u32() as u8;
                    }
                    let cands = [Op::SetState(path.clone(), self.rng.next_u32() | 1), Op::SetCreated(path.clone(), gen::pick_time_ns(&mut self.rng)), Op::SetModified(path.clone(), gen::pick_time_ns(&mut self.rng)), Op::SetClsid(path.clone(), c)];
                    let same = |a: &Op, b: &Op| std::mem::discriminant(a) == std::mem::discriminant(b);
                    let pool: Vec<Op> = cands.into_iter().filter(|c| !same(c, op)).collect();
                    Some(pool[self.rng.usize_below(pool.len())].clone())
                } else {
                    None
                };
                sess.shared.arm(vec![crate::backend::Fault { kinds: crate::backend::K_WRITE | crate::backend::K_SEEK, k, err: std::io::ErrorKind::Other, sticky: false, partial: false }]);
                let bytes_before = sess.shared.bytes();
                let r = engine::exec_api_on(sess.cf(), other.as_ref().unwrap_or(op));
                sess.shared.disarm();
                // the failed call changed nothing in the file (the fault came before the
                // first write that makes a difference)
                let nothing_written = sess.shared.bytes() == bytes_before;
                if r.is_err() && !nothing_written {
                    rep.count("failed_setter_had_written_part_of_the_entry");
                }
                // Sometimes the caller now sets the same field to what lookups report (puts it
                // back, as far as it can tell).  That call succeeds, so C17 applies to it in
                // full: what it set is what lookups and the stored bytes show - also if the
                // failed call had already put part of the entry into the file.
                if r.is_err() && self.rng.chance(1, 2) {
                    if let Ok(e) = sess.cf().entry(&path) {
                        let live = engine::view_of(&e);
                        let to_ns = |t: Option<u64>| (t.unwrap_or(0) as i128 - model::EPOCH_TICKS as i128) * 100;
                        let again = match other.as_ref().unwrap_or(op) {
                            Op::SetState(..) => Op::SetState(path.clone(), live.state),
                            Op::SetClsid(..) => Op::SetClsid(path.clone(), live.clsid),
                            Op::SetCreated(..) => Op::SetCreated(path.clone(), to_ns(live.ctime)),
                            _ => Op::SetModified(path.clone(), to_ns(live.mtime)),
                        };
                        match engine::exec_api_on(sess.cf(), &again) {
                            Err(e2) => {
                                self.pending = Some(("setter after a failed setter | err".to_string(), format!("{:?} failed (one underlying call refused); then {:?} (the value lookups report): {e2}", other.as_ref().unwrap_or(op), again)));
                            }
                            Ok(_) => {
                                rep.count("reported_value_set_again_after_a_failed_setter");
                                if let (Ok(e3), Ok(d)) = (sess.cf().entry(&path), engine::dump_bytes(&sess.shared.bytes(), Mode::Permissive)) {
                                    let now = engine::view_of(&e3);
                                    if let Some((stored, _)) = d.iter().find(|(v, _)| v.path == now.path) {
                                        if (stored.state, stored.clsid, stored.ctime, stored.mtime) != (now.state, now.clsid, now.ctime, now.mtime) || (now.state, now.clsid, now.ctime, now.mtime) != (live.state, live.clsid, live.ctime, live.mtime) {
                                            self.pending = Some(("setter Ok after a failed setter | lookups and the stored file disagree".to_string(), format!("{:?} failed (one underlying call refused, {} after part of the entry had been written); then {:?} returned Ok; entry({path}) shows state {:#x} clsid {:02x?} created {:?} modified {:?}, the stored bytes reopen with state {:#x} clsid {:02x?} created {:?} modified {:?}", other.as_ref().unwrap_or(op), if nothing_written { "not" } else { "possibly" }, again, now.state, now.clsid, now.ctime, now.mtime, stored.state, stored.clsid, stored.ctime, stored.mtime)));
                                        }
                                    }
                                }
                            }
                        }
                    }
                } else if r.is_err() && nothing_written {
                    // whichever value the failed call left behind, lookups and the stored
                    // bytes must tell the same story (the one-shot fault let nothing through)
                    if let Ok(e) = sess.cf().entry(&path) {
                        let live = engine::view_of(&e);
                        if let Ok(d) = engine::dump_bytes(&sess.shared.bytes(), Mode::Permissive) {
                            if let Some((stored, _)) = d.iter().find(|(v, _)| v.path == live.path) {
                                rep.count("failed_setter_live_vs_stored_checked");
                                if (stored.state, stored.clsid, stored.ctime, stored.mtime) != (live.state, live.clsid, live.ctime, live.mtime) {
                                    self.pending = Some(("failed setter | lookups and the stored file disagree".to_string(), format!("{:?} failed (one underlying call refused); entry({path}) now shows state {:#x} clsid {:02x?} created {:?} modified {:?}, the stored bytes reopen with state {:#x} clsid {:02x?} created {:?} modified {:?}", other.as_ref().unwrap_or(op), live.state, live.clsid, live.ctime, live.mtime, stored.state, stored.clsid, stored.ctime, stored.mtime)));
                                }
                            }
                        }
                    }
                }
                if other.is_some() {
                    // adopt what the live object shows now
                    if let Ok(e) = sess.cf().entry(&path) {
                        let v = engine::view_of(&e);
                        if let Some(n) = sess.model.get_mut(&names) {
                            n.state = v.state;
                            n.clsid = v.clsid;
                            n.ctime = v.ctime;
                            n.mtime = v.mtime;
                        }
                    }
                    rep.count(if r.is_err() { "other_setter_failed_and_not_repeated" } else { "other_setter_not_reached_by_the_fault" });
                } else {
                    rep.count(if r.is_err() { "setter_first_attempt_failed" } else { "setter_first_attempt_not_reached_by_the_fault" });
                }
            }
        }
    }
    fn after(&mut self, sess: &mut Session, step: &Step, rep: &mut Report) -> Result<(), Fail> {
        if let Some(f) = self.pending.take() {
            return Err(f);
        }
        // wall-clock window of a new storage / touch: floor100ns(before) <= t <= after
        if !self.expect_ok {
            return Ok(());
        }
        let (p, what) = match step {
            Step::Api(Op::CreateStorage(p)) => (p, "created=modified of a new storage"),
            Step::Api(Op::Touch(p)) => (p, "modified after touch"),
            _ => return Ok(()),
        };
        let (t0, t1) = sess.last_call_window;
        if t1 < t0 {
            rep.count("clock_stepped_backwards_skipped");
            return Ok(());
        }
        let names = match model::normalise(p) {
            Some(n) => n,
            None => return Ok(()),
        };
        let node_kind = sess.model.get(&names).map(|n| n.kind);
        if node_kind.is_none() {
            return Ok(()); // the call was refused
        }
        let e = sess.cf().entry(p).map_err(|e| ("entry after create | err".to_string(), format!("{e}")))?;
        let v = engine::view_of(&e);
        let lo = model::ticks_from_unix_ns(engine::st_to_ns(t0));
        let hi = model::ticks_from_unix_ns(engine::st_to_ns(t1));
        let (c, m) = (v.ctime.unwrap(), v.mtime.unwrap());
        if node_kind == Some(Kind::Stream) {
            if c != 0 || m != 0 {
                return Err(("touch on a stream | time changed".to_string(), format!("{p}: created {c}, modified {m}")));
            }
            rep.count("stream_touch_noop_checked");
            return Ok(());
        }
        let in_range = |t: u64| t >= lo && t <= hi;
        let ok = if matches!(step, Step::Api(Op::CreateStorage(_))) { c == m && in_range(c) } else { in_range(m) };
        if !ok {
            return Err((format!("clock window | {what}"), format!("{p}: created {c}, modified {m}, clock readings around the call {lo}..{hi} (ticks)")));
        }
        rep.count("clock_window_checks");
        // adopt
        if let Some(n) = sess.model.get_mut(&names) {
            if n.ctime.is_none() {
                n.ctime = Some(c);
            }
            if n.mtime.is_none() {
                n.mtime = Some(m);
            }
        }
        Ok(())
    }
    fn quiescent(&mut self, sess: &mut Session, rng: &mut Rng, _gen: &Gen, rep: &mut Report, done: &mut Vec<Step>) -> Result<(), Fail> {
        if !sess.open_slots().is_empty() {
            return Ok(());
        }
        // immediately, through entry / listings / walk
        sess.check_against_model(true).map_err(|w| ("metadata | live object | mismatch".to_string(), format!("after step #{}: {}", done.len(), w)))?;
        self.checked += 1;
        rep.count("live_checks");
        if !rng.chance(1, 3) {
            return Ok(());
        }
        // after reopening in both modes, and in the raw bytes
        let exp = sess.model.dump();
        let bytes = sess.shared.bytes();
        for mode in [Mode::Permissive, Mode::Strict] {
            let obs = engine::dump_bytes(&bytes, mode).map_err(|w| (format!("metadata | reopen {mode:?} | open failed"), w))?;
            engine::dumps_match(&exp, &obs).map_err(|w| (format!("metadata | reopen {mode:?} | mismatch"), format!("after step #{}: {}", done.len(), w)))?;
        }
        rep.count("reopen_checks");
        let (_img, _chk, log) = refparse::full(&bytes).map_err(|e| ("metadata | raw bytes | unreadable".to_string(), e))?;
        if log.len() != exp.len() {
            return Err(("metadata | raw bytes | tree".to_string(), format!("{} objects in the bytes, {} in the model", log.len(), exp.len())));
        }
        for (l, (v, _)) in log.iter().zip(exp.iter()) {
            if l.clsid != v.clsid {
                return Err(("metadata | raw bytes | CLSID layout".to_string(), format!("{}: bytes decode (per MS-CFB GUID layout) to {:02x?}, set value {:02x?}", v.path, l.clsid, v.clsid)));
            }
            if l.state != v.state {
                return Err(("metadata | raw bytes | state bits".to_string(), format!("{}: {:#x} vs {:#x}", v.path, l.state, v.state)));
            }
            if v.ctime.map(|t| t != l.ctime).unwrap_or(false) || v.mtime.map(|t| t != l.mtime).unwrap_or(false) {
                return Err(("metadata | raw bytes | ticks".to_string(), format!("{}: stored ticks {}/{}, expected {:?}/{:?}", v.path, l.ctime, l.mtime, v.ctime, v.mtime)));
            }
        }
        rep.count("raw_byte_checks");
        rep.max("max_entries", exp.len() as u64);
        Ok(())
    }
}

pub fn run_c17(ctx: &Ctx, rep: &mut Report) {
    let mut i = 0;
    while let Some(case) = ctx.next_case(&mut i) {
        let mut rng = ctx.case_rng(case);
        let rng = &mut rng;
        let version = hist::version_of(rng);
        let max_steps = if ctx.quick() { rng.range(15, 90) } else { rng.range(30, 300) } as usize;
        let mut cfg = GenCfg::default();
        cfg.refusal_pct = 12;
        cfg.query_pct = 8;
        cfg.metadata_pct = 45;
        cfg.reopen_pct = 3;
        cfg.soft_max_objects = *rng.pick(&[10, 40, 80]);
        cfg.max_size = 700;
        let mut mon = MetaMonitor { checked: 0, expect_ok: false, rng: Rng::derive(ctx.seed, &[17, 0xFA17, ctx.shard, case]), pending: None };
        // a fifth of the histories start from another writer's file whose free directory
        // slots still carry the metadata of deleted objects: new objects that reuse such a
        // slot must report their own defaults
        let mut start = None;
        let mut version = version;
        if rng.chance(1, 5) {
            if let Some((s, v)) = hist::foreign_start_with(rng, true) {
                start = Some(s);
                version = v;
                cfg.names = crate::synth::SYNTH_NAMES;
                rep.count("start.foreign_dirty_free_slots");
            }
        }
        let info = drive(ctx, case, rng, rep, DriveOpts { version, bufsize: None, max_steps, cfg, handle_mix_pct: 0, max_handles: 0, start }, &mut mon);
        let n_meta = info.steps.iter().filter(|s| matches!(s, Step::Api(Op::SetClsid(..) | Op::SetState(..) | Op::SetCreated(..) | Op::SetModified(..) | Op::Touch(_)))).count();
        for s in &info.steps {
            if let Step::Api(Op::SetCreated(_, ns) | Op::SetModified(_, ns)) = s {
                rep.count(&format!("time_class.{}", time_class(*ns)));
            }
        }
        if n_meta >= 3 {
            rep.nontrivial(info.hash);
        }
        rep.evaluations += 1;
    }
}

fn time_class(ns: i128) -> &'static str {
    const E: i128 = 116_444_736_000_000_000;
    let t = ns / 100 + E;
    if ns % 100 != 0 && t >= 0 && t <= u64::MAX as i128 {
        if ns < 0 {
            "off_grid_before_1970"
        } else {
            "off_grid_after_1970"
        }
    } else if t < 0 {
        "before_1601_saturates"
    } else if t > u64::MAX as i128 {
        "beyond_tick_limit_saturates"
    } else if ns < 0 {
        "on_grid_before_1970"
    } else {
        "on_grid_after_1970"
    }
}

#[allow(dead_code)]
fn unused(_: &dyn Fn() -> gen::TreeIndex) {}
