//! C04 - any valid layout written by another implementation is read correctly, and
//! mutating such a file afterwards keeps C01-C03.

use crate::common::Ctx;
use crate::engine::{self, Mode, Session, Step};
use crate::gen::{self, Gen, GenCfg};
use crate::guard;
use crate::model::{Kind, Model};
use crate::props::hist::{self, drive, DriveOpts, DumpMonitor, Fail, Monitor, ReopenMonitor, RulesMonitor};
use crate::refparse;
use crate::report::{hex, Report, J};
use crate::rng::{fnv64, Rng};
use crate::synth::{self, Layout};
use cfb::Version;

/// Runs C01, C02 and C03 monitors together; verdict signatures name the sub-monitor.
pub struct Multi {
    dump: DumpMonitor,
    reopen: ReopenMonitor,
    rules: RulesMonitor,
}

impl Monitor for Multi {
    fn owns_divergence(&self) -> bool {
        true
    }
    fn after(&mut self, sess: &mut Session, step: &Step, rep: &mut Report) -> Result<(), Fail> {
        self.rules.after(sess, step, rep).map_err(|(s, d)| (format!("after mutation | C03 | {s}"), d))
    }
    fn quiescent(&mut self, sess: &mut Session, rng: &mut Rng, gen: &Gen, rep: &mut Report, done: &mut Vec<Step>) -> Result<(), Fail> {
        self.dump.quiescent(sess, rng, gen, rep, done).map_err(|(s, d)| (format!("after mutation | C01 | {s}"), d))?;
        self.reopen.quiescent(sess, rng, gen, rep, done).map_err(|(s, d)| (format!("after mutation | C02 | {s}"), d))?;
        self.rules.quiescent(sess, rng, gen, rep, done).map_err(|(s, d)| (format!("after mutation | C03 | {s}"), d))
    }
}

/// Synth/refparse self-check: the image must pass the independent checker and decode to
/// the intended tree.  A failure is a harness error (inconclusive), never a violation.
pub fn self_check(model: &Model, bytes: &[u8]) -> Result<(), String> {
    let (_img, chk, log) = refparse::full(bytes)?;
    if let Some(v) = chk.violations.first() {
        return Err(format!("synthesised image violates {}: {}", v.rule, v.detail));
    }
    let exp = model.dump();
    if log.len() != exp.len() {
        return Err(format!("synthesised image decodes to {} objects, intended {}", log.len(), exp.len()));
    }
    for (l, (v, data)) in log.iter().zip(exp.iter()) {
        if l.path != v.path || (v.kind == Kind::Stream && &l.data != data) || l.clsid != v.clsid || l.state != v.state || l.ctime != v.ctime.unwrap_or(0) || l.mtime != v.mtime.unwrap_or(0) {
            return Err(format!("synthesised image decodes differently at {}", v.path));
        }
    }
    Ok(())
}

pub fn note_features(rep: &mut Report, f: &synth::Features, l: &Layout) {
    rep.count(&format!("layout.v{}", l.version));
    for (k, b) in [("fragmented_chain", f.fragmented_chain), ("dir_gaps", f.dir_gaps), ("red_nodes", f.red_nodes), ("out_of_order_fat", f.out_of_order_fat), ("difat_chain", f.difat_chain), ("free_sectors_inside", f.free_inside)] {
        if b {
            rep.count(&format!("layout.{k}"));
        }
    }
    if l.spare_fat > 0 {
        rep.count("layout.spare_fat_sectors");
    }
    if l.dirty_slack {
        rep.count("layout.dirty_slack_and_free_sectors");
    }
    rep.max("max_entries", f.entries as u64);
    rep.max("max_total_sectors", f.total_sectors as u64);
    rep.max("max_rb_tree_depth", f.max_tree_depth as u64);
}

pub fn run_c04(ctx: &Ctx, rep: &mut Report) {
    // layouts too large for a byte vector (version 4 with DIFAT sectors), shards 9 and 10
    if crate::props::huge::maybe_run_sparse_foreign(ctx, rep, 9) {
        return;
    }
    let mut i = 0;
    while let Some(case) = ctx.next_case(&mut i) {
        let mut rng = ctx.case_rng(case);
        let rng = &mut rng;
        let mut layout = Layout::random(rng);
        // one DIFAT-chain layout per shard in quick, 1% of cases in thorough
        let big = (case == 1) || (!ctx.quick() && rng.chance(1, 100));
        let max_nodes = if big { 20 } else { *rng.pick(&[3usize, 10, 30, 70]) };
        if big {
            layout.version = 3;
            layout.min_total_sectors = 109 * 128 + rng.range(10, 400) as usize;
        }
        let mut model = synth::random_model(rng, max_nodes, if big { 9000 } else { 20000 });
        if !big && rng.chance(1, 12) {
            // no small stream at all: the file has no mini stream, and the root entry's start
            // sector field holds whatever the other writer left there
            let n = rng.range(1, 4) as usize;
            let items: Vec<(String, Vec<u8>)> = (0..n).map(|i| (format!("big{i}"), crate::engine::payload(300 + i as u64, *rng.pick(&[4096usize, 5000, 8192, 9000, 20000])))).collect();
            model = synth::flat_model(&items);
            layout.stale_root_start = true;
            rep.count("layout.no_mini_stream_stale_root_start");
        }
        let (bytes, feat) = synth::synthesize(&model, &layout, rng);
        rep.evaluations += 1;
        if let Err(why) = self_check(&model, &bytes) {
            rep.count("harness_selfcheck_failed");
            rep.inconclusive(format!("synth/refparse self-check failed (case {case}): {why}"));
            continue;
        }
        note_features(rep, &feat, &layout);
        // one case in six: the file ends right after the last used byte (a partial final
        // sector, which the crate accepts) when its last sector is the tail of a regular stream
        let mut bytes = bytes;
        let mut truncated = false;
        if rng.chance(1, 6) {
            if let Ok(img) = refparse::parse(&bytes) {
                let last = img.nsect as u32 - 1;
                let mut probs = Vec::new();
                for e in img.entries.iter().filter(|e| e.obj_type == 2 && e.size >= 4096 && e.size % img.sector_len as u64 != 0) {
                    let chain = img.chain(e.start, "stream", &mut probs);
                    if chain.last() == Some(&last) {
                        let keep = img.sector_off(last) + (e.size % img.sector_len as u64) as usize;
                        bytes.truncate(keep);
                        truncated = true;
                        rep.count("layout.partial_final_sector");
                        break;
                    }
                }
            }
        }
        let open_buf = *rng.pick(&[None, None, Some(100usize), Some(1024), Some(1500), Some(4096)]);
        let h = fnv64(&bytes);
        let input_witness = |extra: Vec<(&str, J)>| {
            let mut v = vec![("layout", J::s(format!("{:?}", layout))), ("features", J::s(format!("{:?}", feat))), ("image_len", J::Int(bytes.len() as i128)), ("image_fnv64", J::s(format!("{h:016x}")))];
            if bytes.len() <= 40000 {
                v.push(("image_hex", J::s(hex(&bytes))));
            }
            v.extend(extra);
            ctx.witness(case, v)
        };
        // 1. open in both modes; the dump must be exactly the encoded content
        let mut failed = false;
        for mode in [Mode::Strict, Mode::Permissive] {
            let r = guard::catch(|| -> Result<(), Fail> {
                let mut sess = Session::open_bytes(bytes.clone(), mode, open_buf, model.clone()).map_err(|e| (format!("open {:?} | rejected a valid layout", mode), format!("{e}")))?;
                sess.check_against_model(true).map_err(|w| (format!("open {:?} | content differs", mode), w))?;
                // lookups under case variants must hit
                let mut r2 = Rng::new(h);
                for (p, _k) in sess.model.all_paths() {
                    if p == "/" {
                        continue;
                    }
                    let names = crate::model::normalise(&p).unwrap();
                    let v: Vec<String> = names.iter().map(|n| gen::case_variant(&mut r2, n)).collect();
                    let q = crate::model::join(&v);
                    if !sess.cf().exists(&q) {
                        return Err((format!("open {:?} | case-variant lookup misses", mode), format!("{q:?} (variant of {p:?}) not found")));
                    }
                }
                Ok(())
            });
            match r {
                Ok(Ok(())) => rep.count(&format!("opened.{:?}", mode)),
                Ok(Err((sig, detail))) => {
                    failed = true;
                    rep.finding(sig, detail, input_witness(vec![]));
                }
                Err(p) => {
                    failed = true;
                    rep.finding(p.signature(), format!("panic at {}:{}: {}", p.file, p.line, p.message), input_witness(vec![]));
                }
            }
        }
        if failed {
            continue;
        }
        if feat.entries >= 3 {
            rep.nontrivial(h);
        }
        if rep.samples.len() < 2 {
            rep.sample(J::obj(vec![("layout", J::s(format!("{:?}", layout))), ("features", J::s(format!("{:?}", feat))), ("paths", J::Arr(model.all_paths().iter().take(12).map(|(p, _)| J::s(p.clone())).collect()))]));
        }
        // 2. mutate it afterwards with the C01/C02/C03 monitors attached
        if big && layout.spare_difat && !truncated {
            // a spare DIFAT sector at the end of the chain: grow the file until a FAT sector
            // is appended (its DIFAT entry must go where its index says), then look at the
            // stored bytes
            // (these images consist mostly of FREE sectors: all of them have to be used up
            // before the FAT grows)
            let fill_len = feat.total_sectors * 512 + 140_000;
            let r = guard::catch(|| -> Result<(), Fail> {
                let mut sess = Session::open_bytes(bytes.clone(), Mode::Permissive, None, model.clone()).map_err(|e| ("open | rejected a valid layout".to_string(), format!("{e}")))?;
                for st in [Step::HOpen { slot: 0, path: "/fill".into(), how: engine::OpenHow::Create }, Step::HWriteAll { slot: 0, len: fill_len }, Step::HClose { slot: 0 }] {
                    if let Some(d) = sess.run(&st) {
                        return Err((d.signature.clone(), format!("growing a file with a spare DIFAT sector: {}: expected {}, observed {}", d.step, d.expected, d.observed)));
                    }
                }
                let exp = sess.model.dump();
                let stored = sess.shared.bytes();
                for mode in [Mode::Strict, Mode::Permissive] {
                    let obs = engine::dump_bytes(&stored, mode).map_err(|w| (format!("after growth | reopen {:?} | open failed", mode), format!("file with a spare DIFAT sector, grown by {fill_len} bytes: {w}")))?;
                    engine::dumps_match(&exp, &obs).map_err(|w| (format!("after growth | reopen {:?} | state differs", mode), w))?;
                }
                Ok(())
            });
            match r {
                Ok(Ok(())) => rep.count("spare_difat_grown_and_reopened"),
                Ok(Err((sig, d))) => rep.finding(sig, d, input_witness(vec![])),
                Err(p) => rep.finding(p.signature(), format!("panic at {}:{}: {}", p.file, p.line, p.message), input_witness(vec![])),
            }
        }
        if (big && ctx.quick()) || truncated {
            continue;
        }
        let mode = if rng.chance(1, 2) { Mode::Strict } else { Mode::Permissive };
        let mut sess = match Session::open_bytes(bytes.clone(), mode, None, model.clone()) {
            Ok(s) => s,
            Err(_) => continue,
        };
        // an over-provisioned FAT: grow the file until the spare FAT sectors are used up and
        // the library has to add one of its own (the DIFAT then lists foreign and own ones)
        if layout.spare_fat > 0 && (layout.version == 3 || rng.chance(1, 8)) {
            let sl = if layout.version == 3 { 512usize } else { 4096 };
            let covered = (feat.total_sectors + sl / 4 - 1) / (sl / 4) * (sl / 4) + layout.spare_fat * (sl / 4);
            let len = (covered - feat.total_sectors + 3) * sl;
            let steps = [Step::HOpen { slot: 0, path: "/fill".into(), how: engine::OpenHow::Create }, Step::HWriteAll { slot: 0, len }, Step::HClose { slot: 0 }];
            let mut ok = true;
            for st in &steps {
                match guard::catch(|| sess.run(st)) {
                    Ok(None) => {}
                    Ok(Some(d)) => {
                        rep.finding(d.signature.clone(), format!("growing a file with an over-provisioned FAT: step {}: expected {}, observed {}", d.step, d.expected, d.observed), input_witness(vec![]));
                        ok = false;
                        break;
                    }
                    Err(p) => {
                        rep.finding(p.signature(), format!("growing a file with an over-provisioned FAT: panic at {}:{}: {}", p.file, p.line, p.message), input_witness(vec![]));
                        ok = false;
                        break;
                    }
                }
            }
            if !ok {
                continue;
            }
            rep.count("spare_fat_filled_past_coverage");
        }
        let mut cfg = GenCfg::default();
        cfg.refusal_pct = 10;
        cfg.reopen_pct = 4;
        cfg.query_pct = 10;
        cfg.names = synth::SYNTH_NAMES;
        cfg.soft_max_objects = 30;
        cfg.max_size = 9000;
        let version = if layout.version == 3 { Version::V3 } else { Version::V4 };
        let mut mon = Multi { dump: DumpMonitor, reopen: ReopenMonitor { last_hdr: None, fork_pct: 5 }, rules: RulesMonitor { every: 1, n: 0 } };
        let max_steps = rng.range(10, 30) as usize;
        let before = rep.findings.len();
        let _info = drive(ctx, case, rng, rep, DriveOpts { version, bufsize: None, max_steps, cfg, handle_mix_pct: 0, max_handles: 0, start: Some(sess) }, &mut mon);
        if rep.findings.len() > before {
            // attach the synthesised input to the new finding's witness
            if let Some(f) = rep.findings.last_mut() {
                f.witness = J::obj(vec![("history", f.witness.clone()), ("input", input_witness(vec![]))]);
            }
        }
        rep.count("mutated_afterwards");
        let _ = (engine::dump_bytes, hist::vname);
    }
}
