//! Shared history driver for the properties that watch namespace/content histories
//! (C01, C02, C03, C10, C17 ...).  A `Monitor` gets callbacks before/after every step
//! and at quiescent points (no handle holds unflushed data).

use crate::common::Ctx;
use crate::engine::{self, Mode, Session, Step};
use crate::gen::{Gen, GenCfg};
use crate::guard;
use crate::model::{Expect, Op};
use crate::refparse;
use crate::report::{Report, J};
use crate::rng::{fnv64_add, Rng};
use cfb::Version;

pub type Fail = (String, String); // (signature, detail)

pub trait Monitor {
    fn before(&mut self, _sess: &mut Session, _step: &Step, _rep: &mut Report) {}
    fn after(&mut self, _sess: &mut Session, _step: &Step, _rep: &mut Report) -> Result<(), Fail> {
        Ok(())
    }
    fn quiescent(&mut self, _sess: &mut Session, _rng: &mut Rng, _gen: &Gen, _rep: &mut Report, _done: &mut Vec<Step>) -> Result<(), Fail> {
        Ok(())
    }
    /// Whether a divergence between the implementation's outcome and the model is this
    /// property's business (C01) or only ends the history (everything else).
    fn owns_divergence(&self) -> bool {
        false
    }
    /// A monitor that does not own divergences in general may still claim one that is
    /// exactly what it watches for (e.g. "a refused seek moved the position" is C10's).
    fn claims(&self, _d: &crate::engine::Divergence) -> bool {
        false
    }
    /// Called for a divergence the monitor neither owns nor claims, before the history
    /// is abandoned: the monitor may still find *its own* property violated by what the
    /// call did (C10: a call that was refused - predicted or not - changed the bytes).
    fn on_divergence(&mut self, _sess: &mut Session, _step: &Step, _d: &crate::engine::Divergence, _rep: &mut Report) -> Option<Fail> {
        None
    }
}

pub fn steps_json(steps: &[Step]) -> J {
    J::Arr(steps.iter().map(|s| J::s(format!("{:?}", s))).collect())
}

pub fn version_of(rng: &mut Rng) -> Version {
    if rng.chance(1, 2) {
        Version::V3
    } else {
        Version::V4
    }
}

pub fn vname(v: Version) -> &'static str {
    match v {
        Version::V3 => "V3",
        Version::V4 => "V4",
    }
}

pub fn size_class(n: u64) -> &'static str {
    match n {
        0 => "0",
        1..=63 => "lt64",
        64 => "64",
        65..=4095 => "mini",
        4096 => "4096",
        4097..=65535 => "regular",
        _ => "ge64k",
    }
}

/// Coverage bookkeeping for one step about to be executed.
pub fn note_step(rep: &mut Report, sess: &Session, step: &Step) {
    rep.count(&format!("op.{}", step.name()));
    if let Step::Api(op) = step {
        let mut probe = sess.model.clone();
        if let Expect::Refuse { classes, .. } = probe.apply(op) {
            for c in classes {
                rep.count(&format!("refusal.{c}"));
            }
        }
        if let Op::RemoveStream(p) | Op::RemoveStorage(p) = op {
            if let Ok(img) = refparse::parse(&sess.shared.bytes()) {
                if let Some(norm) = crate::model::normalise(p) {
                    if let Some((_, sh)) = refparse::shape_of(&img, &crate::model::join(&norm)) {
                        let k = sh.has_left as u32 + sh.has_right as u32;
                        rep.count(&format!("removal_children.{k}"));
                        rep.max("max_sibling_depth", sh.depth as u64);
                    }
                }
            }
        }
    }
    if let Step::HWriteAll { len, .. } | Step::HWrite { len, .. } = step {
        rep.count(&format!("size_class.{}", size_class(*len as u64)));
    }
    if let Step::Reopen(m) = step {
        rep.count(&format!("reopen.{:?}", m));
    }
}

pub struct CaseInfo {
    pub steps: Vec<Step>,
    pub hash: u64,
    pub saw_removal: bool,
    pub saw_large: bool,
    pub abandoned: bool,
}

pub struct DriveOpts {
    pub version: Version,
    pub bufsize: Option<usize>,
    pub max_steps: usize,
    pub cfg: GenCfg,
    /// Percent of step groups that act on long-lived handles (open one / use one),
    /// which leaves unflushed data in buffers between API calls.
    pub handle_mix_pct: u64,
    pub max_handles: usize,
    /// Start from this session (e.g. a synthesised foreign image) instead of a fresh file.
    pub start: Option<Session>,
}

/// Runs one history.  Failures (monitor verdicts, owned divergences, panics) are
/// recorded as findings in `rep` with the explicit step list as witness.
pub fn drive(ctx: &Ctx, case: u64, rng: &mut Rng, rep: &mut Report, mut opts: DriveOpts, mon: &mut dyn Monitor) -> CaseInfo {
    let gen = Gen::new(opts.cfg.clone());
    let mut done: Vec<Step> = Vec::new();
    let mut info = CaseInfo { steps: Vec::new(), hash: fnv64_add(0xcbf29ce484222325, vname(opts.version).as_bytes()), saw_removal: false, saw_large: false, abandoned: false };
    let version = opts.version;
    let res = guard::catch(|| -> Result<(), Fail> {
        let mut sess = match opts.start.take() {
            Some(s) => s,
            None => Session::create(version, opts.bufsize).map_err(|e| ("create | ok | err".to_string(), format!("create failed: {e}")))?,
        };
        let mut n = 0;
        while n < opts.max_steps {
            let steps = if opts.handle_mix_pct > 0 && rng.below(100) < opts.handle_mix_pct { handle_mix(rng, &sess, opts.max_handles) } else { gen.next(rng, &sess) };
            for step in steps {
                n += 1;
                if let Step::Api(Op::RemoveStream(_) | Op::RemoveStorage(_) | Op::RemoveStorageAll(_)) = &step {
                    info.saw_removal = true;
                }
                if let Step::HWriteAll { len, .. } = &step {
                    if *len >= 4096 {
                        info.saw_large = true;
                    }
                }
                info.hash = fnv64_add(info.hash, format!("{:?}", step).as_bytes());
                note_step(rep, &sess, &step);
                done.push(step.clone());
                mon.before(&mut sess, &step, rep);
                if let Some(d) = sess.run(&step) {
                    if mon.owns_divergence() || mon.claims(&d) {
                        return Err((d.signature.clone(), format!("step #{} {}: expected {}, observed {}", d.step_index, d.step, d.expected, d.observed)));
                    }
                    if let Some(f) = mon.on_divergence(&mut sess, &step, &d, rep) {
                        return Err(f);
                    }
                    rep.count("abandoned_model_divergence");
                    rep.set_insert("abandoned_signatures", d.signature.clone());
                    info.abandoned = true;
                    return Ok(());
                }
                mon.after(&mut sess, &step, rep)?;
            }
            if !sess.any_dirty() {
                mon.quiescent(&mut sess, rng, &gen, rep, &mut done)?;
            }
        }
        Ok(())
    });
    let witness = |done: &Vec<Step>| ctx.witness(case, vec![("version", J::s(vname(version))), ("bufsize", match opts.bufsize { Some(b) => J::Int(b as i128), None => J::Null }), ("steps", steps_json(done))]);
    match res {
        Ok(Ok(())) => {}
        Ok(Err((sig, detail))) => rep.finding(sig, detail, witness(&done)),
        Err(p) => rep.finding(p.signature(), format!("panic at {}:{}: {}", p.file, p.line, p.message), witness(&done)),
    }
    rep.add("steps", done.len() as u64);
    if rep.samples.len() < 2 {
        rep.sample(J::obj(vec![("version", J::s(vname(version))), ("steps", steps_json(&done[..done.len().min(25)]))]));
    }
    info.steps = done;
    info
}

/// A step on a long-lived handle: open one on a stream that has none, or use one.
pub fn handle_mix(rng: &mut Rng, sess: &Session, max_handles: usize) -> Vec<Step> {
    use crate::props::handles::{handle_step, HCfg};
    let open = sess.open_slots();
    let idx = crate::gen::index(sess);
    if (open.is_empty() || (open.len() < max_handles && rng.chance(1, 4))) && !idx.streams.is_empty() {
        for _ in 0..4 {
            let p = rng.pick(&idx.streams).clone();
            let names = crate::model::normalise(&p).unwrap();
            if sess.handle_on(&names).is_none() {
                // a third of the long-lived handles are opened under a letter-case variant
                let path = if rng.chance(1, 3) { crate::model::join(&names.iter().map(|n| crate::gen::case_variant(rng, n)).collect::<Vec<_>>()) } else { p };
                return vec![Step::HOpen { slot: sess.free_slot(), path, how: crate::engine::OpenHow::Open }];
            }
        }
    }
    if open.is_empty() {
        return vec![Step::Api(Op::Walk)];
    }
    let slot = *rng.pick(&open);
    if rng.chance(1, 12) {
        // flush-and-drop, or just drop (Drop writes the buffer back)
        return vec![if rng.chance(1, 2) { Step::HClose { slot } } else { Step::HDrop { slot } }];
    }
    let hcfg = HCfg { max_len: 20000, extreme_seeks: true, set_len_pct: 5, raw_rw: true, cap_hint: 1024 };
    vec![handle_step(rng, sess, slot, &hcfg)]
}

// ------------------------------------------------------------------ C01

pub struct DumpMonitor;

impl Monitor for DumpMonitor {
    fn owns_divergence(&self) -> bool {
        true
    }
    fn quiescent(&mut self, sess: &mut Session, rng: &mut Rng, _gen: &Gen, rep: &mut Report, done: &mut Vec<Step>) -> Result<(), Fail> {
        if !sess.open_slots().is_empty() {
            return Ok(());
        }
        if rng.chance(1, 40) {
            // listings report current lengths, also when the listing was started before a
            // handle changed one of them
            crate::props::handles::listing_across_a_write_episode(sess, rng, rep)?;
        }
        let deep = rng.chance(1, 4);
        match sess.check_against_model(deep) {
            Ok(k) => {
                rep.count("dumps_compared");
                if deep {
                    rep.count("deep_dumps_compared");
                }
                rep.max("max_objects", k as u64);
                Ok(())
            }
            Err(why) => Err(("dump | model | mismatch".to_string(), format!("after step #{}: {}", done.len(), why))),
        }
    }
}

/// A session on a synthesised foreign image (self-checked by the independent parser;
/// a failing self-check means "no foreign start", never a verdict).
pub fn foreign_start(rng: &mut Rng) -> Option<(Session, Version)> {
    foreign_start_with(rng, false)
}

/// With `dirty_free_slots`, the unallocated directory entries of the image keep stale
/// CLSID / state / time fields of "deleted objects" (only the type byte says unallocated;
/// both open modes accept that).
pub fn foreign_start_with(rng: &mut Rng, dirty_free_slots: bool) -> Option<(Session, Version)> {
    let mut layout = crate::synth::Layout::random(rng);
    if dirty_free_slots {
        layout.dir_gap_pct = *rng.pick(&[20, 60, 150]);
    }
    let n = *rng.pick(&[3usize, 10, 30]);
    let model = crate::synth::random_model(rng, n, 9000);
    let (mut bytes, _f) = crate::synth::synthesize(&model, &layout, rng);
    if crate::props::foreign::self_check(&model, &bytes).is_err() {
        return None;
    }
    if dirty_free_slots {
        let img = refparse::parse(&bytes).ok()?;
        let per = img.sector_len / 128;
        let mut n = 0;
        for &sec in &img.dir_chain {
            for k in 0..per {
                let base = img.sector_off(sec) + 128 * k;
                if bytes[base + 66] == 0 {
                    for b in bytes[base + 80..base + 116].iter_mut() {
                        *b = (rng.next_u32() as u8) | 1;
                    }
                    n += 1;
                }
            }
        }
        if n == 0 {
            return None;
        }
    }
    let mode = if rng.chance(1, 2) { Mode::Strict } else { Mode::Permissive };
    let sess = Session::open_bytes(bytes, mode, None, model).ok()?;
    let v = if layout.version == 3 { Version::V3 } else { Version::V4 };
    Some((sess, v))
}

pub fn run_c01(ctx: &Ctx, rep: &mut Report) {
    if crate::props::wide::maybe_run(ctx, rep, crate::props::wide::Role::Model, 0, 8) {
        return;
    }
    // lengths and bytes of very long streams, live and reopened (version 4 around 2^32,
    // version 3 at 2 GiB and a little): shards 10-15
    if crate::props::huge::maybe_run(ctx, rep, "beyond 4 GiB", 10) {
        return;
    }
    let mut i = 0;
    while let Some(case) = ctx.next_case(&mut i) {
        let mut rng = ctx.case_rng(case);
        let rng = &mut rng;
        let version = version_of(rng);
        let max_steps = if ctx.quick() { rng.range(10, 80) } else { rng.range(20, 300) } as usize;
        let mut cfg = GenCfg::default();
        cfg.refusal_pct = *rng.pick(&[10, 25, 40]);
        cfg.reopen_pct = *rng.pick(&[0, 3, 10]);
        cfg.soft_max_objects = *rng.pick(&[8, 20, 45]);
        if rng.chance(1, 3) {
            cfg.max_size = 5000;
        }
        // a quarter of the histories start from a synthesised foreign layout (red-black
        // sibling trees, permuted sectors, directory gaps) instead of a fresh file
        let mut start = None;
        let mut version = version;
        if rng.chance(1, 4) {
            if let Some((s, v)) = foreign_start(rng) {
                start = Some(s);
                version = v;
                cfg.names = crate::synth::SYNTH_NAMES;
                rep.count("start.foreign_layout");
            }
        }
        let info = drive(ctx, case, rng, rep, DriveOpts { version, bufsize: None, max_steps, cfg, handle_mix_pct: 0, max_handles: 0, start }, &mut DumpMonitor);
        if info.saw_removal && info.saw_large {
            rep.nontrivial(info.hash);
        }
        rep.evaluations += 1;
    }
}

// ------------------------------------------------------------------ C02

/// Write-through persistence: at every crash point the raw bytes (no flush) reopen in
/// both modes to the live state; sometimes the history forks onto the reopened file.
pub struct ReopenMonitor {
    pub last_hdr: Option<Vec<u8>>,
    pub fork_pct: u64,
}

fn hdr_fields(bytes: &[u8]) -> Vec<u8> {
    bytes.get(40..76).map(|s| s.to_vec()).unwrap_or_default()
}

/// Write-through also when the bytes written equal what the handle's (stale) read window
/// holds: handle A has read the stream; handle B overwrites a region and flushes; A writes
/// the original bytes back over that region and flushes - the stored bytes must be the
/// original ones again.  Scratch stream, removed again.
fn restore_through_a_stale_handle_episode(sess: &mut Session, rng: &mut Rng, rep: &mut Report) -> Result<(), Fail> {
    use std::io::{Read, Seek, SeekFrom, Write};
    let io = |what: &str| {
        let w = what.to_string();
        move |e: std::io::Error| ("harness-or-C01: stale-handle episode".to_string(), format!("{w}: {e}"))
    };
    let len = *rng.pick(&[200usize, 3000, 6000]);
    let at = rng.below(len as u64 - 40);
    let orig = crate::engine::payload(77, len);
    let cf = sess.cf();
    {
        let mut s = cf.create_stream("/tw").map_err(io("create_stream"))?;
        s.write_all(&orig).map_err(io("write"))?;
        s.flush().map_err(io("flush"))?;
    }
    let mut a = cf.open_stream("/tw").map_err(io("open A"))?;
    let mut seen = Vec::new();
    a.read_to_end(&mut seen).map_err(io("read through A"))?;
    {
        let mut b = cf.open_stream("/tw").map_err(io("open B"))?;
        b.seek(SeekFrom::Start(at)).map_err(io("seek B"))?;
        b.write_all(&[0xEE; 16]).map_err(io("write through B"))?;
        b.flush().map_err(io("flush B"))?;
    }
    a.seek(SeekFrom::Start(at)).map_err(io("seek A"))?;
    a.write_all(&orig[at as usize..at as usize + 16]).map_err(io("write through A"))?;
    a.flush().map_err(io("flush A"))?;
    drop(a);
    let stored = sess.shared.bytes();
    let mut res = Ok(());
    for mode in [Mode::Strict, Mode::Permissive] {
        let d = engine::dump_bytes(&stored, mode).map_err(|w| ("crash-point | reopen | open failed".to_string(), format!("stale-handle episode: {w}")))?;
        let got = d.iter().find(|(v, _)| v.path == "/tw").map(|(_, b)| b.clone()).unwrap_or_default();
        if got != orig {
            res = Err(("crash-point | bytes written through a handle are not in the stored file".to_string(), format!("/tw ({len} bytes): handle A had read it, handle B overwrote 16 bytes at {at} and flushed, A wrote the original 16 bytes back and flushed; the stored file ({mode:?}) still holds {}", engine::describe_bytes_diff(&orig, &got))));
            break;
        }
    }
    sess.cf().remove_stream("/tw").map_err(io("remove_stream"))?;
    rep.count("stale_handle_restores_checked");
    res
}

/// One handle whose window already covers the stream (it wrote and flushed it, or read it)
/// patches it in several places in no particular order - later patches at lower offsets
/// than earlier ones - between two flushes; what the handle shows afterwards and what the
/// stored bytes hold must both be the patched content.
fn scattered_patches_episode(sess: &mut Session, rng: &mut Rng, rep: &mut Report) -> Result<(), Fail> {
    use std::io::{Read, Seek, SeekFrom, Write};
    let io = |what: &str| {
        let w = what.to_string();
        move |e: std::io::Error| ("harness-or-C01: scattered-patches episode".to_string(), format!("{w}: {e}"))
    };
    let len = *rng.pick(&[120usize, 1000, 3000, 5000, 9000]);
    let mut want = crate::engine::payload(78, len);
    let cf = sess.cf();
    let mut s = cf.create_stream("/sp").map_err(io("create_stream"))?;
    s.write_all(&want).map_err(io("write"))?;
    s.flush().map_err(io("flush"))?;
    if rng.chance(1, 2) {
        // warm from reading instead of from the write
        drop(s);
        s = cf.open_stream("/sp").map_err(io("open"))?;
        let mut seen = Vec::new();
        s.read_to_end(&mut seen).map_err(io("read"))?;
    }
    let mut log = Vec::new();
    for round in 0..2 {
        let n = rng.range(2, 5);
        for k in 0..n {
            let l = 1 + rng.below(30) as usize;
            let at = rng.below((len - l) as u64 + 1) as usize;
            let patch = vec![0xC0u8 | (round * 8 + k) as u8; l];
            s.seek(SeekFrom::Start(at as u64)).map_err(io("seek"))?;
            s.write_all(&patch).map_err(io("patch"))?;
            want[at..at + l].copy_from_slice(&patch);
            log.push(format!("{l}@{at}"));
        }
        s.flush().map_err(io("flush after patches"))?;
        log.push("flush".into());
    }
    let mut live = Vec::new();
    s.seek(SeekFrom::Start(0)).map_err(io("seek 0"))?;
    s.read_to_end(&mut live).map_err(io("read back"))?;
    drop(s);
    let stored = sess.shared.bytes();
    let mut res = Ok(());
    if live != want {
        res = Err(("harness-or-C01: scattered-patches episode | handle reads something else".to_string(), format!("/sp ({len} bytes), patches {:?}: {}", log, engine::describe_bytes_diff(&want, &live))));
    } else {
        for mode in [Mode::Strict, Mode::Permissive] {
            let d = engine::dump_bytes(&stored, mode).map_err(|w| ("crash-point | reopen | open failed".to_string(), format!("scattered-patches episode: {w}")))?;
            let got = d.iter().find(|(v, _)| v.path == "/sp").map(|(_, b)| b.clone()).unwrap_or_default();
            if got != want {
                res = Err(("crash-point | bytes written through a handle are not in the stored file".to_string(), format!("/sp ({len} bytes): one handle patched it ({:?}) and flushed; the live handle shows the patched content, the stored file ({mode:?}) holds {}", log, engine::describe_bytes_diff(&want, &got))));
                break;
            }
        }
    }
    sess.cf().remove_stream("/sp").map_err(io("remove_stream"))?;
    rep.count("scattered_patch_episodes_checked");
    res
}

impl Monitor for ReopenMonitor {
    fn quiescent(&mut self, sess: &mut Session, rng: &mut Rng, gen: &Gen, rep: &mut Report, done: &mut Vec<Step>) -> Result<(), Fail> {
        if sess.open_slots().is_empty() && rng.chance(1, 40) {
            restore_through_a_stale_handle_episode(sess, rng, rep)?;
        }
        if sess.open_slots().is_empty() && rng.chance(1, 30) {
            scattered_patches_episode(sess, rng, rep)?;
        }
        // the live object must itself agree with the model, otherwise the comparison
        // below would blame persistence for a C01 matter
        let exp = sess.model.dump();
        let bytes = sess.shared.bytes();
        let live_ok = if sess.open_slots().is_empty() {
            match sess.check_against_model(false) {
                Ok(_) => true,
                Err(_) => false,
            }
        } else {
            true
        };
        if !live_ok {
            rep.count("abandoned_live_disagrees_with_model");
            return Ok(());
        }
        let exp = if sess.open_slots().is_empty() { sess.model.dump() } else { exp };
        // which write-through boundaries were crossed since the last crash point
        let h = hdr_fields(&bytes);
        if let Some(prev) = &self.last_hdr {
            let names = ["num_dir_sectors", "num_fat_sectors", "first_dir", "trans", "cutoff", "first_minifat", "num_minifat", "first_difat", "num_difat"];
            for (k, name) in names.iter().enumerate() {
                if prev.get(4 * k..4 * k + 4) != h.get(4 * k..4 * k + 4) {
                    rep.count(&format!("hdr_change.{name}"));
                }
            }
            if prev.len() == h.len() && bytes.len() > 512 {
                // file length change = sectors appended
            }
        }
        self.last_hdr = Some(h);
        for mode in [Mode::Permissive, Mode::Strict] {
            match engine::dump_bytes(&bytes, mode) {
                Ok(obs) => {
                    engine::dumps_match(&exp, &obs).map_err(|why| (format!("crash-point | reopen {:?} | state differs", mode), format!("after step #{}: bytes taken without flush reopen to a different state: {}", done.len(), why)))?;
                    rep.count(&format!("crash_points.{:?}", mode));
                }
                Err(why) => return Err((format!("crash-point | reopen {:?} | open failed", mode), format!("after step #{}: {}", done.len(), why))),
            }
        }
        rep.count("crash_points");
        // fork: continue on the reopened file and on the live one
        if sess.open_slots().is_empty() && rng.below(100) < self.fork_pct {
            let mode = if rng.chance(1, 2) { Mode::Permissive } else { Mode::Strict };
            let mut other = Session::open_bytes(bytes, mode, sess.bufsize, sess.model.clone()).map_err(|e| ("fork | open | err".to_string(), format!("{e}")))?;
            other.write_counter = sess.write_counter;
            let k = rng.range(5, 15);
            rep.count("forks");
            let mut fork_steps = 0;
            'outer: for _ in 0..k {
                let steps = gen.next(rng, sess);
                for step in steps {
                    if matches!(step, Step::Reopen(_)) {
                        continue;
                    }
                    done.push(step.clone());
                    fork_steps += 1;
                    let a = sess.run(&step);
                    let b = other.run(&step);
                    match (a, b) {
                        (None, None) => {}
                        (Some(_), _) => {
                    rep.count("abandoned_model_divergence");
                            break 'outer;
                        }
                        (None, Some(d)) => {
                            return Err((format!("fork | {} | reopened file behaves differently", step.name()), format!("step {} on the reopened ({:?}) file: expected {}, observed {}; the live object gave the expected result", d.step, mode, d.expected, d.observed)));
                        }
                    }
                }
                if !sess.any_dirty() && sess.open_slots().is_empty() {
                    let la = sess.check_against_model(false);
                    let lb = other.check_against_model(false);
                    match (la, lb) {
                        (Ok(_), Ok(_)) => {}
                        (Err(_), _) => {
                            rep.count("abandoned_live_disagrees_with_model");
                            break 'outer;
                        }
                        (Ok(_), Err(why)) => return Err(("fork | dump | reopened file behaves differently".to_string(), format!("after continuing on the reopened ({:?}) file: {}", mode, why))),
                    }
                }
            }
            rep.add("fork_steps", fork_steps);
            // leave no handles open on either
            let _ = other.close_all();
        }
        Ok(())
    }
}

/// Crash points across DIFAT growth: a v3 file is grown past 109 FAT sectors (first DIFAT
/// sector) - in thorough runs past the second DIFAT sector - with the raw bytes reopened
/// in both modes at checkpoints, densely around each new FAT / DIFAT sector.
fn c02_large_scenario(ctx: &Ctx, case: u64, rep: &mut Report) {
    use crate::engine::OpenHow;
    let mut done: Vec<Step> = Vec::new();
    // shards 0, 8: v3 past the first (thorough: second) DIFAT sector; shard 4: v4 past 1024
    // sectors (second FAT sector); shard 12: v4 with > 1024 mini sectors and > 32 entries
    let variant = (ctx.shard / 4) % 4;
    let (version, n_streams, stream_len): (Version, usize, usize) = match variant {
        1 => (Version::V4, 70, 70000),
        3 => (Version::V4, 120, 1500),
        _ => (Version::V3, if ctx.quick() { 116 } else { 250 }, 65536),
    };
    let res = guard::catch(|| -> Result<(), Fail> {
        let mut sess = Session::create(version, None).map_err(|e| ("create | ok | err".to_string(), format!("{e}")))?;
        let mut last_fat = 0u32;
        let mut last_minifat = 0u32;
        let mut last_dir = 0u32;
        for k in 0..n_streams {
            for st in [Step::HOpen { slot: 0, path: format!("/s{k}"), how: OpenHow::Create }, Step::HWriteAll { slot: 0, len: stream_len + (k % 3) }, Step::HClose { slot: 0 }] {
                done.push(st.clone());
                if sess.run(&st).is_some() {
                    rep.count("abandoned_model_divergence");
                    return Ok(());
                }
            }
            let bytes = sess.shared.bytes();
            let n_fat = u32::from_le_bytes([bytes[44], bytes[45], bytes[46], bytes[47]]);
            let n_difat = u32::from_le_bytes([bytes[72], bytes[73], bytes[74], bytes[75]]);
            let fat_grew = n_fat != last_fat;
            last_fat = n_fat;
            // every new FAT sector near / beyond the header DIFAT's capacity, plus a sparse sample
            let n_minifat = u32::from_le_bytes([bytes[64], bytes[65], bytes[66], bytes[67]]);
            let n_dir = u32::from_le_bytes([bytes[40], bytes[41], bytes[42], bytes[43]]);
            let minifat_grew = n_minifat != last_minifat;
            let dir_grew = n_dir != last_dir;
            last_minifat = n_minifat;
            last_dir = n_dir;
            if (fat_grew && (n_fat >= 108 || version == Version::V4)) || minifat_grew || dir_grew || k % 25 == 24 || k + 1 == n_streams {
                let exp = sess.model.dump();
                for mode in [Mode::Permissive, Mode::Strict] {
                    let obs = engine::dump_bytes(&bytes, mode).map_err(|w| (format!("crash-point | reopen {:?} | open failed", mode), format!("large scenario: after stream {k} ({n_fat} FAT sectors, {n_difat} DIFAT sectors): {w}")))?;
                    engine::dumps_match(&exp, &obs).map_err(|w| (format!("crash-point | reopen {:?} | state differs", mode), format!("large scenario: after stream {k} ({n_fat} FAT sectors, {n_difat} DIFAT sectors): {w}")))?;
                }
                rep.count("crash_points");
                rep.count("large_scenario.crash_points");
                if n_difat > 0 {
                    rep.count("large_scenario.crash_points_with_difat_sector");
                }
                rep.max("max_fat_sectors", n_fat as u64);
                rep.max("max_difat_sectors", n_difat as u64);
                rep.max("max_minifat_sectors", n_minifat as u64);
                rep.max("max_dir_sectors_v4", n_dir as u64);
                rep.count(&format!("large_scenario.variant{variant}.crash_points"));
            }
        }
        if variant == 2 && ctx.quick() {
            // the second and third DIFAT sector (237th / 364th FAT sector, 15.5 / 23.8 MB) reached cheaply by set_len
            for st in [Step::HOpen { slot: 0, path: "/tail".into(), how: OpenHow::Create }, Step::HSetLen { slot: 0, n: 17_000_000 }, Step::HClose { slot: 0 }] {
                done.push(st.clone());
                if sess.run(&st).is_some() {
                    rep.count("abandoned_model_divergence");
                    return Ok(());
                }
            }
            let bytes = sess.shared.bytes();
            let n_fat = u32::from_le_bytes([bytes[44], bytes[45], bytes[46], bytes[47]]);
            let n_difat = u32::from_le_bytes([bytes[72], bytes[73], bytes[74], bytes[75]]);
            let exp = sess.model.dump();
            for mode in [Mode::Permissive, Mode::Strict] {
                let obs = engine::dump_bytes(&bytes, mode).map_err(|w| (format!("crash-point | reopen {:?} | open failed", mode), format!("large scenario: after growing to {} bytes ({n_fat} FAT sectors, header says {n_difat} DIFAT sectors): {w}", bytes.len())))?;
                engine::dumps_match(&exp, &obs).map_err(|w| (format!("crash-point | reopen {:?} | state differs", mode), format!("large scenario: after growing to {} bytes: {w}", bytes.len())))?;
            }
            rep.count("crash_points");
            rep.count("large_scenario.crash_points_past_second_difat_sector");
            if n_difat >= 3 {
                rep.count("large_scenario.crash_points_past_third_difat_sector");
            }
            rep.max("max_fat_sectors", n_fat as u64);
            rep.max("max_difat_sectors", n_difat as u64);
        }
        Ok(())
    });
    let witness = ctx.witness(case, vec![("large_scenario", J::s(format!("variant {variant}: {:?} file grown by {n_streams} streams of ~{stream_len} bytes", version))), ("steps_executed", J::Int(done.len() as i128)), ("last_steps", steps_json(&done[done.len().saturating_sub(6)..]))]);
    match res {
        Ok(Ok(())) => rep.count("large_scenarios"),
        Ok(Err((sig, detail))) => rep.finding(sig, detail, witness),
        Err(p) => rep.finding(p.signature(), format!("panic at {}:{}: {}", p.file, p.line, p.message), witness),
    }
    rep.add("steps", done.len() as u64);
}

/// A MiniFAT whose sectors are exactly full (128 / 1024 entries) and whose very last cell
/// legitimately holds 0: the stream that ends in the top mini sector grows by one mini
/// sector and gets mini sector 0, the only free one.  Crash points along the way.
fn c02_full_minifat_scenario(ctx: &Ctx, case: u64, rep: &mut Report, version: Version) {
    use crate::engine::OpenHow;
    let per: usize = if version == Version::V3 { 128 } else { 1024 };
    let mut done: Vec<Step> = Vec::new();
    let res = guard::catch(|| -> Result<(), Fail> {
        let mut sess = Session::create(version, None).map_err(|e| ("create | ok | err".to_string(), format!("{e}")))?;
        let mut crash_point = |sess: &mut Session, when: &str, rep: &mut Report| -> Result<(), Fail> {
            let bytes = sess.shared.bytes();
            let exp = sess.model.dump();
            for mode in [Mode::Permissive, Mode::Strict] {
                let obs = engine::dump_bytes(&bytes, mode).map_err(|w| (format!("crash-point | reopen {:?} | open failed", mode), format!("full-MiniFAT scenario, {when}: {w}")))?;
                engine::dumps_match(&exp, &obs).map_err(|w| (format!("crash-point | reopen {:?} | state differs", mode), format!("full-MiniFAT scenario, {when}: {w}")))?;
            }
            rep.count("crash_points");
            rep.count("full_minifat.crash_points");
            Ok(())
        };
        let mut steps: Vec<Step> = Vec::new();
        let mut put = |path: String, len: usize, steps: &mut Vec<Step>| {
            steps.push(Step::HOpen { slot: 0, path, how: OpenHow::Create });
            steps.push(Step::HWriteAll { slot: 0, len });
            steps.push(Step::HClose { slot: 0 });
        };
        put("/first".into(), 64, &mut steps);
        let mut left = per - 2;
        let mut k = 0;
        while left >= 63 {
            put(format!("/pad{k}"), 63 * 64, &mut steps);
            left -= 63;
            k += 1;
        }
        if left > 0 {
            put("/padlast".into(), left * 64, &mut steps);
        }
        put("/last".into(), 64, &mut steps);
        for st in steps {
            done.push(st.clone());
            if sess.run(&st).is_some() {
                rep.count("abandoned_model_divergence");
                return Ok(());
            }
        }
        crash_point(&mut sess, "MiniFAT exactly full", rep)?;
        for st in [Step::Api(Op::RemoveStream("/first".into())), Step::HOpen { slot: 0, path: "/last".into(), how: OpenHow::Open }, Step::HSetLen { slot: 0, n: 128 }, Step::HClose { slot: 0 }] {
            done.push(st.clone());
            if sess.run(&st).is_some() {
                rep.count("abandoned_model_divergence");
                return Ok(());
            }
        }
        crash_point(&mut sess, "after /last grew from the top mini sector into mini sector 0", rep)?;
        let b = sess.shared.bytes();
        if let Ok(img) = refparse::parse(&b) {
            if img.minifat.len() == per && img.minifat.last() == Some(&0) {
                rep.count("full_minifat.last_cell_is_zero");
            }
        }
        for st in [Step::HOpen { slot: 0, path: "/more".into(), how: OpenHow::Create }, Step::HWriteAll { slot: 0, len: 200 }, Step::HClose { slot: 0 }, Step::Api(Op::RemoveStream("/pad0".into()))] {
            done.push(st.clone());
            if sess.run(&st).is_some() {
                rep.count("abandoned_model_divergence");
                return Ok(());
            }
        }
        crash_point(&mut sess, "after a further small stream and a removal", rep)?;
        Ok(())
    });
    let witness = ctx.witness(case, vec![("scenario", J::s(format!("{:?}: MiniFAT exactly full, then /first removed and /last grown by one mini sector", version))), ("steps", steps_json(&done))]);
    match res {
        Ok(Ok(())) => rep.count("full_minifat.scenarios"),
        Ok(Err((sig, detail))) => rep.finding(sig, detail, witness),
        Err(p) => rep.finding(p.signature(), format!("panic at {}:{}: {}", p.file, p.line, p.message), witness),
    }
    rep.add("steps", done.len() as u64);
}

pub fn run_c02(ctx: &Ctx, rep: &mut Report) {
    if crate::props::huge::maybe_run(ctx, rep, "beyond 4 GiB", 10) {
        return;
    }
    if crate::props::wide::maybe_run(ctx, rep, crate::props::wide::Role::Persist, 9, 1) {
        return;
    }
    let mut i = 0;
    while let Some(case) = ctx.next_case(&mut i) {
        if case == 0 && ctx.shard % 4 == 0 {
            c02_large_scenario(ctx, case, rep);
            rep.nontrivial(0xD1FA7 ^ ctx.shard);
            rep.evaluations += 1;
            continue;
        }
        if case == 0 && (ctx.shard == 1 || ctx.shard == 5) {
            c02_full_minifat_scenario(ctx, case, rep, if ctx.shard == 1 { Version::V3 } else { Version::V4 });
            rep.nontrivial(0xF011 ^ ctx.shard);
            rep.evaluations += 1;
            continue;
        }
        let mut rng = ctx.case_rng(case);
        let rng = &mut rng;
        let version = version_of(rng);
        let max_steps = if ctx.quick() { rng.range(10, 70) } else { rng.range(20, 250) } as usize;
        let mut cfg = GenCfg::default();
        cfg.refusal_pct = 8;
        cfg.query_pct = 3;
        cfg.reopen_pct = 2;
        cfg.soft_max_objects = *rng.pick(&[12, 40, 70]);
        if rng.chance(1, 2) {
            cfg.max_size = 4200; // many mini streams: MiniFAT growth and trimming
        }
        let bufsize = *rng.pick(&[None, None, Some(1024usize), Some(4096)]);
        let mut mon = ReopenMonitor { last_hdr: None, fork_pct: 15 };
        let mix = *rng.pick(&[0, 0, 25]);
        // a fifth of the histories start from a synthesised foreign layout (red nodes,
        // permuted sectors, directory gaps): write-through must hold there too
        let mut start = None;
        let mut version = version;
        let mut cfg = cfg;
        if rng.chance(1, 5) {
            if let Some((s, v)) = foreign_start(rng) {
                start = Some(s);
                version = v;
                cfg.names = crate::synth::SYNTH_NAMES;
                rep.count("start.foreign_layout");
            }
        }
        let info = drive(ctx, case, rng, rep, DriveOpts { version, bufsize, max_steps, cfg, handle_mix_pct: mix, max_handles: 3, start }, &mut mon);
        if info.steps.len() >= 5 && !info.abandoned {
            rep.nontrivial(info.hash);
        }
        rep.evaluations += 1;
    }
}

// ------------------------------------------------------------------ C03

/// Every produced image is well-formed by the independent checker.
pub struct RulesMonitor {
    pub every: u64,
    pub n: u64,
}

pub fn check_image(bytes: &[u8], rep: &mut Report) -> Result<refparse::Image, Fail> {
    let img = refparse::parse(bytes).map_err(|e| ("rule | unparseable".to_string(), format!("independent parser cannot read the image: {e}")))?;
    let res = refparse::check(&img, bytes);
    rep.add("rule_evaluations", res.rules_evaluated);
    rep.count("images_checked");
    rep.max("max_fat_sectors", img.fat_sectors.len() as u64);
    rep.max("max_difat_sectors", img.difat_sectors.len() as u64);
    rep.max("max_dir_sectors", img.dir_chain.len() as u64);
    rep.max("max_minifat_sectors", img.minifat_chain.len() as u64);
    rep.max("max_image_bytes", bytes.len() as u64);
    if res.slack.ministream_extra_sectors > 0 {
        rep.count("slack.ministream_extra_sectors");
    }
    if res.slack.minifat_extra_sectors > 0 {
        rep.count("slack.minifat_extra_sectors");
    }
    if res.slack.root_start_without_size > 0 {
        rep.count("slack.root_start_without_size");
    }
    if let Some(v) = res.violations.first() {
        let all: Vec<String> = res.violations.iter().take(6).map(|v| format!("{}: {}", v.rule, v.detail)).collect();
        return Err((format!("rule | {}", v.rule), all.join("; ")));
    }
    Ok(img)
}

impl Monitor for RulesMonitor {
    fn after(&mut self, sess: &mut Session, step: &Step, rep: &mut Report) -> Result<(), Fail> {
        self.n += 1;
        if self.n % self.every != 0 {
            return Ok(());
        }
        let bytes = sess.shared.bytes();
        check_image(&bytes, rep).map(|_| ()).map_err(|(s, d)| (s, format!("after {:?}: {}", step, d)))
    }
    fn quiescent(&mut self, sess: &mut Session, rng: &mut Rng, _gen: &Gen, rep: &mut Report, done: &mut Vec<Step>) -> Result<(), Fail> {
        // "any history of successful operations" includes calls through a handle whose
        // stream has been removed meanwhile, as far as they answer Ok: the image is judged
        // after them like after any other call (the episode cleans up after itself)
        if sess.open_slots().is_empty() && rng.chance(1, 30) {
            crate::props::handles::handle_after_removal_episode(sess, rng, rep)?;
        }
        // the independent parser's logical view must also equal the model
        let bytes = sess.shared.bytes();
        let img = check_image(&bytes, rep).map_err(|(s, d)| (s, format!("after step #{}: {}", done.len(), d)))?;
        let log = refparse::logical(&img, &bytes).map_err(|e| ("rule | logical decode".to_string(), format!("after step #{}: {}", done.len(), e)))?;
        let exp = sess.model.dump();
        if log.len() != exp.len() {
            // the live object may disagree with the model for C01 reasons: only count
            rep.count("logical_vs_model_size_mismatch");
            return Ok(());
        }
        for (l, (v, data)) in log.iter().zip(exp.iter()) {
            if l.name != v.name && l.path != "/" {
                rep.count("logical_vs_model_name_mismatch");
                return Ok(());
            }
            if v.kind == crate::model::Kind::Stream && &l.data != data {
                rep.count("logical_vs_model_content_mismatch");
                return Ok(());
            }
        }
        rep.count("logical_views_equal_model");
        Ok(())
    }
}

pub fn run_c03(ctx: &Ctx, rep: &mut Report) {
    if crate::props::wide::maybe_run(ctx, rep, crate::props::wide::Role::Rules, 8, 8) {
        return;
    }
    let mut i = 0;
    while let Some(case) = ctx.next_case(&mut i) {
        let mut rng = ctx.case_rng(case);
        let rng = &mut rng;
        // one large scenario per run (shard 0 of each profile group does more)
        if case == 0 && ctx.only_case.is_none() || ctx.only_case == Some(0) {
            large_scenario(ctx, case, rng, rep);
            rep.evaluations += 1;
            continue;
        }
        let version = version_of(rng);
        if rng.chance(1, 20) {
            seesaw_case(ctx, case, rng, version, rep);
            rep.evaluations += 1;
            continue;
        }
        let max_steps = if ctx.quick() { rng.range(10, 90) } else { rng.range(20, 300) } as usize;
        let mut cfg = GenCfg::default();
        cfg.refusal_pct = 10;
        cfg.query_pct = 2;
        cfg.soft_max_objects = *rng.pick(&[12, 40, 80]);
        if rng.chance(1, 2) {
            cfg.max_size = 4200;
        }
        let bufsize = *rng.pick(&[None, Some(1024usize), Some(5000)]);
        let mut mon = RulesMonitor { every: 1, n: 0 };
        let mix = *rng.pick(&[0, 0, 25]);
        // one history in five goes on from a well-formed file of another writer (red nodes,
        // directory gaps, permuted sectors): what the library makes of it must be
        // well-formed too
        let mut start = None;
        let mut version = version;
        let mut cfg = cfg;
        if rng.chance(1, 5) {
            if let Some((s, v)) = foreign_start(rng) {
                start = Some(s);
                version = v;
                cfg.names = crate::synth::SYNTH_NAMES;
                cfg.refusal_pct = 5;
                rep.count("start.foreign_layout");
            }
        }
        let info = drive(ctx, case, rng, rep, DriveOpts { version, bufsize, max_steps, cfg, handle_mix_pct: mix, max_handles: 3, start }, &mut mon);
        if info.steps.len() >= 5 && info.saw_removal {
            rep.nontrivial(info.hash);
        }
        rep.evaluations += 1;
    }
}

/// A regular stream that grows and shrinks by single sectors while other chains are begun
/// and extended in between (first small stream of the file, streams of exactly one
/// sector / 4096 bytes, new directory sectors): every order of "extend A", "cut A back",
/// "begin another chain", "extend A again"; the image is judged after every step.
fn seesaw_case(ctx: &Ctx, case: u64, rng: &mut Rng, version: Version, rep: &mut Report) {
    use crate::engine::OpenHow;
    let sl: u64 = if version == Version::V3 { 512 } else { 4096 };
    let mut done: Vec<Step> = Vec::new();
    let res = guard::catch(|| -> Result<(), Fail> {
        let mut sess = Session::create(version, None).map_err(|e| ("create | ok | err".to_string(), format!("{e}")))?;
        let mut run = |sess: &mut Session, step: Step, done: &mut Vec<Step>, rep: &mut Report| -> Result<(), Fail> {
            done.push(step.clone());
            if let Some(d) = sess.run(&step) {
                return Err((format!("harness-or-C01: {}", d.signature), format!("{}: expected {}, observed {}", d.step, d.expected, d.observed)));
            }
            check_image(&sess.shared.bytes(), rep).map(|_| ()).map_err(|(s, d)| (s, format!("after {:?}: {}", step, d)))
        };
        let mut len = sl * rng.range(9, 14) + *rng.pick(&[0u64, 1, 100]);
        run(&mut sess, Step::HOpen { slot: 0, path: "/A".into(), how: OpenHow::Create }, &mut done, rep)?;
        run(&mut sess, Step::HWriteAll { slot: 0, len: len as usize }, &mut done, rep)?;
        run(&mut sess, Step::HFlush { slot: 0 }, &mut done, rep)?;
        let rounds = rng.range(4, 9);
        for r in 0..rounds {
            for _ in 0..rng.range(1, 3) {
                match rng.below(4) {
                    0 => len += sl,
                    1 => len = len.saturating_sub(sl).max(4096),
                    2 => len += 2 * sl + rng.below(3),
                    _ => len = (len / sl) * sl + *rng.pick(&[0u64, 1, sl - 1]),
                }
                len = len.max(4096);
                run(&mut sess, Step::HSetLen { slot: 0, n: len }, &mut done, rep)?;
            }
            // another chain is begun (or the directory / MiniFAT / mini stream extended)
            let p = format!("/n{r}");
            let size = match (r, rng.below(3)) {
                (0, _) => 100,
                (_, 0) => 4096,
                (_, 1) => sl as usize,
                _ => *rng.pick(&[64usize, 700, 4097, 9000]),
            };
            run(&mut sess, Step::HOpen { slot: 1, path: p.clone(), how: OpenHow::Create }, &mut done, rep)?;
            run(&mut sess, Step::HWriteAll { slot: 1, len: size }, &mut done, rep)?;
            run(&mut sess, Step::HClose { slot: 1 }, &mut done, rep)?;
            if rng.chance(1, 3) {
                run(&mut sess, Step::Api(Op::RemoveStream(p)), &mut done, rep)?;
            }
        }
        run(&mut sess, Step::HClose { slot: 0 }, &mut done, rep)?;
        sess.check_against_model(false).map_err(|w| ("harness-or-C01: dump | model | mismatch".to_string(), w))?;
        Ok(())
    });
    let witness = ctx.witness(case, vec![("version", J::s(vname(version))), ("steps", steps_json(&done))]);
    match res {
        Ok(Ok(())) => rep.count("seesaw_cases"),
        Ok(Err((sig, detail))) if sig.starts_with("harness-or-C01") => {
            rep.count("abandoned_model_divergence");
            rep.set_insert("abandoned_signatures", sig);
            let _ = detail;
        }
        Ok(Err((sig, detail))) => rep.finding(sig, detail, witness),
        Err(p) => rep.finding(p.signature(), format!("panic at {}:{}: {}", p.file, p.line, p.message), witness),
    }
    rep.add("steps", done.len() as u64);
    rep.nontrivial(crate::rng::fnv64(format!("{:?}", done).as_bytes()));
}

/// Large images: several FAT sectors, DIFAT sectors, many directory and MiniFAT sectors;
/// then shrink / remove / re-create to exercise reuse at that scale.
fn large_scenario(ctx: &Ctx, case: u64, rng: &mut Rng, rep: &mut Report) {
    use crate::engine::OpenHow;
    let which = ctx.shard % 5;
    // 0: v3 with a DIFAT sector (> 109 FAT sectors = > 13952 sectors = 7.2 MB)
    // 1: v3 many small streams (directory + MiniFAT sectors)   2: v4 several FAT sectors (> 1024 sectors)
    // 3: v3 two DIFAT sectors (thorough)   4: v4 many small streams (> 1024 mini sectors, > 32 directory entries)
    let version = if which == 2 || which == 4 { Version::V4 } else { Version::V3 };
    let mut done: Vec<Step> = Vec::new();
    let res = guard::catch(|| -> Result<(), Fail> {
        let mut sess = Session::create(version, None).map_err(|e| ("create | ok | err".to_string(), format!("{e}")))?;
        let run = |sess: &mut Session, step: Step, done: &mut Vec<Step>| -> Result<(), Fail> {
            done.push(step.clone());
            match sess.run(&step) {
                None => Ok(()),
                Some(d) => Err((d.signature, format!("{}: expected {}, observed {}", d.step, d.expected, d.observed))),
            }
        };
        let (n_streams, size): (usize, usize) = match which {
            0 => (116, 65536),
            1 | 4 => (300, 300),
            2 => (70, 70000),
            _ => {
                if ctx.quick() {
                    (116, 65536)
                } else {
                    (250, 65536)
                }
            }
        };
        run(&mut sess, Step::Api(Op::CreateStorage("/big".into())), &mut done)?;
        for k in 0..n_streams {
            let p = format!("/big/s{k}");
            let sz = if which == 1 || which == 4 { (k * 37) % 4300 } else { size };
            run(&mut sess, Step::HOpen { slot: 0, path: p, how: OpenHow::Create }, &mut done)?;
            run(&mut sess, Step::HWriteAll { slot: 0, len: sz }, &mut done)?;
            run(&mut sess, Step::HClose { slot: 0 }, &mut done)?;
            if k % 29 == 0 {
                check_image(&sess.shared.bytes(), rep).map_err(|(s, d)| (s, format!("large scenario {which}, after stream {k}: {d}")))?;
            }
        }
        check_image(&sess.shared.bytes(), rep).map_err(|(s, d)| (s, format!("large scenario {which}, full: {d}")))?;
        if which == 3 && ctx.quick() {
            // the second and third DIFAT sector (237th / 364th FAT sector, 15.5 / 23.8 MB) reached cheaply by set_len
            run(&mut sess, Step::HOpen { slot: 0, path: "/big/tail".into(), how: OpenHow::Create }, &mut done)?;
            run(&mut sess, Step::HSetLen { slot: 0, n: 17_000_000 }, &mut done)?;
            run(&mut sess, Step::HClose { slot: 0 }, &mut done)?;
            let img = check_image(&sess.shared.bytes(), rep).map_err(|(s, d)| (s, format!("large scenario {which}, after growing past the second DIFAT sector: {d}")))?;
            if img.difat_sectors.len() >= 2 {
                rep.count("images_with_two_difat_sectors");
            }
            if img.difat_sectors.len() >= 3 {
                rep.count("images_with_three_difat_sectors");
            }
        }
        // shrink, remove, re-create
        for k in (0..n_streams).step_by(3) {
            let p = format!("/big/s{k}");
            if rng.chance(1, 2) {
                run(&mut sess, Step::Api(Op::RemoveStream(p)), &mut done)?;
            } else {
                run(&mut sess, Step::HOpen { slot: 0, path: p, how: OpenHow::Open }, &mut done)?;
                run(&mut sess, Step::HSetLen { slot: 0, n: *rng.pick(&[0u64, 100, 4095, 4096, 20000]) }, &mut done)?;
                run(&mut sess, Step::HClose { slot: 0 }, &mut done)?;
            }
        }
        check_image(&sess.shared.bytes(), rep).map_err(|(s, d)| (s, format!("large scenario {which}, after shrink/remove: {d}")))?;
        for k in 0..(n_streams / 4) {
            let p = format!("/big/r{k}");
            run(&mut sess, Step::HOpen { slot: 0, path: p, how: OpenHow::CreateNew }, &mut done)?;
            run(&mut sess, Step::HWriteAll { slot: 0, len: if which == 1 || which == 4 { 100 + k } else { size / 2 + k } }, &mut done)?;
            run(&mut sess, Step::HClose { slot: 0 }, &mut done)?;
        }
        let img = check_image(&sess.shared.bytes(), rep).map_err(|(s, d)| (s, format!("large scenario {which}, after re-create: {d}")))?;
        rep.count(&format!("large_scenario.{which}"));
        if !img.difat_sectors.is_empty() {
            rep.count("images_with_difat_sector");
        }
        sess.check_against_model(false).map_err(|w| ("dump | model | mismatch".to_string(), w))?;
        Ok(())
    });
    // the witness of a large scenario is its generator parameters, not 1000 steps
    let witness = ctx.witness(case, vec![("large_scenario", J::Int(which as i128)), ("steps_executed", J::Int(done.len() as i128)), ("last_steps", steps_json(&done[done.len().saturating_sub(8)..]))]);
    match res {
        Ok(Ok(())) => {}
        Ok(Err((sig, detail))) => rep.finding(sig, detail, witness),
        Err(p) => rep.finding(p.signature(), format!("panic at {}:{}: {}", p.file, p.line, p.message), witness),
    }
    rep.add("steps", done.len() as u64);
}
