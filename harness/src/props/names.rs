//! C09 - names are validated, case-insensitive, ordered; paths are normalised.

use crate::common::Ctx;
use crate::engine::{OpenHow, Session, Step};
use crate::gen;
use crate::guard;
use crate::model::{self, Kind, Op};
use crate::order;
use crate::props::hist::{self, check_image, steps_json, vname, Fail};
use crate::report::{Report, J};
use crate::rng::{fnv64_add, Rng};
use cfb::Version;

/// Characters whose simple case mapping has been stable since Unicode 3/4/5, by class.
const ASCII: &[char] = &['a', 'A', 'b', 'B', 'z', 'Z', 'k', 'K', 's', 'S', 'i', 'I', '0', '9', ' ', '.', '_', '-', '~', '#', '(', '\u{1}', '\u{5}', '\u{7f}', '\0'];
const LATIN: &[char] = &['\u{e9}', '\u{c9}', '\u{ff}', '\u{178}', '\u{b5}', '\u{39c}', '\u{df}', '\u{e0}', '\u{c0}', '\u{f1}', '\u{d1}', '\u{131}', '\u{17f}', '\u{1c4}', '\u{1c5}', '\u{1c6}', '\u{1c7}', '\u{1c8}', '\u{1f1}', '\u{1f2}', '\u{212a}', '\u{212b}', '\u{e5}', '\u{c5}', '\u{1e9e}'];
const GREEK_CYR: &[char] = &['\u{3c3}', '\u{3c2}', '\u{3a3}', '\u{3b1}', '\u{391}', '\u{434}', '\u{414}', '\u{44f}', '\u{42f}', '\u{1fb3}', '\u{1fbc}', '\u{3ac}', '\u{386}', '\u{1fb6}', '\u{1f80}', '\u{1f88}', '\u{1ff3}', '\u{1ffc}', '\u{1fc3}', '\u{2126}', '\u{3c9}', '\u{3a9}', '\u{3f4}', '\u{3b8}', '\u{398}'];
const CASELESS_BMP: &[char] = &['\u{65e5}', '\u{672c}', '\u{5d0}', '\u{e000}', '\u{fffd}', '\u{ff41}', '\u{ff21}', '\u{2603}', '\u{d7ff}', '\u{f900}'];
const SUPPLEMENTARY: &[char] = &['\u{1F600}', '\u{1F389}', '\u{20000}', '\u{10428}', '\u{1D11E}', '\u{1F680}', '\u{1F601}', '\u{20001}'];
const FORBIDDEN: &[char] = &['\\', ':', '!'];

fn char_class(c: char) -> &'static str {
    if c.is_ascii() {
        "ascii"
    } else if (c as u32) > 0xFFFF {
        "supplementary"
    } else {
        "bmp_non_ascii"
    }
}

fn name_class(n: &str) -> &'static str {
    let any_supp = n.chars().any(|c| (c as u32) > 0xFFFF);
    if n.is_ascii() {
        "ascii"
    } else if any_supp {
        "has_supplementary"
    } else if n.chars().all(|c| !c.is_ascii()) {
        "non_ascii"
    } else {
        "mixed"
    }
}

fn random_name(rng: &mut Rng, want_units: usize, forbid: bool) -> String {
    let mut s = String::new();
    let mut units = 0;
    let style = rng.below(5);
    while units < want_units {
        let k = rng.usize_below(60);
        let set: &[char] = match style {
            0 => ASCII,
            1 => [ASCII, LATIN, GREEK_CYR][k % 3],
            2 => [CASELESS_BMP, SUPPLEMENTARY, ASCII][k % 3],
            3 => [ASCII, LATIN, GREEK_CYR, CASELESS_BMP, SUPPLEMENTARY][k % 5],
            _ => [LATIN, GREEK_CYR][k % 2],
        };
        let c = *rng.pick(set);
        let w = c.len_utf16();
        if units + w > want_units {
            s.push('x');
            units += 1;
        } else {
            s.push(c);
            units += w;
        }
    }
    if s == "." || s == ".." {
        s = s.replace('.', "d"); // "." and ".." are path syntax, not names
    }
    // a counted name may end in U+0000 (it is not the terminator, which comes after it)
    if rng.chance(1, 12) && s.chars().last().map_or(false, |c| c.len_utf16() == 1) {
        s.pop();
        s.push('\0');
    }
    if forbid && !s.is_empty() {
        // put a forbidden character at a random char position
        let chars: Vec<char> = s.chars().collect();
        let k = rng.usize_below(chars.len());
        let f = *rng.pick(FORBIDDEN);
        s = chars.iter().enumerate().map(|(i, &c)| if i == k { f } else { c }).collect();
    }
    s
}

fn pick_units(rng: &mut Rng) -> usize {
    match rng.below(10) {
        0..=3 => rng.range(1, 4) as usize,
        4..=5 => rng.range(5, 29) as usize,
        6 => 30,
        7 => 31,
        8 => 32,
        _ => rng.range(33, 40) as usize,
    }
}

fn run_step(sess: &mut Session, step: Step, done: &mut Vec<Step>, rep: &mut Report) -> Result<(), Fail> {
    rep.count(&format!("op.{}", step.name()));
    done.push(step.clone());
    match sess.run(&step) {
        None => Ok(()),
        Some(d) => Err((d.signature, format!("step #{} {}: expected {}, observed {}", d.step_index, d.step, d.expected, d.observed))),
    }
}

fn c09_case(ctx: &Ctx, rep: &mut Report, rng: &mut Rng, version: Version, done: &mut Vec<Step>) -> Result<(), Fail> {
    let mut sess = Session::create(version, None).map_err(|e| ("create | ok | err".to_string(), format!("{e}")))?;
    let parents = ["/", "/P"];
    run_step(&mut sess, Step::Api(Op::CreateStorage("/P".into())), done, rep)?;
    // a small per-case pool, so that re-creations, collisions and variants happen
    let mut pool: Vec<String> = Vec::new();
    for _ in 0..rng.range(6, 14) {
        let u = pick_units(rng);
        let forbid = rng.chance(1, 8);
        pool.push(random_name(rng, u, forbid));
    }
    // one case in three: a valid name of exactly 31 units together with too-long names that
    // go on from it (a lookup that compares only what fits into a stored name would take
    // them for the same name)
    if rng.chance(1, 3) {
        let base = random_name(rng, 31, false);
        if order::units(&base) == 31 && order::name_is_valid(&base) && !base.ends_with('\0') {
            rep.count("pool.prefix_family_of_a_31_unit_name");
            pool.truncate(8);
            pool.push(base.clone());
            pool.push(format!("{base}x"));
            pool.push(format!("{base}Yz{}", rng.below(10)));
        }
    }
    // order strategies for insertion
    match rng.below(4) {
        0 => pool.sort_by(|a, b| order::compare(a, b)),
        1 => {
            pool.sort_by(|a, b| order::compare(a, b));
            pool.reverse();
        }
        2 => {
            pool.sort_by(|a, b| order::compare(a, b));
            // middle-first
            let mut out = Vec::new();
            let mut q = vec![(0usize, pool.len())];
            while let Some((lo, hi)) = q.pop() {
                if lo >= hi {
                    continue;
                }
                let mid = (lo + hi) / 2;
                out.push(pool[mid].clone());
                q.insert(0, (lo, mid));
                q.insert(0, (mid + 1, hi));
            }
            pool = out;
        }
        _ => {}
    }
    let child = |parent: &str, n: &str| if parent == "/" { format!("/{n}") } else { format!("{parent}/{n}") };
    let n_ops = if ctx.quick() { rng.range(20, 70) } else { rng.range(40, 200) };
    let mut cursor = 0usize;
    for _ in 0..n_ops {
        let parent = *rng.pick(&parents);
        let w = rng.below(100);
        if w < 40 {
            // creation, walking through the pool in the chosen order
            let name = pool[cursor % pool.len()].clone();
            cursor += 1;
            let valid = order::name_is_valid(&name);
            let units = order::units(&name);
            rep.count(&format!("create_name.{}.{}", name_class(&name), if valid { "valid" } else { "invalid" }));
            rep.count(&format!("name_units.{}", if units <= 29 { "le29".to_string() } else if units >= 33 { "ge33".to_string() } else { units.to_string() }));
            for c in name.chars() {
                rep.set_insert("char_classes", char_class(c));
            }
            let p = child(parent, &name);
            let writes_before = sess.shared.writes();
            let bytes_before = if !valid { Some(sess.shared.bytes()) } else { None };
            let kind = rng.below(5);
            // create_storage_all through missing intermediates: an invalid component
            // anywhere must leave nothing behind
            let p = if kind == 4 {
                let mid1 = format!("n{}", rng.below(3));
                let mid2 = format!("m{}", rng.below(3));
                match rng.below(3) {
                    0 => format!("{}/{}/{}", child(parent, &mid1), mid2, name),
                    1 => format!("{}/{}/{}", child(parent, &mid1), name, mid2),
                    _ => format!("{}/{}", child(parent, &mid1), name),
                }
            } else {
                p
            };
            let existed = sess.model.get_path(&p).is_some();
            if kind == 4 {
                rep.count(if valid { "create_storage_all_deep.valid" } else { "create_storage_all_deep.invalid" });
            }
            let step = match kind {
                0 => Step::Api(Op::CreateStorage(p.clone())),
                1 | 4 => Step::Api(Op::CreateStorageAll(p.clone())),
                2 => Step::HOpen { slot: 0, path: p.clone(), how: OpenHow::Create },
                _ => Step::HOpen { slot: 0, path: p.clone(), how: OpenHow::CreateNew },
            };
            let is_handle = matches!(step, Step::HOpen { .. });
            let overwriting_storage = existed && sess.model.get_path(&p).map(|n| n.kind != Kind::Stream).unwrap_or(false);
            run_step(&mut sess, step, done, rep)?;
            if is_handle {
                if sess.hm.get(0).map(|h| h.is_some()).unwrap_or(false) {
                    if rng.chance(1, 2) {
                        run_step(&mut sess, Step::HWriteAll { slot: 0, len: rng.below(200) as usize }, done, rep)?;
                    }
                    run_step(&mut sess, Step::HClose { slot: 0 }, done, rep)?;
                }
            }
            let _ = overwriting_storage;
            if let Some(b) = bytes_before {
                // monitor 1: an invalid name is refused with no write event and identical bytes
                if !existed {
                    if sess.shared.writes() != writes_before {
                        return Err(("invalid name | write events".to_string(), format!("creating {:?} was refused but wrote to the backing store", p)));
                    }
                    if sess.shared.bytes() != b {
                        return Err(("invalid name | bytes changed".to_string(), format!("creating {:?} was refused but changed the bytes", p)));
                    }
                    rep.count("invalid_name_no_effect_checked");
                }
            } else if !existed && kind != 4 {
                // stored verbatim
                let e = sess.cf().entry(&p).map_err(|e| ("valid name | not found after create".to_string(), format!("{p:?}: {e}")))?;
                if e.name() != name {
                    return Err(("valid name | not stored verbatim".to_string(), format!("created {:?}, entry().name() = {:?}", name, e.name())));
                }
                rep.count("verbatim_checked");
            }
        } else if w < 55 {
            // removal of a present object (exact or variant spelling)
            let idx = gen::index(&sess);
            let cands: Vec<&String> = idx.streams.iter().chain(idx.storages.iter()).filter(|p| p.as_str() != "/" && p.as_str() != "/P").collect();
            if cands.is_empty() {
                continue;
            }
            let p = (*rng.pick(&cands)).clone();
            let names = model::normalise(&p).unwrap();
            let v: Vec<String> = names.iter().map(|n| if rng.chance(1, 2) { gen::case_variant(rng, n) } else { n.clone() }).collect();
            let q = model::join(&v);
            let op = match sess.model.get_path(&p).map(|n| n.kind) {
                Some(Kind::Stream) => Op::RemoveStream(q),
                _ => Op::RemoveStorageAll(q),
            };
            run_step(&mut sess, Step::Api(op), done, rep)?;
        } else if w < 85 {
            // lookups: exact, case variants, respelled paths; present and absent names
            let name = rng.pick(&pool).clone();
            let p0 = child(parent, &name);
            let mut p = p0.clone();
            let mut how = "exact";
            if rng.chance(1, 2) {
                let names = model::normalise(&p).unwrap_or_default();
                let v: Vec<String> = names.iter().map(|n| gen::case_variant(rng, n)).collect();
                let q = model::join(&v);
                if q != p {
                    how = "variant";
                    p = q;
                }
            }
            if rng.chance(1, 3) {
                p = gen::respell(rng, &p);
                how = if how == "variant" { "variant+respelled" } else { "respelled" };
            }
            rep.count(&format!("lookup.{}.{}", how, if sess.model.get_path(&p0).is_some() { "present" } else { "absent" }));
            let op = match rng.below(7) {
                0 => Op::Exists(p),
                1 => Op::IsStream(p),
                2 => Op::IsStorage(p),
                3 => Op::Entry(p),
                4 => Op::WalkStorage(p),
                5 => Op::CreateNewStream(p),
                _ => Op::CreateStorage(p),
            };
            match op {
                Op::CreateNewStream(p) => {
                    run_step(&mut sess, Step::HOpen { slot: 0, path: p, how: OpenHow::CreateNew }, done, rep)?;
                    run_step(&mut sess, Step::HClose { slot: 0 }, done, rep)?;
                }
                other => run_step(&mut sess, Step::Api(other), done, rep)?,
            }
        } else if w < 92 {
            // monitor 4: listing order (model = order.rs) and on-disk BST order (refparse)
            let p = gen::respell(rng, parent);
            run_step(&mut sess, Step::Api(Op::ReadStorage(p)), done, rep)?;
            let bytes = sess.shared.bytes();
            check_image(&bytes, rep).map_err(|(s, d)| (s, format!("after step #{}: {}", done.len(), d)))?;
            rep.count("order_checks");
        } else {
            // path escaping the root
            let p = *rng.pick(&["..", "/..", "/P/../..", "a/../../b", "/./../x"]);
            let op = match rng.below(6) {
                0 => Op::Exists(p.into()),
                1 => Op::Entry(p.into()),
                2 => Op::CreateStorage(p.into()),
                3 => Op::ReadStorage(p.into()),
                4 => Op::RemoveStream(p.into()),
                _ => Op::SetState(p.into(), 1),
            };
            rep.count("escaping_paths");
            run_step(&mut sess, Step::Api(op), done, rep)?;
        }
        // monitor 3: every present name findable (exact and variant), every absent pool name not
        if rng.chance(1, 6) {
            for parent in parents {
                for name in &pool {
                    let p = child(parent, name);
                    let present = sess.model.get_path(&p).is_some();
                    let v = gen::case_variant(rng, name);
                    let pv = child(parent, &v);
                    let cf = sess.cf();
                    let (a, b) = (cf.exists(&p), cf.exists(&pv));
                    if a != present || b != present {
                        return Err(("findability | exists".to_string(), format!("{:?} present={present}: exists(exact)={a}, exists({:?})={b}", p, pv)));
                    }
                }
            }
            rep.count("findability_sweeps");
            sess.check_against_model(true).map_err(|w| ("dump | model | mismatch".to_string(), format!("after step #{}: {}", done.len(), w)))?;
        }
    }
    sess.check_against_model(true).map_err(|w| ("dump | model | mismatch".to_string(), w))?;
    let bytes = sess.shared.bytes();
    let img = check_image(&bytes, rep)?;
    // names verbatim in the bytes
    let log = crate::refparse::logical(&img, &bytes).map_err(|e| ("rule | logical decode".to_string(), e))?;
    let exp = sess.model.dump();
    if log.len() != exp.len() || log.iter().zip(exp.iter()).any(|(l, (v, _))| l.path != "/" && l.name != v.name) {
        return Err(("names in the bytes | differ from the model".to_string(), format!("parser: {:?}, model: {:?}", log.iter().map(|l| &l.name).collect::<Vec<_>>(), exp.iter().map(|e| &e.0.name).collect::<Vec<_>>())));
    }
    // "stored verbatim and found again" also holds for the stored file: reopened in either
    // mode it lists the same names, and every pool name is found (or not) as before
    for mode in [crate::engine::Mode::Permissive, crate::engine::Mode::Strict] {
        let (f2, _sh2) = crate::backend::MonFile::new(bytes.clone());
        let mut cf2 = crate::engine::open_with(f2, mode, None).map_err(|e| ("reopened | open failed".to_string(), format!("{mode:?}: {e}")))?;
        let obs = crate::engine::dump_live(&mut cf2).map_err(|w| ("reopened | dump failed".to_string(), format!("{mode:?}: {w}")))?;
        crate::engine::dumps_match(&exp, &obs).map_err(|w| ("reopened | names or contents differ".to_string(), format!("{mode:?}: {w}")))?;
        for parent in parents {
            for name in &pool {
                let p = child(parent, name);
                let present = sess.model.get_path(&p).is_some();
                let pv = child(parent, &gen::case_variant(rng, name));
                let (a, b) = (cf2.exists(&p), cf2.exists(&pv));
                if a != present || b != present {
                    return Err(("reopened | findability".to_string(), format!("{mode:?}: {:?} present={present}: exists(exact)={a}, exists({:?})={b}", p, pv)));
                }
            }
        }
        rep.count("reopened_sweeps");
    }
    Ok(())
}

pub fn run_c09(ctx: &Ctx, rep: &mut Report) {
    let mut i = 0;
    while let Some(case) = ctx.next_case(&mut i) {
        let mut rng = ctx.case_rng(case);
        let version = hist::version_of(&mut rng);
        let mut done = Vec::new();
        let r = guard::catch(|| c09_case(ctx, rep, &mut rng, version, &mut done));
        let witness = |done: &Vec<Step>| ctx.witness(case, vec![("version", J::s(vname(version))), ("steps", steps_json(done))]);
        match r {
            Ok(Ok(())) => {}
            Ok(Err((sig, detail))) => rep.finding(sig, detail, witness(&done)),
            Err(p) => rep.finding(p.signature(), format!("panic at {}:{}: {}", p.file, p.line, p.message), witness(&done)),
        }
        let mut h = fnv64_add(0xcbf29ce484222325, vname(version).as_bytes());
        for s in &done {
            h = fnv64_add(h, format!("{:?}", s).as_bytes());
        }
        if done.len() >= 10 {
            rep.nontrivial(h);
        }
        if rep.samples.len() < 2 {
            rep.sample(J::obj(vec![("version", J::s(vname(version))), ("steps", steps_json(&done[..done.len().min(30)]))]));
        }
        rep.add("steps", done.len() as u64);
        rep.evaluations += 1;
    }
}
