//! C12 (read failures never turn into wrong data) and C13 (write failures are reported;
//! a successful flush means durable): fault enumeration over every position k of the
//! underlying calls a workload makes.

use crate::backend::{Fault, MonFile, RoFile, Shared, K_FLUSH, K_READ, K_SEEK, K_WRITE};
use crate::common::Ctx;
use crate::engine::{self, payload, OpenHow, Session, Step};
use crate::guard;
use crate::model::Op;
use crate::report::{Report, J};
use crate::rng::{fnv64_add, Rng};
use cfb::{CompoundFile, OpenOptions, Stream, Version};
use std::collections::BTreeMap;
use std::io::{BufRead, ErrorKind, Read, Seek, SeekFrom, Write};

// ===================================================================== C12

#[derive(Clone, Debug)]
enum RStep {
    Open { strict: bool },
    Walk,
    Entry(String),
    ReadStorage(String),
    OpenStream(String),
    Read(usize),
    Fill(u8),
    SeekTo(SeekFrom),
    ReadToEnd,
    CloseStream,
}

struct RWorkload {
    bytes: Vec<u8>,
    contents: BTreeMap<String, Vec<u8>>,
    script: Vec<RStep>,
    desc: String,
}

fn build_read_workload(rng: &mut Rng, w: u64) -> Option<RWorkload> {
    let version = if w % 2 == 0 { Version::V3 } else { Version::V4 };
    let mut sess = Session::create(version, None).ok()?;
    let sizes: Vec<usize> = match w % 4 {
        0 => vec![100, 3000, 5000],
        1 => vec![64, 4095, 9000, 2500],
        2 => vec![1, 1500, 12000],
        _ => vec![700, 4096, 20000],
    };
    let mut paths = Vec::new();
    let mut steps = vec![Step::Api(Op::CreateStorage("/dir".into()))];
    for (i, sz) in sizes.iter().enumerate() {
        let p = if i % 2 == 0 { format!("/s{i}") } else { format!("/dir/t{i}") };
        steps.push(Step::HOpen { slot: 0, path: p.clone(), how: OpenHow::Create });
        steps.push(Step::HWriteAll { slot: 0, len: *sz });
        steps.push(Step::HClose { slot: 0 });
        paths.push(p);
    }
    // leave a hole so that chains are not trivially contiguous
    steps.push(Step::Api(Op::RemoveStream(paths[0].clone())));
    steps.push(Step::HOpen { slot: 0, path: "/late".into(), how: OpenHow::Create });
    steps.push(Step::HWriteAll { slot: 0, len: 2600 });
    steps.push(Step::HClose { slot: 0 });
    paths.remove(0);
    paths.push("/late".into());
    for st in &steps {
        if sess.run(st).is_some() {
            return None;
        }
    }
    let bytes = sess.shared.bytes();
    let mut contents = BTreeMap::new();
    for p in &paths {
        contents.insert(p.clone(), sess.model.get_path(p)?.data.clone());
    }
    // the call script
    let mut script = vec![RStep::Open { strict: rng.chance(1, 2) }, RStep::Walk, RStep::Entry(paths[0].clone()), RStep::ReadStorage("/dir".into())];
    for p in &paths {
        let len = contents[p].len();
        script.push(RStep::OpenStream(p.clone()));
        let mut budget = 14;
        while budget > 0 {
            budget -= 1;
            script.push(match rng.below(10) {
                0..=4 => RStep::Read(*rng.pick(&[1usize, 7, 63, 100, 511, 700, 1023, 1024, 1025, 2000])),
                5..=6 => RStep::Fill(rng.below(9) as u8),
                7 => RStep::SeekTo(SeekFrom::Start(rng.below(len as u64 + 1))),
                8 => RStep::SeekTo(SeekFrom::Current(if rng.chance(1, 2) { -(rng.below(600) as i64) } else { rng.below(1500) as i64 })),
                _ => RStep::SeekTo(SeekFrom::End(-(rng.below(len as u64 + 1) as i64))),
            });
        }
        script.push(RStep::SeekTo(SeekFrom::Start(0)));
        script.push(RStep::ReadToEnd);
        script.push(RStep::CloseStream);
    }
    Some(RWorkload { bytes, contents, script, desc: format!("{version:?} image of {} bytes, streams {:?}", sess.shared.len(), sizes) })
}

struct RState {
    shared: Shared,
    cf: Option<CompoundFile<RoFile>>,
    stream: Option<Stream<RoFile>>,
    path: String,
    pos: u64,
    /// everything a purely sequential reader obtained since the last seek
    api: u32,
}

/// Executes one step once.  Ok(normalised value) or Err(kind); Err((sig, detail)) in the
/// outer Result = oracle violation.
fn r_exec(st: &mut RState, step: &RStep, w: &RWorkload) -> Result<Result<String, ErrorKind>, (String, String)> {
    st.api += 1;
    st.shared.set_api(st.api);
    let content: &[u8] = w.contents.get(&st.path).map(|v| &v[..]).unwrap_or(&[]);
    let viol = |sig: &str, d: String| Err((sig.to_string(), d));
    let r: Result<String, std::io::Error> = match step {
        RStep::Open { strict } => {
            let file = RoFile(MonFile::attach(&st.shared));
            let mut o = OpenOptions::new().max_buffer_size(1024);
            if *strict {
                o = o.strict();
            }
            match o.open_with(file) {
                Ok(cf) => {
                    st.cf = Some(cf);
                    Ok("opened".into())
                }
                Err(e) => Err(e),
            }
        }
        RStep::Walk => Ok(format!("{:?}", st.cf.as_ref().unwrap().walk().map(|e| (e.path().to_path_buf(), e.len(), e.is_stream())).collect::<Vec<_>>())),
        RStep::Entry(p) => st.cf.as_ref().unwrap().entry(p).map(|e| format!("{:?} {}", e.path(), e.len())),
        RStep::ReadStorage(p) => st.cf.as_ref().unwrap().read_storage(p).map(|it| format!("{:?}", it.map(|e| e.name().to_string()).collect::<Vec<_>>())),
        RStep::OpenStream(p) => match st.cf.as_mut().unwrap().open_stream(p) {
            Ok(s) => {
                let l = s.len();
                st.stream = Some(s);
                st.path = p.clone();
                st.pos = 0;
                Ok(format!("stream len {l}"))
            }
            Err(e) => Err(e),
        },
        RStep::CloseStream => {
            st.stream = None;
            Ok("closed".into())
        }
        RStep::Read(n) => {
            let s = st.stream.as_mut().unwrap();
            let mut buf = vec![0u8; *n];
            match s.read(&mut buf) {
                Ok(k) => {
                    let p = st.pos as usize;
                    let avail = content.len() - p;
                    if (k == 0) != (*n == 0 || avail == 0) || k > avail.min(*n) {
                        return viol("read | wrong count", format!("read({n}) at {p} of {}: returned {k}", content.len()));
                    }
                    if buf[..k] != content[p..p + k] {
                        return viol("read | wrong bytes", format!("read({n}) at {p} of {}: {}", st.path, engine::describe_bytes_diff(&content[p..p + k], &buf[..k])));
                    }
                    st.pos += k as u64;
                    Ok(format!("read {k}"))
                }
                Err(e) => Err(e),
            }
        }
        RStep::Fill(eighths) => {
            let s = st.stream.as_mut().unwrap();
            match s.fill_buf() {
                Ok(slice) => {
                    let p = st.pos as usize;
                    let rest = &content[p..];
                    let l = slice.len();
                    if (l == 0) != rest.is_empty() || l > rest.len() {
                        return viol("fill_buf | wrong count", format!("fill_buf at {p} of {}: {l} bytes", content.len()));
                    }
                    if slice != &rest[..l] {
                        return viol("fill_buf | wrong bytes", format!("fill_buf at {p} of {}: {}", st.path, engine::describe_bytes_diff(&rest[..l], slice)));
                    }
                    let k = l * (*eighths as usize).min(8) / 8;
                    s.consume(k);
                    st.pos += k as u64;
                    Ok("fill".to_string())
                }
                Err(e) => Err(e),
            }
        }
        RStep::SeekTo(from) => {
            let s = st.stream.as_mut().unwrap();
            let len = content.len() as i128;
            let target = match from {
                SeekFrom::Start(x) => *x as i128,
                SeekFrom::End(d) => len + *d as i128,
                SeekFrom::Current(d) => st.pos as i128 + *d as i128,
            };
            match s.seek(*from) {
                Ok(p) => {
                    if target < 0 || target > len || p as i128 != target {
                        return viol("seek | wrong result", format!("seek({from:?}) from {} of {len}: Ok({p})", st.pos));
                    }
                    st.pos = p;
                    Ok(format!("seek {p}"))
                }
                Err(e) => {
                    if target >= 0 && target <= len && e.kind() == ErrorKind::InvalidInput {
                        return viol("seek | in-range seek refused", format!("seek({from:?}) from {} of {len}: {e}", st.pos));
                    }
                    Err(e)
                }
            }
        }
        RStep::ReadToEnd => {
            let s = st.stream.as_mut().unwrap();
            let mut v = Vec::new();
            match s.read_to_end(&mut v) {
                Ok(_) => {
                    let p = st.pos as usize;
                    if v != content[p..] {
                        return viol("read_to_end | wrong bytes", format!("from {p} of {}: got {} bytes, expected {}; {}", st.path, v.len(), content.len() - p, if v.len() == content.len() - p { engine::describe_bytes_diff(&content[p..], &v) } else { String::new() }));
                    }
                    st.pos = content.len() as u64;
                    Ok("read_to_end".into())
                }
                Err(e) => {
                    // bytes obtained before the error are part of the sequential read:
                    // they must be a correct prefix, and the position must account for them
                    let p = st.pos as usize;
                    if v.len() > content.len() - p || v[..] != content[p..p + v.len()] {
                        return viol("read_to_end | wrong bytes before error", format!("from {p}: {} bytes obtained before the error are not the stream's", v.len()));
                    }
                    st.pos += v.len() as u64;
                    Err(e)
                }
            }
        }
    };
    // the handle's position must agree with the model after every call, failed or not
    if let Some(s) = st.stream.as_mut() {
        match s.stream_position() {
            Ok(p) if p == st.pos => {}
            other => return viol("position | disagrees after call", format!("after {:?} ({}): stream_position() = {:?}, model {}", step, if r.is_ok() { "ok" } else { "err" }, other, st.pos)),
        }
    }
    Ok(r.map_err(|e| e.kind()))
}

/// Runs the whole script under a fault plan; returns (trace, underlying calls made).
fn r_run(w: &RWorkload, faults: Vec<Fault>, rep: &mut Report, reference: Option<&Vec<String>>) -> Result<(Vec<String>, u64), (String, String)> {
    r_run_opt(w, faults, rep, reference, true)
}

/// `probe`: after a failed read, look behind the position before retrying (that moves the
/// buffer window, so half of the runs retry at once instead).
fn r_run_opt(w: &RWorkload, faults: Vec<Fault>, rep: &mut Report, reference: Option<&Vec<String>>, probe: bool) -> Result<(Vec<String>, u64), (String, String)> {
    let (_f, shared) = MonFile::new(w.bytes.clone());
    shared.arm(faults);
    let mut st = RState { shared: shared.clone(), cf: None, stream: None, path: String::new(), pos: 0, api: 0 };
    let mut trace = Vec::new();
    let mut skip_stream = false;
    for (i, step) in w.script.iter().enumerate() {
        if skip_stream {
            trace.push("skipped".into());
            if matches!(step, RStep::CloseStream) {
                skip_stream = false;
            }
            continue;
        }
        let mut attempts = 0;
        loop {
            attempts += 1;
            match r_exec(&mut st, step, w)? {
                Ok(v) => {
                    if attempts > 1 {
                        rep.count("retries_that_succeeded");
                    }
                    if let Some(refr) = reference {
                        // raw counts may legitimately differ after a fault (a retried read may
                        // return a different prefix); exact-valued calls must match
                        // (a seek relative to the current position depends on the counts earlier
                        // raw reads returned; it is checked against the model position instead)
                        let exact = matches!(step, RStep::Open { .. } | RStep::Walk | RStep::Entry(_) | RStep::ReadStorage(_) | RStep::OpenStream(_) | RStep::SeekTo(SeekFrom::Start(_)) | RStep::SeekTo(SeekFrom::End(_)) | RStep::CloseStream);
                        if exact && refr.get(i).map(|x| x != &v).unwrap_or(false) {
                            return Err(("value differs from the fault-free run".to_string(), format!("step #{i} {:?}: fault-free {:?}, under fault {:?}", step, refr[i], v)));
                        }
                    }
                    trace.push(v);
                    break;
                }
                Err(kind) => {
                    rep.count(&format!("api_errors.{}", step_name(step)));
                    let _ = kind;
                    // "after a failed call the same handle can be used again": before retrying,
                    // look behind the position (the window that was buffered before the failure)
                    // and come back
                    if probe && matches!(step, RStep::Read(_) | RStep::Fill(_) | RStep::ReadToEnd) && st.stream.is_some() && attempts == 1 {
                        let back = st.pos.min(700);
                        if back > 0 {
                            let here = st.pos;
                            let probe = [RStep::SeekTo(SeekFrom::Start(here - back)), RStep::Read(back as usize), RStep::SeekTo(SeekFrom::Start(here))];
                            let mut ok = true;
                            for ps in &probe {
                                match r_exec(&mut st, ps, w)? {
                                    Ok(_) => {}
                                    Err(_) => {
                                        ok = false;
                                    }
                                }
                            }
                            // the probe must leave the handle where the script expects it
                            if st.pos != here {
                                for _ in 0..3 {
                                    if let Ok(Ok(_)) = r_exec(&mut st, &RStep::SeekTo(SeekFrom::Start(here)), w) {
                                        break;
                                    }
                                }
                            }
                            if ok {
                                rep.count("look_behind_probes_after_error");
                            }
                        }
                    }
                    if attempts >= 4 {
                        trace.push("gave up".into());
                        break;
                    }
                    // a failed open leaves nothing to call the other steps on
                }
            }
        }
        if st.cf.is_none() {
            break; // open never succeeded
        }
        if matches!(step, RStep::OpenStream(_)) && st.stream.is_none() {
            skip_stream = true; // open_stream never succeeded: skip this stream's steps
        }
    }
    Ok((trace, shared.seq()))
}

fn step_name(s: &RStep) -> &'static str {
    match s {
        RStep::Open { .. } => "open",
        RStep::Walk => "walk",
        RStep::Entry(_) => "entry",
        RStep::ReadStorage(_) => "read_storage",
        RStep::OpenStream(_) => "open_stream",
        RStep::Read(_) => "read",
        RStep::Fill(_) => "fill_buf",
        RStep::SeekTo(_) => "seek",
        RStep::ReadToEnd => "read_to_end",
        RStep::CloseStream => "close",
    }
}

const ERR_KINDS: &[ErrorKind] = &[ErrorKind::Other, ErrorKind::UnexpectedEof, ErrorKind::TimedOut, ErrorKind::Interrupted];

pub fn run_c12(ctx: &Ctx, rep: &mut Report) {
    // workloads are numbered globally and dealt to shards; each is enumerated completely
    let n_workloads: u64 = if ctx.quick() { ctx.nshards } else { ctx.nshards * 6 };
    let mut i = 0;
    let mut w = ctx.shard;
    while w < n_workloads {
        let case = w;
        if ctx.only_case.map(|c| c != case).unwrap_or(false) {
            w += ctx.nshards;
            continue;
        }
        let _ = ctx.next_case(&mut i); // heartbeat
        crate::guard::case_begin(case);
        let mut rng = Rng::derive(ctx.seed, &[12, w]);
        let wl = match build_read_workload(&mut rng, w) {
            Some(x) => x,
            None => {
                rep.inconclusive(format!("read workload {w} could not be built"));
                w += ctx.nshards;
                continue;
            }
        };
        let witness = |extra: Vec<(&str, J)>| {
            let mut v = vec![("workload", J::Int(w as i128)), ("image", J::s(wl.desc.clone())), ("script", J::Arr(wl.script.iter().map(|s| J::s(format!("{:?}", s))).collect()))];
            v.extend(extra);
            ctx.witness(case, v)
        };
        // fault-free reference
        let reference = match guard::catch(|| r_run(&wl, vec![], rep, None)) {
            Ok(Ok(x)) => x,
            Ok(Err((sig, d))) => {
                rep.finding(format!("fault-free | {sig}"), d, witness(vec![]));
                w += ctx.nshards;
                continue;
            }
            Err(p) => {
                rep.finding(p.signature(), format!("panic in the fault-free run at {}:{}: {}", p.file, p.line, p.message), witness(vec![]));
                w += ctx.nshards;
                continue;
            }
        };
        let n = reference.1;
        rep.max("max_underlying_calls_per_workload", n);
        rep.add("underlying_calls_total", n);
        let mut complete = true;
        // singles: every position x every variant
        for k in 0..n {
            for (vi, kind) in ERR_KINDS.iter().enumerate() {
                for partial in [false, true] {
                    if partial && vi != 0 {
                        continue;
                    }
                    if !ctx.time_left() && ctx.only_case.is_none() {
                        complete = false;
                        break;
                    }
                    let plan = vec![Fault { kinds: K_READ | K_SEEK, k, err: *kind, sticky: false, partial }];
                    crate::guard::case_begin(case); // CPU budget per faulty run, not per workload
                    let r = guard::catch(|| r_run_opt(&wl, plan, rep, Some(&reference.0), (k + vi as u64) % 2 == 0));
                    rep.evaluations += 1;
                    rep.count(if partial { "runs.short_then_fail" } else { "runs.single_fault" });
                    let fw = || witness(vec![("fault_position", J::Int(k as i128)), ("error_kind", J::s(format!("{kind:?}"))), ("short_then_fail", J::Bool(partial))]);
                    match r {
                        Ok(Ok(_)) => {}
                        Ok(Err((sig, d))) => rep.finding(sig, format!("fault {kind:?}{} at underlying call #{k}: {d}", if partial { " (short then fail)" } else { "" }), fw()),
                        Err(p) => rep.finding(p.signature(), format!("fault at underlying call #{k}: panic at {}:{}: {}", p.file, p.line, p.message), fw()),
                    }
                    rep.nontrivial(fnv64_add(fnv64_add(crate::rng::fnv64(&w.to_le_bytes()), &k.to_le_bytes()), &[vi as u8, partial as u8]));
                }
            }
        }
        // bursts: three consecutive underlying calls fail with a transient kind
        for k in 0..n {
            if !ctx.time_left() && ctx.only_case.is_none() {
                complete = false;
                break;
            }
            let kind = if k % 2 == 0 { ErrorKind::TimedOut } else { ErrorKind::WouldBlock };
            let plan: Vec<Fault> = (0..3).map(|d| Fault { kinds: K_READ | K_SEEK, k: k + d, err: kind, sticky: false, partial: false }).collect();
            crate::guard::case_begin(case);
            let r = guard::catch(|| r_run_opt(&wl, plan, rep, Some(&reference.0), k % 4 == 3));
            rep.evaluations += 1;
            rep.count("runs.burst_of_three");
            let fw = || witness(vec![("fault_position", J::Int(k as i128)), ("error_kind", J::s(format!("{kind:?}"))), ("burst", J::Int(3))]);
            match r {
                Ok(Ok(_)) => {}
                Ok(Err((sig, d))) => rep.finding(sig, format!("three consecutive {kind:?} faults from underlying call #{k}: {d}"), fw()),
                Err(p) => rep.finding(p.signature(), format!("burst at underlying call #{k}: panic at {}:{}: {}", p.file, p.line, p.message), fw()),
            }
            rep.nontrivial(fnv64_add(fnv64_add(crate::rng::fnv64(&w.to_le_bytes()), &k.to_le_bytes()), b"burst3"));
        }
        // pairs: exhaustive when small, else sampled
        let pair_budget: u64 = if ctx.quick() { 1500 } else { 20000 };
        let all_pairs = n * (n - 1) / 2;
        let exhaustive_pairs = n <= 150 && all_pairs <= pair_budget;
        let mut done_pairs = 0;
        if exhaustive_pairs {
            for k1 in 0..n {
                for k2 in (k1 + 1)..n {
                    run_pair(ctx, rep, &wl, &reference.0, k1, k2, w, &witness);
                    done_pairs += 1;
                }
            }
        } else {
            while done_pairs < pair_budget && (ctx.time_left() || ctx.only_case.is_some()) {
                let k1 = rng.below(n);
                let k2 = (k1 + 1 + rng.below(40)).min(n - 1);
                if k1 != k2 {
                    run_pair(ctx, rep, &wl, &reference.0, k1, k2, w, &witness);
                }
                done_pairs += 1;
            }
        }
        rep.add("pairs_run", done_pairs);
        if complete {
            rep.count("exhaustive_workloads");
            rep.add("positions_visited", n);
        } else {
            rep.count("non_exhaustive_workloads");
        }
        if rep.samples.len() < 2 {
            rep.sample(J::obj(vec![("workload", J::Int(w as i128)), ("image", J::s(wl.desc.clone())), ("underlying_calls", J::Int(n as i128)), ("script_head", J::Arr(wl.script.iter().take(14).map(|s| J::s(format!("{:?}", s))).collect()))]));
        }
        w += ctx.nshards;
    }
    crate::guard::case_end();
}

#[allow(clippy::too_many_arguments)]
fn run_pair(ctx: &Ctx, rep: &mut Report, wl: &RWorkload, reference: &Vec<String>, k1: u64, k2: u64, w: u64, witness: &dyn Fn(Vec<(&str, J)>) -> J) {
    // second fault counted independently: both one-shot
    let plan = vec![Fault { kinds: K_READ | K_SEEK, k: k1, err: ErrorKind::Other, sticky: false, partial: false }, Fault { kinds: K_READ | K_SEEK, k: k2, err: ErrorKind::TimedOut, sticky: false, partial: false }];
    let r = guard::catch(|| r_run(wl, plan, rep, Some(reference)));
    rep.evaluations += 1;
    rep.count("runs.fault_pair");
    let fw = || witness(vec![("fault_positions", J::Arr(vec![J::Int(k1 as i128), J::Int(k2 as i128)]))]);
    match r {
        Ok(Ok(_)) => {}
        Ok(Err((sig, d))) => rep.finding(sig, format!("faults at underlying calls #{k1} and #{k2}: {d}"), fw()),
        Err(p) => rep.finding(p.signature(), format!("faults at #{k1}/#{k2}: panic at {}:{}: {}", p.file, p.line, p.message), fw()),
    }
    let _ = (ctx, w);
}

// ===================================================================== C13

#[derive(Clone, Debug)]
enum WStep {
    CreateStorage(String),
    OpenNew { slot: usize, path: String },
    OpenExisting { slot: usize, path: String },
    Write { slot: usize, len: usize },
    /// write_vectored with two slices; the first ends at the next multiple of 1024 (the
    /// buffer size used here), the second has `len` bytes
    WriteVectored { slot: usize, len: usize },
    Seek { slot: usize, to: u64 },
    ReadSome { slot: usize, n: usize },
    SetLen { slot: usize, n: u64 },
    FlushHandle { slot: usize },
    CloseHandle { slot: usize },
    Remove(String),
    SetState(String, u32),
    FlushFile,
    /// The next API call that fails is not repeated at once: these steps (work on other
    /// streams, each with its own retries) are run first, then the failed call is repeated.
    Interlude(Vec<WStep>),
    /// Faults are only enumerated at underlying calls made after this point (the part
    /// before it is a fixed preamble that the other families already sweep).
    Marker,
}

/// A version 3 file whose only stream ends a few sectors below sector 13952 (109 FAT
/// sectors): the next 24 KB of writes make the file need its 110th FAT sector and with it
/// the first DIFAT sector.
fn difat_start_image() -> Option<Vec<u8>> {
    let (file, shared) = MonFile::new(Vec::new());
    let mut cf = CompoundFile::create_with_version(Version::V3, file).ok()?;
    let mut s = cf.create_stream("/wide").ok()?;
    // 109 FAT sectors + directory + stream = 13952 - 16
    s.set_len((109 * 128 - 109 - 1 - 16) as u64 * 512).ok()?;
    s.flush().ok()?;
    drop(s);
    cf.flush().ok()?;
    let b = shared.bytes();
    let n_fat = u32::from_le_bytes([b[44], b[45], b[46], b[47]]);
    if n_fat != 109 {
        return None;
    }
    Some(b)
}

fn build_write_script(rng: &mut Rng, w: u64) -> Vec<WStep> {
    let mut s = Vec::new();
    if w % 16 == 8 {
        // family D (version 3, on the start image of `difat_start_image`)
        // (the 7 MB stream itself is left alone, so that the readbacks stay small)
        s.push(WStep::OpenNew { slot: 0, path: "/t".into() });
        for k in 0..16 {
            if k == 5 {
                // the sweep starts shortly before the write-back that needs the 110th FAT sector
                s.push(WStep::Marker);
            }
            s.push(WStep::Write { slot: 0, len: 1024 });
        }
        s.push(WStep::FlushHandle { slot: 0 });
        s.push(WStep::CloseHandle { slot: 0 });
        s.push(WStep::OpenNew { slot: 0, path: "/u".into() });
        s.push(WStep::Write { slot: 0, len: 500 });
        s.push(WStep::CloseHandle { slot: 0 });
        s.push(WStep::FlushFile);
        return s;
    }
    if w % 16 == 14 || w % 16 == 7 {
        // family H (version 3 for w = 14 mod 16, version 4 for w = 7 mod 16): a set_len that
        // moves the stream to another chain (small -> large, large -> small) or releases it
        // fails under the sweep and - in the runs that do not repeat it - the caller simply
        // goes on: overwrites a few bytes inside the stream and flushes.  The stream is then
        // as before or resized (with the overwrite), for a fresh handle and, since that flush
        // rewrites the directory entry, in the stored bytes as well.
        for (name, lens) in [("/g", &[100usize][..]), ("/r", &[1024, 1024, 1024, 1024, 904][..]), ("/z", &[1024, 1024, 1024, 928][..]), ("/s", &[1024, 1024, 1024, 928][..]), ("/keep", &[300][..])] {
            s.push(WStep::OpenNew { slot: 0, path: name.into() });
            for l in lens {
                s.push(WStep::Write { slot: 0, len: *l });
            }
            s.push(WStep::CloseHandle { slot: 0 });
        }
        s.push(WStep::Marker);
        let eps: &[(&str, u64)] = if (w / 16) % 2 == 0 { &[("/g", 5000), ("/r", 700), ("/z", 0)] } else { &[("/z", 0), ("/r", 700), ("/g", 5000)] };
        for (name, n) in eps {
            s.push(WStep::OpenExisting { slot: 0, path: (*name).into() });
            s.push(WStep::SetLen { slot: 0, n: *n });
            s.push(WStep::Seek { slot: 0, to: 10 });
            s.push(WStep::Write { slot: 0, len: 20 });
            s.push(WStep::FlushHandle { slot: 0 });
            s.push(WStep::CloseHandle { slot: 0 });
        }
        // a shrink in place that fails and is not repeated; another stream comes and goes
        // (it may be given what the shrink released); then the stream grows again, to less
        // than it had: as before cut to that length, or resized with zeros gained
        s.push(WStep::OpenExisting { slot: 0, path: "/s".into() });
        s.push(WStep::SetLen { slot: 0, n: 600 });
        s.push(WStep::OpenNew { slot: 1, path: "/o".into() });
        for _ in 0..3 {
            s.push(WStep::Write { slot: 1, len: 1024 });
        }
        s.push(WStep::FlushHandle { slot: 1 });
        s.push(WStep::CloseHandle { slot: 1 });
        s.push(WStep::Remove("/o".into()));
        s.push(WStep::SetLen { slot: 0, n: 3000 });
        s.push(WStep::FlushHandle { slot: 0 });
        s.push(WStep::CloseHandle { slot: 0 });
        s.push(WStep::OpenNew { slot: 1, path: "/d".into() });
        s.push(WStep::Write { slot: 1, len: 500 });
        s.push(WStep::FlushHandle { slot: 1 });
        s.push(WStep::CloseHandle { slot: 1 });
        s.push(WStep::FlushFile);
        return s;
    }
    if w % 16 == 2 || w % 16 == 11 {
        // family G (version 3 for w = 2 mod 16, version 4 for w = 11 mod 16): a call that
        // moves a stream between the mini stream and regular sectors, or releases its chain
        // (a write-back across 4096 bytes, set_len across it in either direction, set_len(0),
        // truncating re-creation), fails under the sweep; before it is repeated another small
        // and another large stream are created, written and flushed (they may be given
        // whatever the failed call released); both must still read back at the end
        // five episodes in one workload, each on its own stream
        for v in 0..5usize {
            s.push(WStep::OpenNew { slot: 0, path: format!("/a{v}") });
            // (streams 3 and 4 are regular - 5000 bytes -, the others small - 4000 bytes)
            let first: &[usize] = if v >= 3 { &[1024, 1024, 1024, 1024, 904] } else { &[1024, 1024, 1024, 928] };
            for l in first {
                s.push(WStep::Write { slot: 0, len: *l });
            }
            s.push(WStep::CloseHandle { slot: 0 });
        }
        s.push(WStep::OpenNew { slot: 1, path: "/keep".into() });
        s.push(WStep::Write { slot: 1, len: 300 });
        s.push(WStep::CloseHandle { slot: 1 });
        s.push(WStep::Marker);
        let order: Vec<usize> = if (w / 16) % 2 == 0 { vec![0, 1, 2, 3, 4] } else { vec![4, 2, 3, 1, 0] };
        for v in order {
            let mut inter = Vec::new();
            inter.push(WStep::OpenNew { slot: 1, path: format!("/b{v}") });
            for l in [1024usize, 1024, 1024, 928] {
                inter.push(WStep::Write { slot: 1, len: l });
            }
            inter.push(WStep::FlushHandle { slot: 1 });
            inter.push(WStep::CloseHandle { slot: 1 });
            inter.push(WStep::OpenNew { slot: 1, path: format!("/c{v}") });
            for _ in 0..5 {
                inter.push(WStep::Write { slot: 1, len: 1024 });
            }
            inter.push(WStep::FlushHandle { slot: 1 });
            inter.push(WStep::CloseHandle { slot: 1 });
            if v != 4 {
                s.push(WStep::OpenExisting { slot: 0, path: format!("/a{v}") });
            }
            match v {
                0 => {
                    // a write-back that crosses the cutoff
                    s.push(WStep::Seek { slot: 0, to: 4000 });
                    s.push(WStep::Write { slot: 0, len: 200 });
                    s.push(WStep::Interlude(inter));
                    s.push(WStep::FlushHandle { slot: 0 });
                }
                1 => {
                    s.push(WStep::Interlude(inter));
                    s.push(WStep::SetLen { slot: 0, n: 6000 });
                    s.push(WStep::FlushHandle { slot: 0 });
                }
                2 => {
                    s.push(WStep::Interlude(inter));
                    s.push(WStep::SetLen { slot: 0, n: 0 });
                    s.push(WStep::FlushHandle { slot: 0 });
                }
                3 => {
                    // (this stream is regular: 5000 bytes) back below the cutoff
                    s.push(WStep::Interlude(inter));
                    s.push(WStep::SetLen { slot: 0, n: 700 });
                    s.push(WStep::FlushHandle { slot: 0 });
                }
                _ => {
                    // truncating re-creation (of a regular stream: its whole chain is released)
                    s.push(WStep::Interlude(inter));
                    s.push(WStep::OpenNew { slot: 0, path: format!("/a{v}") });
                    s.push(WStep::Write { slot: 0, len: 30 });
                    s.push(WStep::FlushHandle { slot: 0 });
                }
            }
            s.push(WStep::CloseHandle { slot: 0 });
            s.push(WStep::Interlude(Vec::new()));
        }
        s.push(WStep::OpenNew { slot: 1, path: "/d".into() });
        s.push(WStep::Write { slot: 1, len: 500 });
        s.push(WStep::FlushHandle { slot: 1 });
        s.push(WStep::CloseHandle { slot: 1 });
        s.push(WStep::FlushFile);
        return s;
    }
    if w % 16 == 10 || w % 16 == 9 {
        // family F (version 3 for w = 10 mod 16, version 4 for w = 9 mod 16): the small
        // streams before the marker use up one MiniFAT sector exactly (128 / 1024 mini
        // sectors); the next small stream makes the MiniFAT chain grow by a sector, which
        // rewrites the header's MiniFAT sector count, under the sweep
        let (n_full, rest) = if w % 2 == 0 { (2, 128) } else { (16, 1024) };
        for k in 0..n_full {
            s.push(WStep::OpenNew { slot: 0, path: format!("/p{k:02}") });
            for l in [1024usize, 1024, 1024, 960] {
                s.push(WStep::Write { slot: 0, len: l });
            }
            s.push(WStep::CloseHandle { slot: 0 });
        }
        s.push(WStep::OpenNew { slot: 0, path: "/q".into() });
        s.push(WStep::Write { slot: 0, len: rest });
        s.push(WStep::CloseHandle { slot: 0 });
        s.push(WStep::Marker);
        s.push(WStep::OpenNew { slot: 0, path: "/last".into() });
        s.push(WStep::Write { slot: 0, len: 100 });
        s.push(WStep::FlushHandle { slot: 0 });
        s.push(WStep::CloseHandle { slot: 0 });
        s.push(WStep::OpenNew { slot: 0, path: "/last2".into() });
        s.push(WStep::Write { slot: 0, len: 70 });
        s.push(WStep::FlushHandle { slot: 0 });
        s.push(WStep::CloseHandle { slot: 0 });
        s.push(WStep::Remove("/p00".into()));
        s.push(WStep::OpenNew { slot: 0, path: "/r".into() });
        s.push(WStep::Write { slot: 0, len: 200 });
        s.push(WStep::FlushHandle { slot: 0 });
        s.push(WStep::CloseHandle { slot: 0 });
        s.push(WStep::FlushFile);
        return s;
    }
    if w % 8 == 5 {
        // family C (version 4): the directory grows by a sector at the 33rd entry (counting
        // the root), which rewrites the header's directory-sector count; the sweep covers
        // the calls from just before that creation on
        s.push(WStep::CreateStorage("/d".into()));
        for k in 0..30 {
            s.push(WStep::OpenNew { slot: 0, path: format!("/d/s{k:02}") });
            s.push(WStep::CloseHandle { slot: 0 });
        }
        s.push(WStep::Marker);
        s.push(WStep::OpenNew { slot: 0, path: "/d/s30".into() });
        s.push(WStep::Write { slot: 0, len: 100 + (w as usize % 3) * 30 });
        s.push(WStep::CloseHandle { slot: 0 });
        if rng.chance(1, 2) {
            s.push(WStep::CreateStorage("/e".into()));
        } else {
            s.push(WStep::OpenNew { slot: 0, path: "/s31".into() });
            s.push(WStep::CloseHandle { slot: 0 });
        }
        s.push(WStep::FlushFile);
        return s;
    }
    if w % 8 == 4 || w % 16 == 15 {
        // family E (version 3 for w = 4 mod 8, version 4 for w = 15 mod 16): a regular
        // chain is released under the sweep (set_len(0), set_len below the cutoff, removal
        // or truncating re-creation), then two more streams take regular sectors; what
        // they hold is read back at the end like everything else
        s.push(WStep::OpenNew { slot: 0, path: "/n0".into() });
        s.push(WStep::Write { slot: 0, len: 100 });
        s.push(WStep::CloseHandle { slot: 0 });
        s.push(WStep::OpenNew { slot: 0, path: "/a".into() });
        for _ in 0..5 {
            s.push(WStep::Write { slot: 0, len: 1024 });
        }
        s.push(WStep::FlushHandle { slot: 0 });
        s.push(WStep::CloseHandle { slot: 0 });
        s.push(WStep::Marker);
        match (w / 8) % 4 {
            0 => {
                s.push(WStep::OpenExisting { slot: 0, path: "/a".into() });
                s.push(WStep::SetLen { slot: 0, n: 0 });
                s.push(WStep::FlushHandle { slot: 0 });
                s.push(WStep::CloseHandle { slot: 0 });
            }
            1 => {
                s.push(WStep::OpenExisting { slot: 0, path: "/a".into() });
                s.push(WStep::SetLen { slot: 0, n: 600 });
                s.push(WStep::FlushHandle { slot: 0 });
                s.push(WStep::CloseHandle { slot: 0 });
            }
            2 => s.push(WStep::Remove("/a".into())),
            _ => {
                s.push(WStep::OpenNew { slot: 0, path: "/a".into() });
                s.push(WStep::Write { slot: 0, len: 30 });
                s.push(WStep::FlushHandle { slot: 0 });
                s.push(WStep::CloseHandle { slot: 0 });
            }
        }
        for name in ["/b", "/c"] {
            s.push(WStep::OpenNew { slot: 0, path: name.into() });
            for _ in 0..5 {
                s.push(WStep::Write { slot: 0, len: 1024 });
            }
            s.push(WStep::FlushHandle { slot: 0 });
            s.push(WStep::CloseHandle { slot: 0 });
            if name == "/b" {
                // overwriting in place, several buffers' worth without a flush in between:
                // the write-backs are started by write() itself, inside the stored length
                s.push(WStep::OpenExisting { slot: 0, path: "/b".into() });
                s.push(WStep::Seek { slot: 0, to: 100 });
                for _ in 0..3 {
                    s.push(WStep::Write { slot: 0, len: 1024 });
                }
                s.push(WStep::FlushHandle { slot: 0 });
                s.push(WStep::CloseHandle { slot: 0 });
            }
        }
        s.push(WStep::FlushFile);
        return s;
    }
    if (w / 2) % 2 == 1 && w % 2 == 0 {
        // family B (version 3 files only: a v4 FAT sector costs 1024 underlying writes to
        // initialise, which makes the exhaustive sweep quadratic in the wrong thing): directory-sector and FAT-sector growth, resize across the cutoff in both
        // directions, truncating re-creation, several small streams
        for k in 0..5 {
            s.push(WStep::OpenNew { slot: 0, path: format!("/n{k}") });
            s.push(WStep::Write { slot: 0, len: [40usize, 64, 200, 100, 65][k] });
            s.push(WStep::CloseHandle { slot: 0 });
        }
        if (w / 4) % 2 == 1 {
            // the file passes 128 sectors during the writes after the marker: a second FAT
            // sector is appended inside a write-back (the zero-filled bulk before the marker
            // is not swept)
            // (the handle is closed before the marker and reopened after it, so that the part
            // before the marker can be run once and reused)
            let mut pre = vec![WStep::OpenNew { slot: 0, path: "/wide".into() }, WStep::SetLen { slot: 0, n: 56_000 }, WStep::CloseHandle { slot: 0 }, WStep::Marker, WStep::OpenExisting { slot: 0, path: "/wide".into() }, WStep::Seek { slot: 0, to: 56_000 }];
            for _ in 0..12 {
                pre.push(WStep::Write { slot: 0, len: 1024 }); // a plain write takes at most one buffer
            }
            pre.push(WStep::FlushHandle { slot: 0 });
            pre.push(WStep::CloseHandle { slot: 0 });
            pre.extend(s.drain(..));
            s = pre;
        }
        s.push(WStep::OpenNew { slot: 1, path: "/big".into() });
        let chunks = if w % 4 == 3 { 5 } else { 3 };
        for k in 0..chunks {
            s.push(WStep::Write { slot: 1, len: 1800 + 100 * k });
            if k % 4 == 3 {
                s.push(WStep::FlushHandle { slot: 1 });
            }
        }
        s.push(WStep::FlushHandle { slot: 1 });
        s.push(WStep::SetLen { slot: 1, n: 3000 });
        s.push(WStep::Seek { slot: 1, to: 2990 });
        s.push(WStep::Write { slot: 1, len: 50 });
        s.push(WStep::FlushHandle { slot: 1 });
        s.push(WStep::SetLen { slot: 1, n: *rng.pick(&[4096u64, 5000, 9000]) });
        s.push(WStep::FlushHandle { slot: 1 });
        s.push(WStep::CloseHandle { slot: 1 });
        s.push(WStep::OpenNew { slot: 0, path: "/n2".into() }); // truncating re-creation
        s.push(WStep::Write { slot: 0, len: 4200 });
        s.push(WStep::FlushHandle { slot: 0 });
        s.push(WStep::CloseHandle { slot: 0 });
        s.push(WStep::Remove("/n4".into()));
        s.push(WStep::Remove("/big".into()));
        // growth by set_len into sectors and mini sectors that the removed streams left dirty
        s.push(WStep::OpenNew { slot: 1, path: "/z".into() });
        s.push(WStep::SetLen { slot: 1, n: 5000 });
        s.push(WStep::FlushHandle { slot: 1 });
        s.push(WStep::SetLen { slot: 1, n: 200 });
        s.push(WStep::SetLen { slot: 1, n: 1500 });
        s.push(WStep::FlushHandle { slot: 1 });
        s.push(WStep::CloseHandle { slot: 1 });
        s.push(WStep::OpenNew { slot: 0, path: "/after".into() });
        s.push(WStep::Write { slot: 0, len: 800 });
        s.push(WStep::FlushHandle { slot: 0 });
        s.push(WStep::CloseHandle { slot: 0 });
        s.push(WStep::FlushFile);
        return s;
    }
    s.push(WStep::CreateStorage("/d".into()));
    s.push(WStep::OpenNew { slot: 0, path: "/a".into() });
    s.push(WStep::OpenNew { slot: 1, path: "/d/b".into() });
    let lens: &[usize] = match w % 3 {
        0 => &[10, 500, 700, 1500, 30, 2000],
        1 => &[1024, 1, 1023, 1100, 64, 900],
        _ => &[300, 3000, 900, 100, 1500, 4000],
    };
    for (i, &l) in lens.iter().enumerate() {
        let slot = i % 2;
        s.push(WStep::Write { slot, len: l });
        match rng.below(6) {
            0 => s.push(WStep::FlushHandle { slot }),
            1 => s.push(WStep::Seek { slot, to: rng.below(50) }),
            2 => s.push(WStep::ReadSome { slot, n: 100 }),
            3 => s.push(WStep::SetState("/d".into(), i as u32)),
            _ => {}
        }
    }
    s.push(WStep::WriteVectored { slot: 0, len: 300 });
    s.push(WStep::FlushHandle { slot: 0 });
    s.push(WStep::SetLen { slot: 1, n: *rng.pick(&[100u64, 4096, 6000]) });
    if w % 3 == 1 {
        // (a flush right after the resize: nothing else touches the handle in between)
        s.push(WStep::FlushHandle { slot: 1 });
    }
    s.push(WStep::Write { slot: 1, len: 200 });
    s.push(WStep::FlushHandle { slot: 1 });
    s.push(WStep::CloseHandle { slot: 0 });
    s.push(WStep::OpenExisting { slot: 0, path: "/a".into() });
    s.push(WStep::Seek { slot: 0, to: 5 });
    s.push(WStep::Write { slot: 0, len: 3000 }); // crosses 4096 for some workloads
    s.push(WStep::FlushHandle { slot: 0 });
    s.push(WStep::CloseHandle { slot: 0 });
    s.push(WStep::CloseHandle { slot: 1 });
    s.push(WStep::Remove("/d/b".into()));
    s.push(WStep::FlushFile);
    s
}

struct HState {
    stream: Stream<MonFile>,
    path: String,
    pos: u64,
    /// model of the stream as far as this handle's accepted writes define it
    content: Vec<u8>,
    /// the stream's real state became unknowable (a resize or structural call failed)
    tainted: bool,
    last_flush_failed: bool,
    /// the taint comes from a failed set_len(n) and nothing else: the stream is then either
    /// as it was (all accepted bytes) or resized to n (zeros gained) - `Some(n)`
    failed_set_len: Option<u64>,
    /// while `failed_set_len` is set: the other candidate (the stream as the failed set_len
    /// would have left it), carried along through later writes and resizes
    alt: Option<Vec<u8>>,
    /// third candidate after a failed *shrink*: the chain was cut (at the next mini sector /
    /// sector boundary) but the recorded length stayed - unreadable as it is, and after a
    /// later successful resize: the bytes up to the cut, zeros behind
    alt2: Option<Vec<u8>>,
    /// a write or a successful set_len came after the failed set_len: the next write-back
    /// rewrites the directory entry, so that the stored bytes must agree with the live
    /// object again from the next Ok flush on
    healed: bool,
    /// the directory entry in the file may still be what a failed, unrepeated set_len left
    /// half-written (nothing has rewritten it since): the stored bytes are not compared
    entry_may_lag: bool,
    /// value of `WState::taint_epoch` when the handle was opened
    epoch: u32,
}

struct WState {
    shared: Shared,
    cf: CompoundFile<MonFile>,
    handles: Vec<Option<HState>>,
    api: u32,
    writes: u64,
    structure_tainted: bool,
    /// counts the structural calls that failed so far: a stream created after the latest one
    /// is known although the tree as a whole is not
    taint_epoch: u32,
    /// some API call failed and never succeeded when retried
    unrecovered: bool,
    /// the fault plan tears a write (grants a strict prefix, then fails)
    torn: bool,
    /// state bits last set successfully through the API, per path
    state_set: Vec<(String, u32)>,
    /// streams whose last flush returned Ok and read back right then, with the accepted
    /// bytes; an entry goes when anything writes to, resizes, re-creates or removes the stream
    durable: Vec<(String, Vec<u8>)>,
    /// the workload started from nothing or from a file the library wrote itself (one that
    /// strict mode accepts): what the library stores is then expected to stay acceptable
    /// to its own strict mode
    own_file: bool,
    /// steps to run between the next failing call and its repetition
    interlude: Option<Vec<WStep>>,
    /// a call has failed and is not repeated yet (the interlude is running)
    pending: bool,
}

fn w_step_name(s: &WStep) -> &'static str {
    match s {
        WStep::CreateStorage(_) => "create_storage",
        WStep::OpenNew { .. } => "create_stream",
        WStep::OpenExisting { .. } => "open_stream",
        WStep::Write { .. } => "write",
        WStep::WriteVectored { .. } => "write_vectored",
        WStep::Seek { .. } => "seek",
        WStep::ReadSome { .. } => "read",
        WStep::SetLen { .. } => "set_len",
        WStep::FlushHandle { .. } => "stream_flush",
        WStep::CloseHandle { .. } => "close",
        WStep::Remove(_) => "remove_stream",
        WStep::SetState(..) => "set_state_bits",
        WStep::FlushFile => "flush",
        WStep::Marker => "marker",
        WStep::Interlude(_) => "interlude",
    }
}

/// One attempt of one step.  Outer Err = oracle violation.
fn w_exec(st: &mut WState, step: &WStep, rep: &mut Report) -> Result<Result<(), ErrorKind>, (String, String)> {
    st.api += 1;
    st.shared.set_api(st.api);
    let hits_before = st.shared.hits().len();
    let touched: Option<String> = match step {
        WStep::OpenNew { path, .. } => Some(path.clone()),
        WStep::Remove(p) => Some(p.clone()),
        WStep::Write { slot, .. } | WStep::WriteVectored { slot, .. } | WStep::SetLen { slot, .. } => st.handles.get(*slot).and_then(|h| h.as_ref()).map(|h| h.path.clone()),
        _ => None,
    };
    if let Some(p) = touched {
        st.durable.retain(|x| x.0 != p);
    }
    let r: Result<(), std::io::Error> = match step {
        WStep::CreateStorage(p) => st.cf.create_storage(p),
        WStep::OpenNew { slot, path } | WStep::OpenExisting { slot, path } => {
            let r = if matches!(step, WStep::OpenNew { .. }) { st.cf.create_stream(path) } else { st.cf.open_stream(path) };
            match r {
                Ok(mut s) => {
                    while st.handles.len() <= *slot {
                        st.handles.push(None);
                    }
                    if let Some(old) = st.handles[*slot].take() {
                        // never let Drop write back here: Drop swallows errors by design,
                        // which is outside the property
                        std::mem::forget(old);
                    }
                    // initial content of an existing stream = what a read shows now
                    let mut content = Vec::new();
                    let mut tainted = false;
                    if matches!(step, WStep::OpenExisting { .. }) {
                        st.shared.pause_faults(true);
                        if s.read_to_end(&mut content).is_err() || s.seek(SeekFrom::Start(0)).is_err() {
                            tainted = true;
                        }
                        st.shared.pause_faults(false);
                    }
                    st.handles[*slot] = Some(HState { stream: s, path: path.clone(), pos: 0, content, tainted, last_flush_failed: false, failed_set_len: None, alt: None, alt2: None, healed: false, entry_may_lag: false, epoch: st.taint_epoch });
                    Ok(())
                }
                Err(e) => Err(e),
            }
        }
        WStep::Write { slot, len } => match st.handles.get_mut(*slot).and_then(|h| h.as_mut()) {
            None => Ok(()),
            Some(h) => {
                st.writes += 1;
                let data = payload(st.writes, *len);
                match h.stream.write(&data) {
                    Ok(k) => {
                        if k == 0 || k > *len {
                            return Err(("write | wrong count".to_string(), format!("write({len}) returned {k}")));
                        }
                        let end = h.pos as usize + k;
                        // the other candidate after a failed set_len takes the same bytes, as
                        // long as the position lies inside it
                        match h.alt.as_mut() {
                            Some(a) if h.pos as usize <= a.len() => {
                                if a.len() < end {
                                    a.resize(end, 0);
                                }
                                a[h.pos as usize..end].copy_from_slice(&data[..k]);
                                h.healed = true;
                            }
                            _ => {
                                h.alt = None;
                                h.failed_set_len = None;
                            }
                        }
                        match h.alt2.as_mut() {
                            Some(a) if h.pos as usize <= a.len() => {
                                if a.len() < end {
                                    a.resize(end, 0);
                                }
                                a[h.pos as usize..end].copy_from_slice(&data[..k]);
                            }
                            _ => h.alt2 = None,
                        }
                        h.entry_may_lag = false;
                        if h.content.len() < end {
                            h.content.resize(end, 0);
                        }
                        h.content[h.pos as usize..end].copy_from_slice(&data[..k]);
                        h.pos = end as u64;
                        Ok(())
                    }
                    Err(e) => Err(e),
                }
            }
        },
        WStep::WriteVectored { slot, len } => match st.handles.get_mut(*slot).and_then(|h| h.as_mut()) {
            None => Ok(()),
            Some(h) => {
                st.writes += 1;
                let first = 1024 - (h.pos as usize % 1024);
                let data = payload(st.writes, first + *len);
                let bufs = [std::io::IoSlice::new(&data[..first]), std::io::IoSlice::new(&data[first..])];
                match h.stream.write_vectored(&bufs) {
                    Ok(k) => {
                        if k == 0 || k > data.len() {
                            return Err(("write_vectored | wrong count".to_string(), format!("write_vectored({first} + {len}) returned {k}")));
                        }
                        let end = h.pos as usize + k;
                        // the other candidate after a failed set_len takes the same bytes, as
                        // long as the position lies inside it
                        match h.alt.as_mut() {
                            Some(a) if h.pos as usize <= a.len() => {
                                if a.len() < end {
                                    a.resize(end, 0);
                                }
                                a[h.pos as usize..end].copy_from_slice(&data[..k]);
                                h.healed = true;
                            }
                            _ => {
                                h.alt = None;
                                h.failed_set_len = None;
                            }
                        }
                        match h.alt2.as_mut() {
                            Some(a) if h.pos as usize <= a.len() => {
                                if a.len() < end {
                                    a.resize(end, 0);
                                }
                                a[h.pos as usize..end].copy_from_slice(&data[..k]);
                            }
                            _ => h.alt2 = None,
                        }
                        h.entry_may_lag = false;
                        if h.content.len() < end {
                            h.content.resize(end, 0);
                        }
                        h.content[h.pos as usize..end].copy_from_slice(&data[..k]);
                        h.pos = end as u64;
                        Ok(())
                    }
                    // "If an error is returned then no bytes in the buffer were written"
                    Err(e) => Err(e),
                }
            }
        },
        WStep::Seek { slot, to } => match st.handles.get_mut(*slot).and_then(|h| h.as_mut()) {
            None => Ok(()),
            Some(h) => {
                let to = (*to).min(h.content.len() as u64);
                match h.stream.seek(SeekFrom::Start(to)) {
                    Ok(p) => {
                        h.pos = p;
                        Ok(())
                    }
                    Err(e) => Err(e),
                }
            }
        },
        WStep::ReadSome { slot, n } => match st.handles.get_mut(*slot).and_then(|h| h.as_mut()) {
            None => Ok(()),
            Some(h) => {
                // read back a little before the position
                let back = (h.pos).min(*n as u64);
                match h.stream.seek(SeekFrom::Current(-(back as i64))) {
                    Err(e) => Err(e),
                    Ok(p) => {
                        h.pos = p;
                        let mut buf = vec![0u8; *n];
                        match h.stream.read(&mut buf) {
                            Ok(k) => {
                                if !h.tainted && buf[..k] != h.content[h.pos as usize..h.pos as usize + k] {
                                    return Err(("read | wrong bytes through the writing handle".to_string(), format!("{}: {}", h.path, engine::describe_bytes_diff(&h.content[h.pos as usize..h.pos as usize + k], &buf[..k]))));
                                }
                                h.pos += k as u64;
                                Ok(())
                            }
                            Err(e) => Err(e),
                        }
                    }
                }
            }
        },
        WStep::SetLen { slot, n } => {
            let unit_len: usize = if st.cf.version() == Version::V3 { 512 } else { 4096 };
            match st.handles.get_mut(*slot).and_then(|h| h.as_mut()) {
            None => Ok(()),
            Some(h) => match h.stream.set_len(*n) {
                Ok(()) => {
                    // (a set_len to the current length writes nothing)
                    if h.content.len() as u64 != *n {
                        h.entry_may_lag = false;
                    }
                    h.content.resize(*n as usize, 0);
                    h.pos = h.pos.min(*n);
                    // a resize never changes the bytes it keeps, so after a set_len that
                    // reports success both candidates left by an earlier failed set_len are
                    // resized alike; when they coincide (the usual retry with the same
                    // length) the content is known again: kept prefix, zeros gained
                    if h.failed_set_len.is_some() {
                        if let Some(a) = h.alt.as_mut() {
                            a.resize(*n as usize, 0);
                        }
                        if let Some(a) = h.alt2.as_mut() {
                            a.resize(*n as usize, 0);
                        }
                        if h.alt.as_ref().map_or(true, |a| *a == h.content) && h.alt2.as_ref().map_or(true, |a| *a == h.content) {
                            h.failed_set_len = None;
                            h.alt = None;
                            h.alt2 = None;
                            h.healed = false;
                            h.tainted = false;
                            rep.count("set_len_recovered_content_known_again");
                        } else {
                            h.healed = true;
                            rep.count("set_len_after_a_failed_set_len_two_candidates_kept");
                        }
                    }
                    // a set_len that reports success has resized the stream - also when an
                    // earlier attempt failed half-way (the content is then unknowable, the
                    // length is not)
                    if !st.structure_tainted {
                        let path = h.path.clone();
                        st.shared.pause_faults(true);
                        let seen = st.cf.entry(&path).map(|e| e.len());
                        st.shared.pause_faults(false);
                        if let Ok(l) = seen {
                            if l != *n {
                                return Err((format!("set_len Ok | stream does not have the new length{}", if h.tainted { " (an earlier attempt had failed)" } else { "" }), format!("{path}: set_len({n}) returned Ok but the entry reports {l} bytes")));
                            }
                            rep.count("ok_set_len_length_checked");
                        }
                    }
                    Ok(())
                }
                Err(e) => {
                    if !h.tainted {
                        h.failed_set_len = Some(*n);
                        let mut a = h.content.clone();
                        a.resize(*n as usize, 0);
                        h.alt = Some(a);
                        h.alt2 = None;
                        if (*n as usize) < h.content.len() && *n > 0 {
                            let unit = if h.content.len() < 4096 { 64 } else { unit_len };
                            let cut = ((*n as usize + unit - 1) / unit * unit).min(h.content.len());
                            h.alt2 = Some(h.content[..cut].to_vec());
                        }
                        h.healed = false;
                    } else {
                        // a second failure: nothing is known any more
                        h.failed_set_len = None;
                        h.alt = None;
                        h.alt2 = None;
                    }
                    h.tainted = true;
                    Err(e)
                }
            },
            }
        }
        WStep::FlushHandle { slot } | WStep::CloseHandle { slot } => {
            let close = matches!(step, WStep::CloseHandle { .. });
            match st.handles.get_mut(*slot).and_then(|h| h.as_mut()) {
                None => Ok(()),
                Some(h) => match h.stream.flush() {
                    Ok(()) => {
                        let after_failed = h.last_flush_failed;
                        h.last_flush_failed = false;
                        // Ok from flush means the underlying writer was flushed *after* the last
                        // byte reached it (a write-behind store would otherwise still hold it)
                        let pending = st.shared.writes_since_flush();
                        if pending != 0 {
                            return Err((format!("flush Ok | underlying writer not flushed after the last write{}", if after_failed { " (previous flush attempt had failed)" } else { "" }), format!("{}: Stream::flush returned Ok but {pending} underlying write(s) happened since the last successful underlying flush", h.path)));
                        }
                        rep.count("ok_flush_underlying_flush_checked");
                        // "Durable": once every call that failed has succeeded on retry, nothing that
                        // was reported is still missing, so the stored bytes must open again - also
                        // when the failure hit a structural call (create / remove / resize).  Not
                        // demanded while a failed call is still unrecovered ("later calls may fail"),
                        // nor when the store itself tore a write (short write, then failure).
                        let stored = st.shared.bytes();
                        let (f2, _s2) = MonFile::new(stored);
                        let mut reopened = match CompoundFile::open(f2) {
                            Ok(cf2) => Some(cf2),
                            Err(e) => {
                                if !st.unrecovered && !st.torn && !st.pending {
                                    return Err((format!("flush Ok | the stored file no longer opens | {}", crate::guard::strip_numbers(&e.to_string())), format!("{}: every failed call had succeeded on retry and Stream::flush returned Ok, but the stored bytes are rejected by open: {e}", h.path)));
                                }
                                rep.count("reopen_unavailable");
                                None
                            }
                        };
                        if reopened.is_some() && !st.unrecovered && !st.torn && !st.pending {
                            rep.count("ok_flush_stored_file_opens");
                            // ... and not only by the lenient reader: every write that failed has been
                            // repeated, so the file the library wrote holds no field that a failed
                            // write left behind (a count in the header that no longer matches its
                            // chain, say), and the library's own strict mode accepts it
                            if st.own_file {
                                if std::env::var_os("CFBMON_TRACE").is_some() {
                                    let b = st.shared.bytes();
                                    eprintln!("    strict probe: header minifat start {} count {}", u32::from_le_bytes([b[60], b[61], b[62], b[63]]), u32::from_le_bytes([b[64], b[65], b[66], b[67]]));
                                }
                                let (f3, _s3) = MonFile::new(st.shared.bytes());
                                if let Err(e) = CompoundFile::open_strict(f3) {
                                    return Err((format!("flush Ok | the stored file is rejected by strict open | {}", crate::guard::strip_numbers(&e.to_string())), format!("{}: every failed call had succeeded on retry and Stream::flush returned Ok, but the stored bytes are rejected by open_strict: {e}", h.path)));
                                }
                                rep.count("ok_flush_stored_file_opens_strict");
                            }
                            // metadata calls that returned Ok are in the stored file as well
                            if let Some(cf2) = reopened.as_ref() {
                                for (p, v) in &st.state_set {
                                    if let Ok(e) = cf2.entry(p) {
                                        if e.state_bits() != *v {
                                            return Err(("set_state_bits Ok | the stored file holds another value".to_string(), format!("{p}: set_state_bits({v:#x}) returned Ok (every failed call had succeeded on retry), the reopened file reports {:#x}", e.state_bits())));
                                        }
                                        rep.count("ok_metadata_reopen_checked");
                                    }
                                }
                            }
                        }
                        // after a set_len that failed and was not repeated, the stream is either as
                        // before or resized (both candidates carried through the writes and
                        // resizes since): a fresh handle sees one of the two, and from then on the
                        // handle is judged like any other
                        if let (Some(n), false) = (h.failed_set_len, st.structure_tainted) {
                            let mut got = Vec::new();
                            st.shared.pause_faults(true);
                            let rb = st.cf.open_stream(&h.path).and_then(|mut f| f.read_to_end(&mut got));
                            st.shared.pause_faults(false);
                            if rb.is_ok() {
                                let resized = h.alt.clone().unwrap_or_else(|| h.content.clone());
                                let cut = h.alt2.clone().unwrap_or_else(|| h.content.clone());
                                if got != h.content && got != resized && got != cut {
                                    return Err(("flush Ok | after a failed set_len the stream is neither as before nor resized".to_string(), format!("{}: {} bytes accepted, set_len({n}) failed and was not repeated, flush returned Ok; a fresh handle reads {} bytes{}", h.path, h.content.len(), got.len(), if got.len() == h.content.len() { format!(" ({})", engine::describe_bytes_diff(&h.content, &got)) } else if got.len() == resized.len() { format!(" ({})", engine::describe_bytes_diff(&resized, &got)) } else { String::new() })));
                                }
                                rep.count("ok_flush_after_unrepeated_failed_set_len_checked");
                                // which of the two it was is known now
                                h.content = got;
                                h.alt = None;
                                h.alt2 = None;
                                h.failed_set_len = None;
                                h.tainted = false;
                                // unless a write or resize since the failure made this flush
                                // rewrite the directory entry, the stored entry may still be
                                // what the failed call left half-written
                                h.entry_may_lag = !h.healed;
                                h.healed = false;
                            }
                        }
                        // a successful flush means durable: a fresh handle reads back every
                        // accepted byte - also when the previous flush attempt had failed
                        // (a stream created after the latest failed structural call is known, even
                        // while the tree as a whole is not)
                        if !h.tainted && (!st.structure_tainted || h.epoch == st.taint_epoch) {
                            let path = h.path.clone();
                            let want = h.content.clone();
                            let mut got = Vec::new();
                            st.shared.pause_faults(true);
                            let rb = st.cf.open_stream(&path).and_then(|mut f| f.read_to_end(&mut got));
                            st.shared.pause_faults(false);
                            match rb {
                                Ok(_) => {
                                    if got != want {
                                        let d = if got.len() == want.len() { engine::describe_bytes_diff(&want, &got) } else { format!("{} bytes accepted, fresh handle reads {}", want.len(), got.len()) };
                                        return Err((format!("flush Ok | accepted bytes not readable by a fresh handle{}", if after_failed { " (previous flush attempt had failed)" } else { "" }), format!("{path}: {d}")));
                                    }
                                    rep.count("ok_flush_readbacks");
                                    st.durable.retain(|x| x.0 != path);
                                    st.durable.push((path.clone(), want.clone()));
                                    if after_failed {
                                        rep.count("ok_flush_after_failed_flush_readbacks");
                                    }
                                    // "is in the compound file": the raw bytes, reopened, hold them too
                                    if let Some(cf2) = reopened.as_mut().filter(|_| !h.entry_may_lag) {
                                        let mut got2 = Vec::new();
                                        match cf2.open_stream(&path).and_then(|mut f| f.read_to_end(&mut got2)) {
                                            Ok(_) if got2 == want => rep.count("ok_flush_reopen_readbacks"),
                                            Ok(_) => {
                                                return Err(("flush Ok | accepted bytes are not in the reopened file".to_string(), format!("{path}: {}", if got2.len() == want.len() { engine::describe_bytes_diff(&want, &got2) } else { format!("{} bytes accepted, reopened file holds {}", want.len(), got2.len()) })));
                                            }
                                            Err(e) => {
                                                return Err(("flush Ok | accepted bytes cannot be read from the reopened file".to_string(), format!("{path}: {e} (the live object reads them fine)")));
                                            }
                                        }
                                    }
                                }
                                Err(_) => rep.count("readback_unavailable"),
                            }
                        }
                        if close {
                            st.handles[*slot] = None;
                        }
                        Ok(())
                    }
                    Err(e) => {
                        h.last_flush_failed = true;
                        Err(e)
                    }
                },
            }
        }
        WStep::Remove(p) => {
            // a handle is never used after its own stream is removed (outside the
            // property); if closing it failed earlier, leak it without running Drop
            for h in st.handles.iter_mut() {
                if h.as_ref().map(|x| &x.path == p).unwrap_or(false) {
                    if let Some(old) = h.take() {
                        std::mem::forget(old);
                    }
                }
            }
            let r = st.cf.remove_stream(p);
            if r.is_err() {
                st.structure_tainted = true;
                st.taint_epoch += 1;
            }
            r
        }
        WStep::SetState(p, v) => {
            let r = st.cf.set_state_bits(p, *v);
            if r.is_ok() {
                st.state_set.retain(|x| &x.0 != p);
                st.state_set.push((p.clone(), *v));
            }
            r
        }
        WStep::FlushFile => st.cf.flush(),
        WStep::Marker | WStep::Interlude(_) => Ok(()),
    };
    // (1) the API call during which an underlying call failed must report an error
    let hits = st.shared.hits();
    if hits.len() > hits_before && r.is_ok() {
        let h = &hits[hits_before];
        return Err((format!("{} | underlying {} failure swallowed", w_step_name(step), crate::backend::kind_name(h.kind)), format!("{:?} returned Ok although underlying call #{} ({}) failed during it", step, h.seq, crate::backend::kind_name(h.kind))));
    }
    if hits.len() > hits_before {
        rep.count(&format!("fault_surfaced_in.{}.{}", w_step_name(step), crate::backend::kind_name(hits[hits_before].kind)));
    }
    if r.is_err() && matches!(step, WStep::CreateStorage(_) | WStep::OpenNew { .. }) {
        st.structure_tainted = true;
        st.taint_epoch += 1;
    }
    Ok(r.map_err(|e| e.kind()))
}

/// Runs `pre` without faults on a new file and returns the stored bytes.
fn prebuilt_image(version: Version, pre: &[WStep], rep: &mut Report) -> Option<Vec<u8>> {
    let (file, shared) = MonFile::new(Vec::new());
    let cf = match version {
        Version::V4 => OpenOptions::new().max_buffer_size(1024).create_with(file),
        Version::V3 => CompoundFile::create_with_version(Version::V3, file).and_then(|c| OpenOptions::new().max_buffer_size(1024).open_with(c.into_inner())),
    }
    .ok()?;
    let mut st = WState { shared: shared.clone(), cf, handles: Vec::new(), api: 0, writes: 0, structure_tainted: false, taint_epoch: 0, unrecovered: false, torn: false, state_set: Vec::new(), durable: Vec::new(), own_file: true, interlude: None, pending: false };
    for step in pre {
        match w_exec(&mut st, step, rep) {
            Ok(Ok(())) => {}
            _ => return None,
        }
    }
    for h in st.handles.iter_mut().flatten() {
        h.stream.flush().ok()?;
    }
    st.cf.flush().ok()?;
    let bytes = shared.bytes();
    CompoundFile::open_strict(std::io::Cursor::new(bytes.clone())).ok()?;
    Some(bytes)
}

fn w_run(script: &[WStep], version: Version, faults: Vec<Fault>, rep: &mut Report, start: Option<&[u8]>) -> Result<(u64, [u64; 3]), (String, String)> {
    w_run_observed(script, version, faults, rep, None, start).map(|x| (x.0, x.2))
}

pub fn run_c13(ctx: &Ctx, rep: &mut Report) {
    let n_workloads: u64 = if ctx.quick() { ctx.nshards } else { ctx.nshards * 6 };
    let mut i = 0;
    let mut w = ctx.shard;
    while w < n_workloads {
        let case = w;
        if ctx.only_case.map(|c| c != case).unwrap_or(false) {
            w += ctx.nshards;
            continue;
        }
        let _ = ctx.next_case(&mut i);
        crate::guard::case_begin(case);
        let mut rng = Rng::derive(ctx.seed, &[13, w]);
        let version = if w % 2 == 0 { Version::V3 } else { Version::V4 };
        let mut script = build_write_script(&mut rng, w);
        // family D starts from a version 3 image that ends just below 109 FAT sectors
        // (built once, fault-free; every run works on a copy)
        let mut start_image: Option<Vec<u8>> = if w % 16 == 8 { difat_start_image() } else { None };
        // families F and G: what comes before the marker (tens of thousands of underlying
        // calls that are not swept) is run once, fault-free, and every faulty run starts
        // from a copy of the resulting file
        // (possible whenever no handle is open at the marker: families C, E, F, G)
        let marker_at = script.iter().position(|s| matches!(s, WStep::Marker));
        let prebuilt = w % 16 != 8
            && marker_at.map_or(false, |k| {
                let mut open = std::collections::BTreeSet::new();
                for st in &script[..k] {
                    match st {
                        WStep::OpenNew { slot, .. } | WStep::OpenExisting { slot, .. } => {
                            open.insert(*slot);
                        }
                        WStep::CloseHandle { slot } => {
                            open.remove(slot);
                        }
                        _ => {}
                    }
                }
                open.is_empty()
            });
        if prebuilt {
            if let Some(k) = marker_at {
                start_image = prebuilt_image(version, &script[..k], rep);
                script = script[k + 1..].to_vec();
                rep.count("workloads_started_from_a_prebuilt_image");
            }
        }
        if (w % 16 == 8 || prebuilt) && start_image.is_none() {
            rep.inconclusive(format!("write workload {w}: the start image could not be built"));
            w += ctx.nshards;
            continue;
        }
        let witness = |extra: Vec<(&str, J)>| {
            let mut v = vec![("workload", J::Int(w as i128)), ("version", J::s(format!("{version:?}"))), ("script", J::Arr(script.iter().map(|s| J::s(format!("{:?}", s))).collect()))];
            v.extend(extra);
            ctx.witness(case, v)
        };
        let (n, start_at) = match guard::catch(|| w_run(&script, version, vec![], rep, start_image.as_deref())) {
            Ok(Ok(x)) => x,
            Ok(Err((sig, d))) => {
                rep.finding(format!("fault-free | {sig}"), d, witness(vec![]));
                w += ctx.nshards;
                continue;
            }
            Err(p) => {
                rep.finding(p.signature(), format!("panic in the fault-free run at {}:{}: {}", p.file, p.line, p.message), witness(vec![]));
                w += ctx.nshards;
                continue;
            }
        };
        rep.max("max_underlying_calls_per_workload", n);
        rep.add("underlying_calls_total", n);
        let mut complete = true;
        // the fault-free run counts all kinds; enumerate per kind mask so that every
        // write / seek / flush position is hit
        // "full": from the k-th write on the store accepts nothing (every write returns Ok(0))
        for (mask, label) in [(K_WRITE, "write"), (K_SEEK, "seek"), (K_FLUSH, "flush"), (K_WRITE, "full")] {
            // calls of this kind made before the script's marker (0 without a marker)
            let mut k = match mask {
                K_WRITE => start_at[0],
                K_SEEK => start_at[1],
                _ => start_at[2],
            }
            .saturating_sub(4);
            loop {
                // the shard's first workload is swept to the end even on a loaded machine
                // (up to four times the time budget); later ones stop with the budget
                let in_time = ctx.time_left() || (w < ctx.nshards && ctx.elapsed() < 4.0 * ctx.budget_s);
                if !in_time && ctx.only_case.is_none() {
                    complete = false;
                    break;
                }
                let full = label == "full";
                if let Some(only) = std::env::var_os("CFBMON_ONLY_POS") {
                    let only = only.to_string_lossy().to_string();
                    let want_k: u64 = only.split(':').nth(1).and_then(|x| x.parse().ok()).unwrap_or(0);
                    if !only.starts_with(label) || k > want_k {
                        break;
                    }
                    if k < want_k {
                        k = want_k;
                    }
                }
                let partial = mask == K_WRITE && k % 3 == 1 && !full;
                let kind = if full {
                    ErrorKind::WriteZero
                } else if k % 2 == 0 {
                    ErrorKind::Other
                } else {
                    ErrorKind::TimedOut
                };
                let plan = vec![Fault { kinds: mask, k, err: kind, sticky: full, partial }];
                let mut fired = false;
                crate::guard::case_begin(case); // CPU budget per faulty run, not per workload
                let set_len_errors_before = rep.get("api_errors.set_len");
                let r = guard::catch(|| {
                    let (res, hit) = {
                        // run and report whether the fault fired at all
                        let res = w_run_observed(&script, version, plan.clone(), rep, Some(n), start_image.as_deref());
                        match res {
                            Ok((n, hit, _)) => (Ok(n), hit),
                            Err(e) => (Err(e), true),
                        }
                    };
                    fired = hit;
                    res
                });
                // the fault made a set_len fail: the same position once more with the other
                // answer to "is the failed set_len repeated?" (the answer otherwise follows
                // the parity of k, and so do the calls inside a loop over FAT cells)
                let r = if matches!(r, Ok(Ok(_))) && rep.get("api_errors.set_len") > set_len_errors_before {
                    rep.count("positions_run_with_both_set_len_policies");
                    FLIP_SET_LEN_POLICY.with(|c| c.set(true));
                    let r2 = guard::catch(|| w_run_observed(&script, version, plan.clone(), rep, Some(n), start_image.as_deref()).map(|x| x.0));
                    FLIP_SET_LEN_POLICY.with(|c| c.set(false));
                    rep.evaluations += 1;
                    r2
                } else {
                    r
                };
                rep.evaluations += 1;
                let fw = || witness(vec![("fault_kind", J::s(label)), ("fault_position", J::Int(k as i128)), ("short_then_fail", J::Bool(partial))]);
                match r {
                    Ok(Ok(_)) => {}
                    Ok(Err((sig, d))) => rep.finding(sig, format!("{label} fault at position #{k}{}: {d}", if partial { " (short then fail)" } else { "" }), fw()),
                    Err(p) => rep.finding(p.signature(), format!("{label} fault at position #{k}: panic at {}:{}: {}", p.file, p.line, p.message), fw()),
                }
                if !fired {
                    break; // k is beyond the last call of this kind
                }
                rep.count(&format!("positions.{label}"));
                rep.nontrivial(fnv64_add(fnv64_add(crate::rng::fnv64(&w.to_le_bytes()), &k.to_le_bytes()), label.as_bytes()));
                k += 1;
                if k > 200_000 {
                    break;
                }
            }
        }
        if complete {
            rep.count("exhaustive_workloads");
        } else {
            rep.count("non_exhaustive_workloads");
        }
        if rep.samples.len() < 2 {
            rep.sample(J::obj(vec![("workload", J::Int(w as i128)), ("version", J::s(format!("{version:?}"))), ("underlying_calls", J::Int(n as i128)), ("script", J::Arr(script.iter().map(|s| J::s(format!("{:?}", s))).collect()))]));
        }
        w += ctx.nshards;
    }
    crate::guard::case_end();
}

thread_local! {
    /// set for the second run of a fault position at which a set_len failed: the run that
    /// repeated the call is done again without repeating it, and vice versa
    static FLIP_SET_LEN_POLICY: std::cell::Cell<bool> = const { std::cell::Cell::new(false) };
}

/// Like `w_run` but also says whether the armed fault fired.
fn w_run_observed(script: &[WStep], version: Version, faults: Vec<Fault>, rep: &mut Report, fault_free_calls: Option<u64>, start: Option<&[u8]>) -> Result<(u64, bool, [u64; 3]), (String, String)> {
    let (file, shared) = MonFile::new(start.map(|b| b.to_vec()).unwrap_or_default());
    let cf = match (start, version) {
        (Some(_), _) => OpenOptions::new().max_buffer_size(1024).open_with(file),
        (None, Version::V4) => OpenOptions::new().max_buffer_size(1024).create_with(file),
        (None, Version::V3) => CompoundFile::create_with_version(Version::V3, file).and_then(|c| OpenOptions::new().max_buffer_size(1024).open_with(c.into_inner())),
    }
    .map_err(|e| ("create | failed without faults".to_string(), format!("{e}")))?;
    let base = shared.seq();
    let own_file = match start {
        None => true,
        Some(b) => CompoundFile::open_strict(std::io::Cursor::new(b.to_vec())).is_ok(),
    };
    let torn = faults.iter().any(|f| f.partial);
    let no_set_len_retry = faults.first().map(|f| (f.k % 2 == 1) != FLIP_SET_LEN_POLICY.with(|c| c.get())).unwrap_or(false);
    shared.arm(faults);
    // bounded progress in logical steps: with three attempts per step plus the harness's
    // own readbacks a run needs a small multiple of the fault-free call count; at fifty
    // times that every further underlying call fails, so a retry loop in the crate ends
    if let Some(n) = fault_free_calls {
        shared.set_step_budget(50 * n + 20_000);
    }
    let mut st = WState { shared: shared.clone(), cf, handles: Vec::new(), api: 0, writes: 0, structure_tainted: false, taint_epoch: 0, unrecovered: false, torn, state_set: Vec::new(), durable: Vec::new(), own_file, interlude: None, pending: false };
    let kind_counts = |sh: &Shared| {
        // (numbered as the fault plan numbers them: the harness's own paused read-backs
        // do not count)
        let g = sh.lock();
        g.c.faultable
    };
    let at_arm = kind_counts(&shared);
    let mut marker = [0u64; 3];
    for step in script {
        if matches!(step, WStep::Marker) {
            let now = kind_counts(&shared);
            marker = [now[0] - at_arm[0], now[1] - at_arm[1], now[2] - at_arm[2]];
            continue;
        }
        if let WStep::Interlude(steps) = step {
            st.interlude = Some(steps.clone());
            continue;
        }
        let mut attempts = 0;
        loop {
            attempts += 1;
            let r = w_exec(&mut st, step, rep)?;
            if std::env::var_os("CFBMON_TRACE").is_some() {
                let hs: Vec<String> = st.handles.iter().flatten().map(|h| format!("{}: len()={} model_len={} pos={} tainted={}", h.path, h.stream.len(), h.content.len(), h.pos, h.tainted)).collect();
                eprintln!("  {:?} (attempt {attempts}) -> {:?}   [{}] seq={}", step, r, hs.join("; "), shared.seq());
            }
            match r {
                Ok(()) => {
                    if attempts > 1 {
                        rep.count("retries_that_succeeded");
                        // a structural call that failed and has now succeeded: the tree is
                        // known again (the object exists and is empty / is gone)
                        if !st.unrecovered && matches!(step, WStep::CreateStorage(_) | WStep::OpenNew { .. } | WStep::Remove(_)) {
                            st.structure_tainted = false;
                            rep.count("structural_calls_recovered");
                        }
                    }
                    break;
                }
                Err(_) => {
                    if std::env::var_os("CFBMON_TRACE").is_some() {
                        let b = shared.bytes();
                        eprintln!("    after the failure: header minifat count {} file len {}", u32::from_le_bytes([b[64], b[65], b[66], b[67]]), b.len());
                    }
                    rep.count(&format!("api_errors.{}", w_step_name(step)));
                    // a failed set_len is not repeated in the runs with an odd fault position
                    let give_up = matches!(step, WStep::SetLen { .. }) && no_set_len_retry;
                    if attempts >= 3 || give_up {
                        st.unrecovered = true;
                        break;
                    }
                    // other work between the failure and the repetition
                    if let Some(steps) = st.interlude.take() {
                        rep.count("interludes_run");
                        st.pending = true;
                        for istep in &steps {
                            let mut n = 0;
                            loop {
                                n += 1;
                                match w_exec(&mut st, istep, rep)? {
                                    Ok(()) => break,
                                    Err(_) => {
                                        if n >= 3 {
                                            st.unrecovered = true;
                                            break;
                                        }
                                    }
                                }
                            }
                        }
                        st.pending = false;
                    }
                }
            }
        }
    }
    for h in st.handles.iter_mut().flatten() {
        let _ = h.stream.flush();
    }
    // "is in the compound file and is read back by a fresh handle" has no expiry date: when
    // every failed call succeeded on retry, a stream that nothing touched since its flush
    // returned Ok still reads back the same at the end of the workload
    if !st.unrecovered && !st.torn && !st.structure_tainted {
        shared.pause_faults(true);
        let open_paths: Vec<String> = st.handles.iter().flatten().map(|h| h.path.clone()).collect();
        for (p, want) in st.durable.clone() {
            if open_paths.contains(&p) {
                continue;
            }
            let mut got = Vec::new();
            match st.cf.open_stream(&p).and_then(|mut f| f.read_to_end(&mut got)) {
                Ok(_) if got == want => rep.count("end_of_workload_readbacks"),
                Ok(_) => {
                    shared.pause_faults(false);
                    let d = if got.len() == want.len() { engine::describe_bytes_diff(&want, &got) } else { format!("{} bytes accepted, fresh handle reads {}", want.len(), got.len()) };
                    return Err(("flush Ok | accepted bytes changed later although nothing touched the stream".to_string(), format!("{p}: flushed with Ok and read back then; at the end of the workload (every failed call had succeeded on retry): {d}")));
                }
                Err(e) => {
                    shared.pause_faults(false);
                    return Err(("flush Ok | the stream can no longer be read at the end of the workload".to_string(), format!("{p}: flushed with Ok and read back then; at the end of the workload (every failed call had succeeded on retry): {e}")));
                }
            }
        }
        shared.pause_faults(false);
    }
    let fired = !shared.hits().is_empty();
    if std::env::var_os("CFBMON_TRACE").is_some() {
        for h in shared.hits() {
            eprintln!("    fault hit: underlying call #{} kind {} during api call #{}", h.seq, crate::backend::kind_name(h.kind), h.api);
        }
    }
    if shared.over_budget() {
        return Err(("no bounded progress | underlying calls exceed 50x the fault-free run".to_string(), format!("the faulty run made {} underlying calls; the fault-free run makes {}", shared.seq() - base, fault_free_calls.unwrap_or(0))));
    }
    Ok((shared.seq() - base, fired, marker))
}
