use crate::common::Ctx;
use crate::report::Report;

pub mod c01;

pub fn dispatch(ctx: &Ctx, rep: &mut Report) -> bool {
    match ctx.prop.as_str() {
        "C01" => c01::run(ctx, rep),
        _ => return false,
    }
    true
}
