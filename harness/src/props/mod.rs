use crate::common::Ctx;
use crate::report::Report;

pub mod conc;
pub mod diff;
pub mod faults;
pub mod foreign;
pub mod handles;
pub mod hist;
pub mod hostile;
pub mod huge;
pub mod modes;
pub mod more;
pub mod names;
pub mod wide;

pub fn dispatch(ctx: &Ctx, rep: &mut Report) -> bool {
    match ctx.prop.as_str() {
        "C01" => hist::run_c01(ctx, rep),
        "C02" => hist::run_c02(ctx, rep),
        "C03" => hist::run_c03(ctx, rep),
        "C04" => foreign::run_c04(ctx, rep),
        "C05" => hostile::run_c05(ctx, rep),
        "C06" => handles::run_c06(ctx, rep),
        "C07" => handles::run_c07(ctx, rep),
        "C08" => handles::run_c08(ctx, rep),
        "C09" => names::run_c09(ctx, rep),
        "C10" => more::run_c10(ctx, rep),
        "C11" => hostile::run_c11(ctx, rep),
        "C12" => faults::run_c12(ctx, rep),
        "C13" => faults::run_c13(ctx, rep),
        "C14" => conc::run_c14(ctx, rep),
        "C15" => more::run_c15(ctx, rep),
        "C16" => modes::run_c16(ctx, rep),
        "C17" => more::run_c17(ctx, rep),
        "C18" => diff::run_c18(ctx, rep),
        "HUGE" => {
            for v in 0..6 {
                huge::huge_scenario(ctx, rep, "beyond 4 GiB", v);
                rep.evaluations += 1;
            }
        }
        _ => return false,
    }
    true
}
