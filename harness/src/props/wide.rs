//! Storages with very many children created in sorted order.  The crate does not
//! rebalance sibling trees, so such a storage is a chain as deep as it is wide: depth
//! limits, recursion and chunked traversals only show there.  One builder serves
//! C01 (results match the model, also after reopening), C03 (structural rules on the
//! image), C05 (opening and reading the file on a thread with a small stack) and C10
//! (refused calls leave the bytes alone - including refusals nobody predicted).

use crate::backend::{MonFile, Shared};
use crate::common::Ctx;
use crate::engine::{self, payload, Mode};
use crate::guard;
use crate::order;
use crate::report::{Report, J};
use crate::rng::Rng;
use cfb::{CompoundFile, Version};
use std::io::{ErrorKind, Read, Write};

type Fail = (String, String);
type CF = CompoundFile<MonFile>;

pub const WIDE_CASE: u64 = 4_100_000_000;

#[derive(Clone, Copy, PartialEq, Debug)]
pub enum Role {
    /// C02: more than 32768 directory entries (8192 directory sectors in version 3), then
    /// link / colour / free-slot writes for entries beyond that, judged by reopening
    Persist,
    Model,
    Rules,
    Hostile,
    NoEffect,
}

/// Runs the scenario on the shards `first..first+n` (one variant each) before the normal
/// cases, or alone when replayed.  Returns true if the caller should skip its normal cases.
pub fn maybe_run(ctx: &Ctx, rep: &mut Report, role: Role, first_shard: u64, n: u64) -> bool {
    let mine = ctx.shard >= first_shard && ctx.shard < first_shard + n;
    match ctx.only_case {
        Some(c) if c == WIDE_CASE => {
            if mine {
                wide_scenario(ctx, rep, role, ctx.shard - first_shard);
                rep.evaluations += 1;
            }
            true
        }
        Some(_) => false,
        None => {
            if mine {
                guard::case_begin(WIDE_CASE);
                wide_scenario(ctx, rep, role, ctx.shard - first_shard);
                rep.evaluations += 1;
            }
            false
        }
    }
}

fn content_of(i: usize) -> Vec<u8> {
    if i % 97 == 3 {
        payload(i as u64, 4500)
    } else if i % 5 == 0 {
        payload(i as u64, 5 + i % 40)
    } else {
        Vec::new()
    }
}

struct Built {
    cf: CF,
    shared: Shared,
    /// names under /big in creation order, with the index that determines the content
    created: Vec<(String, usize)>,
}

fn io_fail<'a>(tag: &str, what: &'a str) -> impl Fn(std::io::Error) -> Fail + 'a {
    let tag = tag.to_string();
    move |e| (format!("{tag} | {what}"), format!("{:?}: {e}", e.kind()))
}

fn build(version: Version, n: usize, order_kind: u64, rng: &mut Rng, tag: &str, log: &mut Vec<String>) -> Result<Built, Fail> {
    let (file, shared) = MonFile::new(Vec::new());
    let mut cf = CompoundFile::create_with_version(version, file).map_err(io_fail(tag, "create failed"))?;
    cf.create_storage("/big").map_err(io_fail(tag, "create_storage refused"))?;
    let mut idx: Vec<usize> = (0..n).collect();
    match order_kind {
        0 => {}
        1 => idx.reverse(),
        2 => {
            // outside in: lowest, highest, second lowest, ... (a zigzag chain)
            let mut v = Vec::with_capacity(n);
            let (mut lo, mut hi) = (0usize, n);
            while lo < hi {
                v.push(lo);
                lo += 1;
                if lo < hi {
                    hi -= 1;
                    v.push(hi);
                }
            }
            idx = v;
        }
        _ => rng.shuffle(&mut idx),
    }
    log.push(format!("create {} streams /big/rNNNNN in order kind {} (0 ascending, 1 descending, 2 outside-in, 3 random); content by index", n, order_kind));
    let mut created = Vec::with_capacity(n);
    for &i in &idx {
        let name = format!("r{:05}", i);
        let mut s = cf.create_stream(format!("/big/{name}")).map_err(io_fail(tag, "create_stream refused"))?;
        let c = content_of(i);
        if !c.is_empty() {
            s.write_all(&c).map_err(io_fail(tag, "write failed"))?;
        }
        drop(s);
        created.push((name, i));
    }
    cf.create_storage("/big/zsub").map_err(io_fail(tag, "create_storage refused"))?;
    for k in 0..3 {
        let mut s = cf.create_stream(format!("/big/zsub/leaf{k}")).map_err(io_fail(tag, "create_stream refused"))?;
        s.write_all(&payload(900 + k, 300)).map_err(io_fail(tag, "write failed"))?;
    }
    let mut s = cf.create_stream("/keep").map_err(io_fail(tag, "create_stream refused"))?;
    s.write_all(&payload(77, 2000)).map_err(io_fail(tag, "write failed"))?;
    drop(s);
    cf.flush().map_err(io_fail(tag, "flush failed"))?;
    log.push("create /big/zsub with three streams, /keep with 2000 bytes; flush".into());
    Ok(Built { cf, shared, created })
}

/// What /big must list: every live name in the format's order, then "zsub".
fn expected_listing(live: &[(String, usize)], with_sub: bool) -> Vec<(String, u64)> {
    let mut v: Vec<(String, u64)> = live.iter().map(|(n, i)| (n.clone(), content_of(*i).len() as u64)).collect();
    if with_sub {
        v.push(("zsub".to_string(), 0));
    }
    v.sort_by(|a, b| order::compare(&a.0, &b.0));
    v
}

fn listing<F: Read + std::io::Seek>(cf: &CompoundFile<F>, path: &str) -> std::io::Result<Vec<(String, u64)>> {
    Ok(cf.read_storage(path)?.map(|e| (e.name().to_string(), if e.is_stream() { e.len() } else { 0 })).collect())
}

fn check_listing<F: Read + std::io::Seek>(cf: &CompoundFile<F>, live: &[(String, usize)], with_sub: bool, when: &str, tag: &str) -> Result<(), Fail> {
    let got = listing(cf, "/big").map_err(|e| (format!("{tag} | read_storage refused"), format!("{when}: {e}")))?;
    let want = expected_listing(live, with_sub);
    if got != want {
        let first = got.iter().zip(want.iter()).position(|(a, b)| a != b).unwrap_or(got.len().min(want.len()));
        return Err((format!("{tag} | listing differs from the model"), format!("{when}: {} entries listed, {} expected; first difference at #{}: {:?} vs {:?}", got.len(), want.len(), first, got.get(first), want.get(first))));
    }
    Ok(())
}

fn check_contents<F: Read + std::io::Seek>(cf: &mut CompoundFile<F>, live: &[(String, usize)], rng: &mut Rng, k: usize, when: &str, tag: &str) -> Result<(), Fail> {
    if live.is_empty() {
        return Ok(());
    }
    // the ends of the order and a few in between
    let mut picks = vec![0usize, live.len() - 1];
    for _ in 0..k {
        picks.push(rng.usize_below(live.len()));
    }
    let mut sorted: Vec<&(String, usize)> = live.iter().collect();
    sorted.sort_by(|a, b| order::compare(&a.0, &b.0));
    for p in picks {
        let (name, i) = sorted[p];
        let path = format!("/big/{name}");
        if !cf.is_stream(&path) {
            return Err((format!("{tag} | a live stream is not found"), format!("{when}: is_stream({path}) is false")));
        }
        let mut s = cf.open_stream(&path).map_err(|e| (format!("{tag} | a live stream does not open"), format!("{when}: open_stream({path}): {e}")))?;
        let mut v = Vec::new();
        s.read_to_end(&mut v).map_err(|e| (format!("{tag} | a live stream does not read"), format!("{when}: {path}: {e}")))?;
        if v != content_of(*i) {
            return Err((format!("{tag} | a live stream holds other bytes"), format!("{when}: {path} has {} bytes, expected {}", v.len(), content_of(*i).len())));
        }
    }
    Ok(())
}

fn reopen(shared: &Shared, mode: Mode) -> std::io::Result<CF> {
    let (f, _sh) = MonFile::new(shared.bytes());
    engine::open_with(f, mode, None)
}

fn wide_scenario(ctx: &Ctx, rep: &mut Report, role: Role, variant: u64) {
    let mut rng = Rng::derive(ctx.seed, &[0x51de, role as u64, variant]);
    let tag = "wide";
    let sizes: &[usize] = match role {
        Role::Model | Role::Rules => &[70, 140, 400, 1300],
        Role::NoEffect => &[1023, 1024, 1100, 1500],
        Role::Persist => &[33100, 33100, 33100, 33100],
        Role::Hostile => {
            if ctx.quick() {
                &[2500, 4000, 6000, 9000]
            } else {
                &[4000, 9000, 15000, 20000]
            }
        }
    };
    let n = sizes[(variant % 4) as usize] + if matches!(role, Role::Model | Role::Rules) { rng.usize_below(30) } else { 0 };
    let order_kind = match role {
        Role::Persist => 3,
        Role::Hostile | Role::NoEffect => (variant / 4 + variant) % 2,
        _ => (variant / 4 + rng.below(3)) % 4,
    };
    let version = if role == Role::Persist || (variant + rng.below(2)) % 2 == 0 { Version::V3 } else { Version::V4 };
    let mut log: Vec<String> = vec![format!("version {:?}, {} children, role {:?}", version, n, role)];
    let t0 = std::time::Instant::now();
    let res = guard::catch(|| -> Result<(), Fail> {
        let Built { mut cf, shared, created } = build(version, n, order_kind, &mut rng, tag, &mut log)?;
        let mut live = created.clone();
        match role {
            Role::Model => {
                check_listing(&cf, &live, true, "after creation", tag)?;
                check_contents(&mut cf, &live, &mut rng, 12, "after creation", tag)?;
                for mode in [Mode::Strict, Mode::Permissive] {
                    log.push(format!("reopen the bytes {:?}", mode));
                    let mut c2 = reopen(&shared, mode).map_err(|e| (format!("{tag} | a file the crate wrote does not reopen"), format!("{:?}: {e}", mode)))?;
                    check_listing(&c2, &live, true, "after reopening", tag)?;
                    check_contents(&mut c2, &live, &mut rng, 6, "after reopening", tag)?;
                    rep.count("wide.reopens_checked");
                }
                // remove the deepest, the shallowest and some in between; then continue on a reopened object
                let mut victims = vec![live.len() - 1, 0, live.len() / 2];
                for _ in 0..8 {
                    victims.push(rng.usize_below(live.len()));
                }
                victims.sort();
                victims.dedup();
                for &v in victims.iter().rev() {
                    let (name, _) = live.remove(v);
                    log.push(format!("remove_stream /big/{name}"));
                    cf.remove_stream(format!("/big/{name}")).map_err(|e| (format!("{tag} | remove_stream of a live stream refused"), format!("{name}: {:?}: {e}", e.kind())))?;
                    if cf.exists(format!("/big/{name}")) {
                        return Err((format!("{tag} | removed stream still exists"), name));
                    }
                }
                check_listing(&cf, &live, true, "after removals", tag)?;
                check_contents(&mut cf, &live, &mut rng, 8, "after removals", tag)?;
                let mut c2 = reopen(&shared, Mode::Strict).map_err(|e| (format!("{tag} | a file the crate wrote does not reopen"), format!("after removals: {e}")))?;
                check_listing(&c2, &live, true, "reopened after removals", tag)?;
                // new names land in the freed slots and at the far end of the chain
                for extra in ["r00000x", "a", "zzzzzzzz"] {
                    log.push(format!("create_stream /big/{extra} on the reopened object"));
                    c2.create_stream(format!("/big/{extra}")).map_err(|e| (format!("{tag} | create_stream refused"), format!("{extra}: {e}")))?;
                }
                let got = listing(&c2, "/big").map_err(|e| (format!("{tag} | read_storage refused"), format!("{e}")))?;
                let mut want = expected_listing(&live, true);
                for extra in ["r00000x", "a", "zzzzzzzz"] {
                    want.push((extra.to_string(), 0));
                }
                want.sort_by(|a, b| order::compare(&a.0, &b.0));
                if got != want {
                    return Err((format!("{tag} | listing differs from the model"), format!("after creating three more names: {} listed, {} expected", got.len(), want.len())));
                }
                log.push("remove_storage_all /big".into());
                c2.remove_storage_all("/big").map_err(|e| (format!("{tag} | remove_storage_all refused"), format!("{:?}: {e}", e.kind())))?;
                if c2.exists("/big") || !c2.is_stream("/keep") {
                    return Err((format!("{tag} | remove_storage_all left the wrong tree"), format!("exists(/big)={}, is_stream(/keep)={}", c2.exists("/big"), c2.is_stream("/keep"))));
                }
                rep.count("wide.model_scenarios_passed");
            }
            Role::Persist => {
                for mode in [Mode::Strict, Mode::Permissive] {
                    let c2 = reopen(&shared, mode).map_err(|e| ("crash-point | reopen | open failed".to_string(), format!("{:?}, after creating {n} streams: {e}", mode)))?;
                    check_listing(&c2, &live, true, "after reopening", "crash-point | reopen")?;
                }
                // the entries created last sit in the highest directory sectors: remove some of
                // them (sibling links, colours and freed slots are rewritten in place), create
                // others, and look at the stored bytes again
                let k = live.len();
                for v in [k - 1, k - 2, k - 7, k - 40, k - 300] {
                    let (name, _) = live.remove(v);
                    log.push(format!("remove_stream /big/{name}"));
                    cf.remove_stream(format!("/big/{name}")).map_err(|e| ("harness-or-C01: remove_stream refused".to_string(), format!("{name}: {e}")))?;
                }
                for extra in 0..6 {
                    let name = format!("x{extra:05}");
                    cf.create_stream(format!("/big/{name}")).map_err(|e| ("harness-or-C01: create_stream refused".to_string(), format!("{name}: {e}")))?;
                    live.push((name, 1)); // index 1: empty content
                }
                log.push("create six more streams /big/xNNNNN".into());
                for mode in [Mode::Strict, Mode::Permissive] {
                    let mut c2 = reopen(&shared, mode).map_err(|e| ("crash-point | reopen | open failed".to_string(), format!("{:?}, after removals and creations among {n} entries: {e}", mode)))?;
                    check_listing(&c2, &live, true, "after removals and creations, reopened", "crash-point | reopen")?;
                    check_contents(&mut c2, &live, &mut rng, 6, "after removals and creations, reopened", "crash-point | reopen")?;
                }
                rep.count("wide.persist_scenarios_passed");
            }
            Role::Rules => {
                use crate::props::hist::check_image;
                check_image(&shared.bytes(), rep).map_err(|(s, d)| (s, format!("after creating {} children: {}", n, d)))?;
                let mut victims = vec![live.len() - 1, 0, live.len() / 2, live.len() / 3];
                victims.sort();
                victims.dedup();
                for &v in victims.iter().rev() {
                    let (name, _) = live.remove(v);
                    log.push(format!("remove_stream /big/{name}"));
                    cf.remove_stream(format!("/big/{name}")).map_err(|e| ("harness-or-C01: remove_stream refused".to_string(), format!("{name}: {e}")))?;
                    check_image(&shared.bytes(), rep).map_err(|(s, d)| (s, format!("after removing {}: {}", name, d)))?;
                }
                // reopen, add entries (the directory grows by a sector), check again
                drop(cf);
                let (f, sh2) = MonFile::new(shared.bytes());
                let mut c2 = engine::open_with(f, Mode::Strict, None).map_err(|e| ("harness-or-C02: does not reopen".to_string(), format!("{e}")))?;
                let add = if version == Version::V4 { 40 } else { 12 };
                log.push(format!("reopen strict; create {} more streams /big/n###", add));
                for k in 0..add {
                    c2.create_stream(format!("/big/n{k:03}")).map_err(|e| ("harness-or-C01: create_stream refused".to_string(), format!("{e}")))?;
                    if k % 8 == 7 {
                        check_image(&sh2.bytes(), rep).map_err(|(s, d)| (s, format!("after adding {} entries to the reopened file: {}", k + 1, d)))?;
                    }
                }
                check_image(&sh2.bytes(), rep).map_err(|(s, d)| (s, format!("after adding entries to the reopened file: {}", d)))?;
                log.push("remove_storage_all /big".into());
                c2.remove_storage_all("/big").map_err(|e| ("harness-or-C01: remove_storage_all refused".to_string(), format!("{e}")))?;
                check_image(&sh2.bytes(), rep).map_err(|(s, d)| (s, format!("after remove_storage_all: {}", d)))?;
                rep.count("wide.rules_scenarios_passed");
            }
            Role::Hostile => {
                // The bytes are just another input: open them in both modes and read
                // everything, on a thread whose stack is small but ample for the crate's
                // iterative traversals.  A stack overflow kills the worker; the driver
                // then confirms it in isolation and reports the abort.
                drop(cf);
                let bytes = shared.bytes();
                // building the chain is quadratic in the crate (it walks the chain for every
                // insertion); the CPU budget is for what is judged here: opening and reading
                guard::case_begin(WIDE_CASE);
                log.push(format!("open the {} bytes in both modes and walk them on a thread with a 256 KiB stack", bytes.len()));
                let h = std::thread::Builder::new()
                    .stack_size(256 * 1024)
                    .spawn(move || -> Result<usize, String> {
                        let mut seen = 0;
                        for mode in [Mode::Permissive, Mode::Strict] {
                            let (f, _sh) = MonFile::new(bytes.clone());
                            let mut c = engine::open_with(f, mode, None).map_err(|e| format!("open {:?}: {e}", mode))?;
                            let paths: Vec<std::path::PathBuf> = c.walk().filter(|e| e.is_stream()).map(|e| e.path().to_path_buf()).collect();
                            seen += paths.len();
                            for p in paths.iter().step_by(37) {
                                let mut s = c.open_stream(p).map_err(|e| format!("open_stream: {e}"))?;
                                let mut v = Vec::new();
                                s.read_to_end(&mut v).map_err(|e| format!("read: {e}"))?;
                            }
                        }
                        Ok(seen)
                    })
                    .map_err(|e| ("harness: cannot spawn".to_string(), e.to_string()))?;
                match h.join() {
                    Ok(Ok(seen)) => {
                        rep.add("wide.hostile_streams_walked", seen as u64);
                        rep.count("wide.hostile_scenarios_passed");
                    }
                    Ok(Err(e)) => {
                        // a refusal is a clean outcome for C05 (whether it is *right* is C02's business)
                        rep.count("wide.hostile_refused");
                        log.push(format!("refused: {e}"));
                    }
                    Err(_) => return Err(("panic | while opening or reading a file with a chain-shaped directory".to_string(), "the reader thread panicked".to_string())),
                }
            }
            Role::NoEffect => {
                let refused_kinds = [ErrorKind::NotFound, ErrorKind::AlreadyExists, ErrorKind::InvalidInput];
                let mut probe = |cf: &mut CF, what: &str, log: &mut Vec<String>, f: &mut dyn FnMut(&mut CF) -> std::io::Result<()>| -> Result<bool, Fail> {
                    let before = shared.bytes();
                    let w0 = shared.writes();
                    log.push(what.to_string());
                    match f(cf) {
                        Ok(()) => Ok(true),
                        Err(e) if refused_kinds.contains(&e.kind()) => {
                            rep.count("wide.refusals_checked");
                            let after = shared.bytes();
                            if after != before {
                                let first = after.iter().zip(before.iter()).position(|(a, b)| a != b).unwrap_or(after.len().min(before.len()));
                                let changed = after.iter().zip(before.iter()).filter(|(a, b)| a != b).count() + after.len().abs_diff(before.len());
                                return Err((format!("refused {} | bytes changed", what.split(' ').next().unwrap_or("call")), format!("{what} was refused with {:?} ({e}) but {} byte(s) of the file differ, the first at offset {}", e.kind(), changed, first)));
                            }
                            if shared.writes() != w0 {
                                return Err((format!("refused {} | underlying write events", what.split(' ').next().unwrap_or("call")), format!("{what} was refused with {:?} but {} write call(s) reached the backing store", e.kind(), shared.writes() - w0)));
                            }
                            Ok(false)
                        }
                        Err(e) => {
                            // an I/O-class failure is not a refusal in C10's sense
                            rep.count("wide.other_errors");
                            log.push(format!("  -> {:?}: {e}", e.kind()));
                            Ok(false)
                        }
                    }
                };
                // predicted refusals on the wide storage
                probe(&mut cf, "remove_storage /big (not empty)", &mut log, &mut |c| c.remove_storage("/big"))?;
                probe(&mut cf, "create_storage /big (exists)", &mut log, &mut |c| c.create_storage("/big"))?;
                probe(&mut cf, "create_new_stream /big/r00000 (exists)", &mut log, &mut |c| c.create_new_stream("/big/r00000").map(|_| ()))?;
                probe(&mut cf, "remove_stream /big/r99999 (absent)", &mut log, &mut |c| c.remove_stream("/big/r99999"))?;
                probe(&mut cf, "remove_stream /big/zsub (a storage)", &mut log, &mut |c| c.remove_stream("/big/zsub"))?;
                // calls that should succeed; if one is refused all the same it must have had no effect
                let deepest = format!("/big/r{:05}", if order_kind == 0 { n - 1 } else { 0 });
                let d2 = deepest.clone();
                probe(&mut cf, &format!("remove_stream {deepest} (last created)"), &mut log, &mut |c| c.remove_stream(&d2))?;
                let mid = format!("/big/r{:05}", n / 2 - n / 2 % 5);
                let m2 = mid.clone();
                probe(&mut cf, &format!("remove_stream {mid} (non-empty, mid-chain)"), &mut log, &mut |c| c.remove_stream(&m2))?;
                let all = if variant % 2 == 0 { "/big" } else { "/" };
                if all == "/big" {
                    probe(&mut cf, "remove_storage_all /big", &mut log, &mut |c| c.remove_storage_all("/big"))?;
                } else {
                    // the root itself cannot be removed: whatever the outcome class, a refusal must change nothing
                    probe(&mut cf, "remove_storage_all /big/zsub", &mut log, &mut |c| c.remove_storage_all("/big/zsub"))?;
                    probe(&mut cf, "remove_storage_all /big", &mut log, &mut |c| c.remove_storage_all("/big"))?;
                }
                rep.count("wide.noeffect_scenarios_passed");
            }
        }
        Ok(())
    });
    rep.count("wide.scenarios");
    rep.max("wide.max_children", n as u64);
    rep.max("wide.max_wall_ms", t0.elapsed().as_millis() as u64);
    let witness = ctx.witness(WIDE_CASE, vec![("scenario", J::s("storage with many children created in sorted order (chain-shaped sibling tree)")), ("variant", J::Int(variant as i128)), ("children", J::Int(n as i128)), ("steps", J::Arr(log.iter().map(|l| J::s(l.clone())).collect()))]);
    match res {
        Ok(Ok(())) => rep.count("wide.scenarios_passed"),
        Ok(Err((sig, detail))) => rep.finding(sig, detail, witness),
        Err(p) => rep.finding(p.signature(), format!("wide storage: panic at {}:{}: {}", p.file, p.line, p.message), witness),
    }
    if rep.samples.len() < 3 {
        rep.sample(J::obj(vec![("scenario", J::s(format!("{:?}: /big with {} children created in order kind {}, {:?}", role, n, order_kind, version)))]));
    }
    rep.nontrivial(0x51de_0000 ^ ((role as u64) << 40) ^ variant ^ ((n as u64) << 8));
}
