//! Files beyond 4 GiB (sparse backing store): 32-bit truncation of lengths, offsets or
//! sector arithmetic only shows there.  One scenario serves C06 (the big handle is a
//! seekable byte array), C07 (other streams and an open handle stay untouched), C02
//! (the bytes reopen in both modes) and C03/C16-style header expectations (a version 4
//! file gets its first DIFAT sector at 457 MB).

use crate::backend::{SparseFile, SparseShared};
use crate::common::Ctx;
use crate::engine::payload;
use crate::guard;
use crate::report::{Report, J};
use crate::rng::Rng;
use cfb::{CompoundFile, OpenOptions, Version};
use std::io::{Read, Seek, SeekFrom, Write};

type Fail = (String, String);

/// Case number under which the scenario is replayed (`--case`).
pub const HUGE_CASE: u64 = 4_000_000_000;

/// Runs the scenario on the shards `first..first+5` (one variant each) before the normal
/// cases, or alone when replayed.  Returns true if the caller should skip its normal cases.
pub fn maybe_run(ctx: &Ctx, rep: &mut Report, tag: &str, first_shard: u64) -> bool {
    let mine = ctx.shard >= first_shard && ctx.shard < first_shard + 6 && ctx.shard < 16;
    match ctx.only_case {
        Some(c) if c == HUGE_CASE => {
            if mine {
                huge_scenario(ctx, rep, tag, ctx.shard - first_shard);
                rep.evaluations += 1;
            }
            true
        }
        Some(_) => false,
        None => {
            if mine {
                crate::guard::case_begin(HUGE_CASE);
                huge_scenario(ctx, rep, tag, ctx.shard - first_shard);
                rep.evaluations += 1;
            }
            false
        }
    }
}

/// Expected content of the big stream: zeros plus an overlay of explicit writes.
struct Overlay {
    len: u64,
    writes: Vec<(u64, Vec<u8>)>,
}

impl Overlay {
    fn expect(&self, off: u64, n: usize) -> Vec<u8> {
        let mut v = vec![0u8; n];
        for (wo, data) in &self.writes {
            let (a0, a1) = (*wo, *wo + data.len() as u64);
            let (b0, b1) = (off, off + n as u64);
            let lo = a0.max(b0);
            let hi = a1.min(b1);
            if lo < hi {
                v[(lo - b0) as usize..(hi - b0) as usize].copy_from_slice(&data[(lo - a0) as usize..(hi - a0) as usize]);
            }
        }
        // beyond the end there is nothing
        if off + n as u64 > self.len {
            let keep = self.len.saturating_sub(off) as usize;
            v.truncate(keep);
        }
        v
    }
    fn write(&mut self, off: u64, data: Vec<u8>) {
        self.len = self.len.max(off + data.len() as u64);
        self.writes.push((off, data));
    }
}

fn read_at<F: Read + Seek>(s: &mut cfb::Stream<F>, off: u64, n: usize) -> std::io::Result<Vec<u8>> {
    s.seek(SeekFrom::Start(off))?;
    let mut v = vec![0u8; n];
    let mut got = 0;
    while got < n {
        let k = s.read(&mut v[got..])?;
        if k == 0 {
            break;
        }
        got += k;
    }
    v.truncate(got);
    Ok(v)
}

fn check_small(cf: &mut CompoundFile<SparseFile>, path: &str, want: &[u8], when: &str, prop_tag: &str) -> Result<(), Fail> {
    let mut s = cf.open_stream(path).map_err(|e| (format!("{prop_tag} | other stream unreadable"), format!("{when}: open_stream({path}): {e}")))?;
    let mut v = Vec::new();
    s.read_to_end(&mut v).map_err(|e| (format!("{prop_tag} | other stream unreadable"), format!("{when}: read {path}: {e}")))?;
    if v != want {
        let first = v.iter().zip(want.iter()).position(|(a, b)| a != b);
        return Err((format!("{prop_tag} | another stream's bytes changed"), format!("{when}: {path} has {} bytes (expected {}), first difference at {:?}", v.len(), want.len(), first)));
    }
    Ok(())
}

/// `tag` names the property under which a failure is reported.
pub fn huge_scenario(ctx: &Ctx, rep: &mut Report, tag: &str, variant: u64) {
    const G4: u64 = 1 << 32;
    let mut rng = Rng::derive(ctx.seed, &[0x4816, variant]);
    // variant 5: a version 3 file with a stream of 2 GiB and a little (MS-CFB recommends at
    // most 2 GiB for version 3; the crate writes and reads more, using all 32 length bits)
    let v3 = variant == 5;
    let version = if v3 { Version::V3 } else { Version::V4 };
    let big_len: u64 = match variant % 6 {
        0 => G4 + 100,
        1 => G4 - 1,
        2 => G4,
        3 => G4 + 128 * 1024 + 7,
        4 => G4 + 8 * 1024 * 1024 + rng.below(5000),
        _ => (1 << 31) + *rng.pick(&[0u64, 1, 100, 4095, 5000]),
    };
    let mut log: Vec<String> = Vec::new();
    let t0 = std::time::Instant::now();
    let res = guard::catch(|| -> Result<(), Fail> {
        let (file, shared): (SparseFile, SparseShared) = SparseFile::new();
        let mut cf = CompoundFile::create_with_version(version, file).map_err(|e| (format!("{tag} | create failed"), format!("{e}")))?;
        let small_a = payload(1, 100);
        let small_b = payload(2, 3000);
        let first = payload(3, 10_000);
        for (p, d) in [("/small_a", &small_a), ("/small_b", &small_b), ("/first", &first)] {
            let mut s = cf.create_stream(p).map_err(|e| (format!("{tag} | create_stream failed"), format!("{p}: {e}")))?;
            s.write_all(d).and_then(|_| s.flush()).map_err(|e| (format!("{tag} | write failed"), format!("{p}: {e}")))?;
        }
        // a long-lived handle on another stream (C07)
        let mut h_first = cf.open_stream("/first").map_err(|e| (format!("{tag} | open failed"), format!("{e}")))?;
        let mut big = cf.create_stream("/big").map_err(|e| (format!("{tag} | create_stream failed"), format!("{e}")))?;
        let mut model = Overlay { len: 0, writes: Vec::new() };
        let head = payload(4, 1 << 20);
        big.write_all(&head).and_then(|_| big.flush()).map_err(|e| (format!("{tag} | write failed"), format!("head: {e}")))?;
        model.write(0, head);
        log.push(format!("set_len({big_len})"));
        big.set_len(big_len).map_err(|e| (format!("{tag} | set_len beyond 4 GiB failed"), format!("set_len({big_len}): {e}")))?;
        model.len = big_len;
        if big.len() != big_len {
            return Err((format!("{tag} | len() wrong beyond 4 GiB"), format!("len() = {} after set_len({big_len})", big.len())));
        }
        let probe = |big: &mut cfb::Stream<SparseFile>, model: &Overlay, off: u64, n: usize, what: &str| -> Result<(), Fail> {
            let got = read_at(big, off, n).map_err(|e| (format!("{tag} | read beyond 4 GiB failed"), format!("{what}: read {n} at {off}: {e}")))?;
            let want = model.expect(off, n);
            if got != want {
                let first = got.iter().zip(want.iter()).position(|(a, b)| a != b);
                return Err((format!("{tag} | wrong bytes in a stream beyond 4 GiB"), format!("{what}: read {n} bytes at offset {off} of a {}-byte stream: got {} bytes, expected {}, first difference at {:?}", model.len, got.len(), want.len(), first)));
            }
            Ok(())
        };
        probe(&mut big, &model, 0, 5000, "head after growth")?;
        probe(&mut big, &model, (1 << 20) - 10, 100, "end of written head")?;
        probe(&mut big, &model, big_len - 50, 80, "tail (zeros, then end)")?;
        probe(&mut big, &model, G4.min(big_len) - 10, 20, "across the 4 GiB offset")?;
        probe(&mut big, &model, big_len / 2, 300, "middle")?;
        // writes near the end, across 2^32 and at a low offset
        let mut writes: Vec<(u64, usize)> = vec![(big_len - 5000, 1000), (10, 50), (big_len / 3, 4097)];
        if big_len > G4 {
            writes.push((G4 - 32, 64));
        }
        for (k, (off, n)) in writes.iter().enumerate() {
            let data = payload(10 + k as u64, *n);
            big.seek(SeekFrom::Start(*off)).and_then(|_| big.write_all(&data)).map_err(|e| (format!("{tag} | write beyond 4 GiB failed"), format!("write {n} at {off}: {e}")))?;
            model.write(*off, data);
            log.push(format!("write {n} at {off}"));
            let pos = big.stream_position().unwrap_or(u64::MAX);
            if pos != off + *n as u64 {
                return Err((format!("{tag} | position wrong beyond 4 GiB"), format!("after writing {n} bytes at {off}: stream_position() = {pos}")));
            }
            probe(&mut big, &model, off.saturating_sub(7), n + 20, "read back a write (same handle)")?;
        }
        big.flush().map_err(|e| (format!("{tag} | flush failed"), format!("{e}")))?;
        if big.len() != big_len {
            return Err((format!("{tag} | len() wrong beyond 4 GiB"), format!("len() = {} after writes inside a {big_len}-byte stream", big.len())));
        }
        // out-of-range seeks
        for from in [SeekFrom::Start(big_len + 1), SeekFrom::End(1), SeekFrom::End(-(big_len as i64) - 1)] {
            if big.seek(from).is_ok() {
                return Err((format!("{tag} | out-of-range seek accepted beyond 4 GiB"), format!("{from:?} on a {big_len}-byte stream")));
            }
        }
        // C07: nothing else changed, also through the handle opened earlier
        let mut v = Vec::new();
        h_first.seek(SeekFrom::Start(0)).and_then(|_| h_first.read_to_end(&mut v)).map_err(|e| (format!("{tag} | other handle unreadable"), format!("{e}")))?;
        if v != first {
            return Err((format!("{tag} | another stream's bytes changed"), format!("/first through the handle opened before /big grew: first difference at {:?}", v.iter().zip(first.iter()).position(|(a, b)| a != b))));
        }
        check_small(&mut cf, "/small_a", &small_a, "after the big stream grew", tag)?;
        check_small(&mut cf, "/small_b", &small_b, "after the big stream grew", tag)?;
        check_small(&mut cf, "/first", &first, "after the big stream grew", tag)?;
        let e = cf.entry("/big").map_err(|e| (format!("{tag} | entry failed"), format!("{e}")))?;
        if e.len() != big_len {
            return Err((format!("{tag} | entry length wrong beyond 4 GiB"), format!("entry(/big).len() = {} expected {big_len}", e.len())));
        }
        rep.max("huge.file_bytes", shared.len());
        rep.max("huge.pages_stored", shared.pages() as u64);
        // C02: the bytes (no CompoundFile::flush) reopen in both modes to the same state
        for strict in [false, true] {
            let mut o = OpenOptions::new();
            if strict {
                o = o.strict();
            }
            let mut cf2 = o.open_with(shared.handle()).map_err(|e| (format!("{tag} | a file beyond 4 GiB does not reopen"), format!("strict={strict}: {e}")))?;
            let listed: Vec<(String, u64)> = cf2.walk().map(|e| (e.path().to_string_lossy().into_owned(), e.len())).collect();
            let want_listed = vec![("/big".to_string(), big_len), ("/first".to_string(), 10_000), ("/small_a".to_string(), 100), ("/small_b".to_string(), 3000)];
            let got_listed: Vec<(String, u64)> = listed.into_iter().filter(|x| x.0 != "/").collect();
            if got_listed != want_listed {
                return Err((format!("{tag} | reopened file beyond 4 GiB lists something else"), format!("strict={strict}: {:?}", got_listed)));
            }
            let mut b2 = cf2.open_stream("/big").map_err(|e| (format!("{tag} | reopened big stream unreadable"), format!("{e}")))?;
            for (off, n) in [(0u64, 3000usize), (big_len - 5000, 1200), (G4.min(big_len) - 40, 80), (big_len / 3, 5000)] {
                let got = read_at(&mut b2, off, n).map_err(|e| (format!("{tag} | reopened big stream unreadable"), format!("read {n} at {off}: {e}")))?;
                if got != model.expect(off, n) {
                    return Err((format!("{tag} | reopened file beyond 4 GiB holds wrong bytes"), format!("strict={strict}: {n} bytes at offset {off}")));
                }
            }
            check_small(&mut cf2, "/small_a", &small_a, "after reopen", tag)?;
            check_small(&mut cf2, "/first", &first, "after reopen", tag)?;
        }
        rep.count("huge.reopens_checked");
        // shrink back below the cutoff boundary classes and remove
        let back = *rng.pick(&[5000u64, 4096, 100, 0, G4 / 2 + 3]);
        big.set_len(back).map_err(|e| (format!("{tag} | shrinking a stream beyond 4 GiB failed"), format!("set_len({back}): {e}")))?;
        model.len = back;
        if back > 0 {
            probe(&mut big, &model, 0, (back as usize).min(6000), "head after shrinking")?;
        }
        big.flush().map_err(|e| (format!("{tag} | flush failed"), format!("{e}")))?;
        drop(big);
        cf.remove_stream("/big").map_err(|e| (format!("{tag} | remove failed"), format!("{e}")))?;
        check_small(&mut cf, "/small_a", &small_a, "after removing the big stream", tag)?;
        check_small(&mut cf, "/small_b", &small_b, "after removing the big stream", tag)?;
        check_small(&mut cf, "/first", &first, "after removing the big stream", tag)?;
        drop(h_first);
        OpenOptions::new().strict().open_with(shared.handle()).map_err(|e| (format!("{tag} | file does not reopen after removing the big stream"), format!("{e}")))?;
        Ok(())
    });
    rep.count("huge.scenarios");
    rep.max("huge.max_wall_ms", t0.elapsed().as_millis() as u64);
    let witness = ctx.witness(HUGE_CASE, vec![("scenario", J::s("file beyond 4 GiB on a sparse backing store")), ("variant", J::Int(variant as i128)), ("big_stream_len", J::Int(big_len as i128)), ("steps", J::Arr(log.iter().map(|l| J::s(l.clone())).collect()))]);
    match res {
        Ok(Ok(())) => rep.count("huge.scenarios_passed"),
        Ok(Err((sig, detail))) => rep.finding(sig, detail, witness),
        Err(p) => rep.finding(p.signature(), format!("beyond 4 GiB: panic at {}:{}: {}", p.file, p.line, p.message), witness),
    }
    if rep.samples.len() < 3 {
        rep.sample(J::obj(vec![("scenario", J::s("v4 file beyond 4 GiB (sparse store): grow to N, probe head/tail/2^32 crossing, writes, other streams, reopen both modes, shrink, remove")), ("big_stream_len", J::Int(big_len as i128))]));
    }
    rep.nontrivial(0x4816_0000 ^ variant ^ big_len);
}


/// C10 on the one refusal that needs a huge stream: if growing a version 3 stream past
/// 2 GiB is refused (InvalidInput / NotFound / AlreadyExists), the store must be as before.
pub fn v3_limit_probe(ctx: &Ctx, rep: &mut Report) {
    use std::io::ErrorKind;
    let res = guard::catch(|| -> Result<(), Fail> {
        let (file, shared): (SparseFile, SparseShared) = SparseFile::new();
        let mut cf = CompoundFile::create_with_version(Version::V3, file).map_err(|e| ("harness: create failed".to_string(), format!("{e}")))?;
        let mut s = cf.create_stream("/big").map_err(|e| ("harness: create_stream failed".to_string(), format!("{e}")))?;
        s.write_all(&payload(1, 10_000)).and_then(|_| s.flush()).map_err(|e| ("harness: write failed".to_string(), format!("{e}")))?;
        let snapshot = |sh: &SparseShared| {
            let mut head = vec![0u8; 1 << 16];
            sh.read_at(0, &mut head);
            (sh.len(), sh.pages(), crate::rng::fnv64(&head))
        };
        for target in [(1u64 << 31) - 1, 1 << 31, (1 << 31) + 1000] {
            let before = snapshot(&shared);
            match s.set_len(target) {
                Ok(()) => rep.count("huge.v3_set_len_accepted"),
                Err(e) if [ErrorKind::InvalidInput, ErrorKind::NotFound, ErrorKind::AlreadyExists].contains(&e.kind()) => {
                    let after = snapshot(&shared);
                    if after != before {
                        return Err(("refused set_len | bytes changed".to_string(), format!("version 3: set_len({target}) was refused with {:?} ({e}) but the store changed: (length, pages, digest of the first 64 KiB) {:?} -> {:?}", e.kind(), before, after)));
                    }
                    rep.count("huge.v3_set_len_refused_without_effect");
                }
                Err(_) => rep.count("huge.v3_set_len_other_error"),
            }
        }
        Ok(())
    });
    let witness = ctx.witness(HUGE_CASE + 1, vec![("scenario", J::s("version 3 stream grown to 2 GiB - 1, 2 GiB, 2 GiB + 1000 on a sparse store"))]);
    match res {
        Ok(Ok(())) => rep.count("huge.v3_limit_probes"),
        Ok(Err((sig, d))) => rep.finding(sig, d, witness),
        Err(p) => rep.finding(p.signature(), format!("panic at {}:{}: {}", p.file, p.line, p.message), witness),
    }
    rep.evaluations += 1;
}
