//! Files beyond 4 GiB (sparse backing store): 32-bit truncation of lengths, offsets or
//! sector arithmetic only shows there.  One scenario serves C06 (the big handle is a
//! seekable byte array), C07 (other streams and an open handle stay untouched), C02
//! (the bytes reopen in both modes) and C03/C16-style header expectations (a version 4
//! file gets its first DIFAT sector at 457 MB).

use crate::backend::{SparseFile, SparseShared};
use crate::common::Ctx;
use crate::engine::payload;
use crate::guard;
use crate::report::{Report, J};
use crate::rng::Rng;
use cfb::{CompoundFile, OpenOptions, Version};
use std::io::{Read, Seek, SeekFrom, Write};

type Fail = (String, String);

/// Case number under which the scenario is replayed (`--case`).
pub const HUGE_CASE: u64 = 4_000_000_000;

/// Runs the scenario on the shards `first..first+5` (one variant each) before the normal
/// cases, or alone when replayed.  Returns true if the caller should skip its normal cases.
pub fn maybe_run(ctx: &Ctx, rep: &mut Report, tag: &str, first_shard: u64) -> bool {
    let mine = ctx.shard >= first_shard && ctx.shard < first_shard + 6 && ctx.shard < 16;
    match ctx.only_case {
        Some(c) if c == HUGE_CASE => {
            if mine {
                huge_scenario(ctx, rep, tag, ctx.shard - first_shard);
                rep.evaluations += 1;
                if ctx.shard - first_shard == 5 {
                    huge_scenario(ctx, rep, tag, 6);
                    rep.evaluations += 1;
                }
            }
            true
        }
        Some(_) => false,
        None => {
            if mine {
                crate::guard::case_begin(HUGE_CASE);
                huge_scenario(ctx, rep, tag, ctx.shard - first_shard);
                rep.evaluations += 1;
                if ctx.shard - first_shard == 5 {
                    // the version 3 shard also asks for 4 GiB and a little: a version 3
                    // length field has 32 bits, so that is either refused or kept whole
                    crate::guard::case_begin(HUGE_CASE);
                    huge_scenario(ctx, rep, tag, 6);
                    rep.evaluations += 1;
                }
            }
            false
        }
    }
}

/// Expected content of the big stream: zeros plus an overlay of explicit writes.
struct Overlay {
    len: u64,
    writes: Vec<(u64, Vec<u8>)>,
}

impl Overlay {
    fn expect(&self, off: u64, n: usize) -> Vec<u8> {
        let mut v = vec![0u8; n];
        for (wo, data) in &self.writes {
            let (a0, a1) = (*wo, *wo + data.len() as u64);
            let (b0, b1) = (off, off + n as u64);
            let lo = a0.max(b0);
            let hi = a1.min(b1);
            if lo < hi {
                v[(lo - b0) as usize..(hi - b0) as usize].copy_from_slice(&data[(lo - a0) as usize..(hi - a0) as usize]);
            }
        }
        // beyond the end there is nothing
        if off + n as u64 > self.len {
            let keep = self.len.saturating_sub(off) as usize;
            v.truncate(keep);
        }
        v
    }
    fn write(&mut self, off: u64, data: Vec<u8>) {
        self.len = self.len.max(off + data.len() as u64);
        self.writes.push((off, data));
    }
}

fn read_at<F: Read + Seek>(s: &mut cfb::Stream<F>, off: u64, n: usize) -> std::io::Result<Vec<u8>> {
    s.seek(SeekFrom::Start(off))?;
    let mut v = vec![0u8; n];
    let mut got = 0;
    while got < n {
        let k = s.read(&mut v[got..])?;
        if k == 0 {
            break;
        }
        got += k;
    }
    v.truncate(got);
    Ok(v)
}

fn check_small(cf: &mut CompoundFile<SparseFile>, path: &str, want: &[u8], when: &str, prop_tag: &str) -> Result<(), Fail> {
    let mut s = cf.open_stream(path).map_err(|e| (format!("{prop_tag} | other stream unreadable"), format!("{when}: open_stream({path}): {e}")))?;
    let mut v = Vec::new();
    s.read_to_end(&mut v).map_err(|e| (format!("{prop_tag} | other stream unreadable"), format!("{when}: read {path}: {e}")))?;
    if v != want {
        let first = v.iter().zip(want.iter()).position(|(a, b)| a != b);
        return Err((format!("{prop_tag} | another stream's bytes changed"), format!("{when}: {path} has {} bytes (expected {}), first difference at {:?}", v.len(), want.len(), first)));
    }
    Ok(())
}

fn probe_head(big: &mut cfb::Stream<SparseFile>, model: &Overlay) -> Result<(), Fail> {
    let got = read_at(big, 0, 5000).map_err(|e| ("huge | head unreadable after a refused growth".to_string(), format!("{e}")))?;
    if got != model.expect(0, 5000) {
        return Err(("huge | head changed by a refused growth".to_string(), "first 5000 bytes differ".to_string()));
    }
    Ok(())
}

/// `tag` names the property under which a failure is reported.
pub fn huge_scenario(ctx: &Ctx, rep: &mut Report, tag: &str, variant: u64) {
    const G4: u64 = 1 << 32;
    let mut rng = Rng::derive(ctx.seed, &[0x4816, variant]);
    // variant 5: a version 3 file with a stream of 2 GiB and a little (MS-CFB recommends at
    // most 2 GiB for version 3; the crate writes and reads more, using all 32 length bits)
    let v3 = variant >= 5;
    let version = if v3 { Version::V3 } else { Version::V4 };
    let big_len: u64 = match variant % 6 {
        0 => G4 + 100,
        1 => G4 - 1,
        2 => G4,
        3 => G4 + 128 * 1024 + 7,
        4 => G4 + 8 * 1024 * 1024 + rng.below(5000),
        5 => (1 << 31) + *rng.pick(&[0u64, 1, 100, 4095, 5000]),
        _ => G4 + *rng.pick(&[0u64, 100, 512, 5000]),
    };
    let mut log: Vec<String> = Vec::new();
    let t0 = std::time::Instant::now();
    let res = guard::catch(|| -> Result<(), Fail> {
        let (file, shared): (SparseFile, SparseShared) = SparseFile::new();
        let mut cf = CompoundFile::create_with_version(version, file).map_err(|e| (format!("{tag} | create failed"), format!("{e}")))?;
        let small_a = payload(1, 100);
        let small_b = payload(2, 3000);
        let first = payload(3, 10_000);
        for (p, d) in [("/small_a", &small_a), ("/small_b", &small_b), ("/first", &first)] {
            let mut s = cf.create_stream(p).map_err(|e| (format!("{tag} | create_stream failed"), format!("{p}: {e}")))?;
            s.write_all(d).and_then(|_| s.flush()).map_err(|e| (format!("{tag} | write failed"), format!("{p}: {e}")))?;
        }
        // a long-lived handle on another stream (C07)
        let mut h_first = cf.open_stream("/first").map_err(|e| (format!("{tag} | open failed"), format!("{e}")))?;
        let mut big = cf.create_stream("/big").map_err(|e| (format!("{tag} | create_stream failed"), format!("{e}")))?;
        let mut model = Overlay { len: 0, writes: Vec::new() };
        let head = payload(4, 1 << 20);
        big.write_all(&head).and_then(|_| big.flush()).map_err(|e| (format!("{tag} | write failed"), format!("head: {e}")))?;
        model.write(0, head);
        log.push(format!("set_len({big_len})"));
        if variant == 6 {
            // version 3 cannot record 2^32 or more: a refusal (InvalidInput, nothing
            // changed) is the one acceptable alternative to keeping the length whole
            match big.set_len(big_len) {
                Err(e) if e.kind() == std::io::ErrorKind::InvalidInput => {
                    if big.len() != 1 << 20 {
                        return Err((format!("{tag} | refused set_len changed len()"), format!("version 3, set_len({big_len}) refused ({e}), len() = {}", big.len())));
                    }
                    probe_head(&mut big, &model)?;
                    drop(big);
                    check_small(&mut cf, "/small_a", &small_a, "after the refused growth", tag)?;
                    check_small(&mut cf, "/first", &first, "after the refused growth", tag)?;
                    OpenOptions::new().strict().open_with(shared.handle()).map_err(|e| (format!("{tag} | file does not reopen after a refused growth"), format!("{e}")))?;
                    rep.count("huge.v3_growth_to_4gib_refused");
                    return Ok(());
                }
                Err(e) => return Err((format!("{tag} | set_len beyond 4 GiB failed"), format!("version 3, set_len({big_len}): {e}"))),
                Ok(()) => rep.count("huge.v3_growth_to_4gib_accepted"),
            }
        } else {
            big.set_len(big_len).map_err(|e| (format!("{tag} | set_len beyond 4 GiB failed"), format!("set_len({big_len}): {e}")))?;
        }
        model.len = big_len;
        if big.len() != big_len {
            return Err((format!("{tag} | len() wrong beyond 4 GiB"), format!("len() = {} after set_len({big_len})", big.len())));
        }
        let probe = |big: &mut cfb::Stream<SparseFile>, model: &Overlay, off: u64, n: usize, what: &str| -> Result<(), Fail> {
            let got = read_at(big, off, n).map_err(|e| (format!("{tag} | read beyond 4 GiB failed"), format!("{what}: read {n} at {off}: {e}")))?;
            let want = model.expect(off, n);
            if got != want {
                let first = got.iter().zip(want.iter()).position(|(a, b)| a != b);
                return Err((format!("{tag} | wrong bytes in a stream beyond 4 GiB"), format!("{what}: read {n} bytes at offset {off} of a {}-byte stream: got {} bytes, expected {}, first difference at {:?}", model.len, got.len(), want.len(), first)));
            }
            Ok(())
        };
        probe(&mut big, &model, 0, 5000, "head after growth")?;
        probe(&mut big, &model, (1 << 20) - 10, 100, "end of written head")?;
        probe(&mut big, &model, big_len - 50, 80, "tail (zeros, then end)")?;
        probe(&mut big, &model, G4.min(big_len) - 10, 20, "across the 4 GiB offset")?;
        probe(&mut big, &model, big_len / 2, 300, "middle")?;
        // writes near the end, across 2^32 and at a low offset
        let mut writes: Vec<(u64, usize)> = vec![(big_len - 5000, 1000), (10, 50), (big_len / 3, 4097)];
        if big_len > G4 {
            writes.push((G4 - 32, 64));
        }
        for (k, (off, n)) in writes.iter().enumerate() {
            let data = payload(10 + k as u64, *n);
            big.seek(SeekFrom::Start(*off)).and_then(|_| big.write_all(&data)).map_err(|e| (format!("{tag} | write beyond 4 GiB failed"), format!("write {n} at {off}: {e}")))?;
            model.write(*off, data);
            log.push(format!("write {n} at {off}"));
            let pos = big.stream_position().unwrap_or(u64::MAX);
            if pos != off + *n as u64 {
                return Err((format!("{tag} | position wrong beyond 4 GiB"), format!("after writing {n} bytes at {off}: stream_position() = {pos}")));
            }
            probe(&mut big, &model, off.saturating_sub(7), n + 20, "read back a write (same handle)")?;
        }
        big.flush().map_err(|e| (format!("{tag} | flush failed"), format!("{e}")))?;
        if big.len() != big_len {
            return Err((format!("{tag} | len() wrong beyond 4 GiB"), format!("len() = {} after writes inside a {big_len}-byte stream", big.len())));
        }
        // out-of-range seeks
        for from in [SeekFrom::Start(big_len + 1), SeekFrom::End(1), SeekFrom::End(-(big_len as i64) - 1)] {
            if big.seek(from).is_ok() {
                return Err((format!("{tag} | out-of-range seek accepted beyond 4 GiB"), format!("{from:?} on a {big_len}-byte stream")));
            }
        }
        // C07: nothing else changed, also through the handle opened earlier
        let mut v = Vec::new();
        h_first.seek(SeekFrom::Start(0)).and_then(|_| h_first.read_to_end(&mut v)).map_err(|e| (format!("{tag} | other handle unreadable"), format!("{e}")))?;
        if v != first {
            return Err((format!("{tag} | another stream's bytes changed"), format!("/first through the handle opened before /big grew: first difference at {:?}", v.iter().zip(first.iter()).position(|(a, b)| a != b))));
        }
        check_small(&mut cf, "/small_a", &small_a, "after the big stream grew", tag)?;
        check_small(&mut cf, "/small_b", &small_b, "after the big stream grew", tag)?;
        check_small(&mut cf, "/first", &first, "after the big stream grew", tag)?;
        let e = cf.entry("/big").map_err(|e| (format!("{tag} | entry failed"), format!("{e}")))?;
        if e.len() != big_len {
            return Err((format!("{tag} | entry length wrong beyond 4 GiB"), format!("entry(/big).len() = {} expected {big_len}", e.len())));
        }
        rep.max("huge.file_bytes", shared.len());
        rep.max("huge.pages_stored", shared.pages() as u64);
        // C02: the bytes (no CompoundFile::flush) reopen in both modes to the same state
        for strict in [false, true] {
            let mut o = OpenOptions::new();
            if strict {
                o = o.strict();
            }
            let mut cf2 = o.open_with(shared.handle()).map_err(|e| (format!("{tag} | a file beyond 4 GiB does not reopen"), format!("strict={strict}: {e}")))?;
            let listed: Vec<(String, u64)> = cf2.walk().map(|e| (e.path().to_string_lossy().into_owned(), e.len())).collect();
            let want_listed = vec![("/big".to_string(), big_len), ("/first".to_string(), 10_000), ("/small_a".to_string(), 100), ("/small_b".to_string(), 3000)];
            let got_listed: Vec<(String, u64)> = listed.into_iter().filter(|x| x.0 != "/").collect();
            if got_listed != want_listed {
                return Err((format!("{tag} | reopened file beyond 4 GiB lists something else"), format!("strict={strict}: {:?}", got_listed)));
            }
            let mut b2 = cf2.open_stream("/big").map_err(|e| (format!("{tag} | reopened big stream unreadable"), format!("{e}")))?;
            for (off, n) in [(0u64, 3000usize), (big_len - 5000, 1200), (G4.min(big_len) - 40, 80), (big_len / 3, 5000)] {
                let got = read_at(&mut b2, off, n).map_err(|e| (format!("{tag} | reopened big stream unreadable"), format!("read {n} at {off}: {e}")))?;
                if got != model.expect(off, n) {
                    return Err((format!("{tag} | reopened file beyond 4 GiB holds wrong bytes"), format!("strict={strict}: {n} bytes at offset {off}")));
                }
            }
            check_small(&mut cf2, "/small_a", &small_a, "after reopen", tag)?;
            check_small(&mut cf2, "/first", &first, "after reopen", tag)?;
        }
        rep.count("huge.reopens_checked");
        // shrink back below the cutoff boundary classes and remove
        let back = *rng.pick(&[5000u64, 4096, 100, 0, G4 / 2 + 3]);
        big.set_len(back).map_err(|e| (format!("{tag} | shrinking a stream beyond 4 GiB failed"), format!("set_len({back}): {e}")))?;
        model.len = back;
        if back > 0 {
            probe(&mut big, &model, 0, (back as usize).min(6000), "head after shrinking")?;
        }
        big.flush().map_err(|e| (format!("{tag} | flush failed"), format!("{e}")))?;
        drop(big);
        cf.remove_stream("/big").map_err(|e| (format!("{tag} | remove failed"), format!("{e}")))?;
        check_small(&mut cf, "/small_a", &small_a, "after removing the big stream", tag)?;
        check_small(&mut cf, "/small_b", &small_b, "after removing the big stream", tag)?;
        check_small(&mut cf, "/first", &first, "after removing the big stream", tag)?;
        drop(h_first);
        OpenOptions::new().strict().open_with(shared.handle()).map_err(|e| (format!("{tag} | file does not reopen after removing the big stream"), format!("{e}")))?;
        Ok(())
    });
    rep.count("huge.scenarios");
    rep.max("huge.max_wall_ms", t0.elapsed().as_millis() as u64);
    let witness = ctx.witness(HUGE_CASE, vec![("scenario", J::s("file beyond 4 GiB on a sparse backing store")), ("variant", J::Int(variant as i128)), ("big_stream_len", J::Int(big_len as i128)), ("steps", J::Arr(log.iter().map(|l| J::s(l.clone())).collect()))]);
    match res {
        Ok(Ok(())) => rep.count("huge.scenarios_passed"),
        Ok(Err((sig, detail))) => rep.finding(sig, detail, witness),
        Err(p) => rep.finding(p.signature(), format!("beyond 4 GiB: panic at {}:{}: {}", p.file, p.line, p.message), witness),
    }
    if rep.samples.len() < 3 {
        rep.sample(J::obj(vec![("scenario", J::s("v4 file beyond 4 GiB (sparse store): grow to N, probe head/tail/2^32 crossing, writes, other streams, reopen both modes, shrink, remove")), ("big_stream_len", J::Int(big_len as i128))]));
    }
    rep.nontrivial(0x4816_0000 ^ variant ^ big_len);
}


/// C10 on the one refusal that needs a huge stream: if growing a version 3 stream past
/// 2 GiB is refused (InvalidInput / NotFound / AlreadyExists), the store must be as before.
pub fn v3_limit_probe(ctx: &Ctx, rep: &mut Report) {
    use std::io::ErrorKind;
    let res = guard::catch(|| -> Result<(), Fail> {
        let (file, shared): (SparseFile, SparseShared) = SparseFile::new();
        let mut cf = CompoundFile::create_with_version(Version::V3, file).map_err(|e| ("harness: create failed".to_string(), format!("{e}")))?;
        let mut s = cf.create_stream("/big").map_err(|e| ("harness: create_stream failed".to_string(), format!("{e}")))?;
        s.write_all(&payload(1, 10_000)).and_then(|_| s.flush()).map_err(|e| ("harness: write failed".to_string(), format!("{e}")))?;
        let snapshot = |sh: &SparseShared| {
            let mut head = vec![0u8; 1 << 16];
            sh.read_at(0, &mut head);
            (sh.len(), sh.pages(), crate::rng::fnv64(&head))
        };
        for target in [(1u64 << 31) - 1, 1 << 31, (1 << 31) + 1000] {
            let before = snapshot(&shared);
            match s.set_len(target) {
                Ok(()) => rep.count("huge.v3_set_len_accepted"),
                Err(e) if [ErrorKind::InvalidInput, ErrorKind::NotFound, ErrorKind::AlreadyExists].contains(&e.kind()) => {
                    let after = snapshot(&shared);
                    if after != before {
                        return Err(("refused set_len | bytes changed".to_string(), format!("version 3: set_len({target}) was refused with {:?} ({e}) but the store changed: (length, pages, digest of the first 64 KiB) {:?} -> {:?}", e.kind(), before, after)));
                    }
                    rep.count("huge.v3_set_len_refused_without_effect");
                }
                Err(_) => rep.count("huge.v3_set_len_other_error"),
            }
        }
        Ok(())
    });
    let witness = ctx.witness(HUGE_CASE + 1, vec![("scenario", J::s("version 3 stream grown to 2 GiB - 1, 2 GiB, 2 GiB + 1000 on a sparse store"))]);
    match res {
        Ok(Ok(())) => rep.count("huge.v3_limit_probes"),
        Ok(Err((sig, d))) => rep.finding(sig, d, witness),
        Err(p) => rep.finding(p.signature(), format!("panic at {}:{}: {}", p.file, p.line, p.message), witness),
    }
    rep.evaluations += 1;
}

// ---------------------------------------------------------------------------
// C04 beyond what fits in a byte vector: a version 4 file laid out by "another
// implementation" whose FAT needs DIFAT sectors with more than 127 entries in use (a
// version 4 DIFAT sector holds 1023).  Built sector by sector on the sparse store; nothing
// of it comes from the crate.

fn put32(v: &mut [u8], off: usize, x: u32) {
    v[off..off + 4].copy_from_slice(&x.to_le_bytes());
}
fn put16(v: &mut [u8], off: usize, x: u16) {
    v[off..off + 2].copy_from_slice(&x.to_le_bytes());
}
fn put64(v: &mut [u8], off: usize, x: u64) {
    v[off..off + 8].copy_from_slice(&x.to_le_bytes());
}

pub const SPARSE_FOREIGN_CASE: u64 = HUGE_CASE + 2;

struct ForeignV4 {
    shared: SparseShared,
    big_len: u64,
    big_marks: Vec<(u64, Vec<u8>)>,
    tail: Vec<u8>,
    inner: Vec<u8>,
    nfat: usize,
    difat_sectors: usize,
    total_sectors: u64,
}

fn build_foreign_v4(nfat: usize, rng: &mut Rng) -> ForeignV4 {
    const SL: usize = 4096;
    const FREE: u32 = 0xFFFF_FFFF;
    const END: u32 = 0xFFFF_FFFE;
    const FATSECT: u32 = 0xFFFF_FFFD;
    const DIFSECT: u32 = 0xFFFF_FFFC;
    let per_fat = SL / 4;
    let t = nfat * per_fat; // every FAT entry stands for a sector of the file
    let difat_sectors = (nfat - 109 + per_fat - 2) / (per_fat - 1);
    let difat_ids: Vec<u32> = (0..difat_sectors as u32).map(|k| 1 + k).collect();
    assert!(difat_sectors <= 2);
    let dir_ids = [3u32, t as u32 - 1];
    let fat_ids: Vec<u32> = (0..nfat as u32).map(|i| 10 + 3 * i).collect();
    let inner_ids = [5u32, 4];
    let tail_ids = [t as u32 - 2, t as u32 - 4, t as u32 - 3];
    let free_ids = [0u32, 6, 7, 8, 9];
    let mut fat: Vec<u32> = vec![0; t];
    let mut taken = vec![false; t];
    for &f in &fat_ids {
        fat[f as usize] = FATSECT;
        taken[f as usize] = true;
    }
    for &d in &difat_ids {
        fat[d as usize] = DIFSECT;
        taken[d as usize] = true;
    }
    for &f in &free_ids {
        fat[f as usize] = FREE;
        taken[f as usize] = true;
    }
    let link = |fat: &mut Vec<u32>, taken: &mut Vec<bool>, chain: &[u32]| {
        for w in 0..chain.len() {
            fat[chain[w] as usize] = if w + 1 < chain.len() { chain[w + 1] } else { END };
            taken[chain[w] as usize] = true;
        }
    };
    link(&mut fat, &mut taken, &dir_ids);
    link(&mut fat, &mut taken, &inner_ids);
    link(&mut fat, &mut taken, &tail_ids);
    let big_ids: Vec<u32> = (0..t as u32).filter(|&i| !taken[i as usize]).collect();
    for w in 0..big_ids.len() {
        fat[big_ids[w] as usize] = if w + 1 < big_ids.len() { big_ids[w + 1] } else { END };
    }
    let big_len = big_ids.len() as u64 * SL as u64 - 123;
    let tail = payload(71, 2 * SL + 1000);
    let inner = payload(72, 5000);
    let (file, shared) = SparseFile::new();
    let mut file = file;
    let mut put = |id: u32, data: &[u8]| {
        file.seek(SeekFrom::Start((id as u64 + 1) * SL as u64)).unwrap();
        file.write_all(data).unwrap();
    };
    // the last sector first, so that the store has its full length
    let mut sec = vec![0u8; SL];
    // directory: entries 0..5 in the first sector, the second sector all unused
    let blank_dir = |sec: &mut Vec<u8>| {
        for b in sec.iter_mut() {
            *b = 0;
        }
        for s in 0..SL / 128 {
            put32(sec, 128 * s + 68, FREE);
            put32(sec, 128 * s + 72, FREE);
            put32(sec, 128 * s + 76, FREE);
        }
    };
    blank_dir(&mut sec);
    put(dir_ids[1], &sec);
    blank_dir(&mut sec);
    // (slot, name, type, red, left, right, child, start, size)
    let ents: [(usize, &str, u8, bool, u32, u32, u32, u32, u64); 5] = [
        (0, "Root Entry", 5, false, FREE, FREE, 1, END, 0),
        (1, "big", 2, false, 2, 3, FREE, big_ids[0], big_len),
        (2, "st", 1, true, FREE, FREE, 4, 0, 0),
        (3, "tail", 2, true, FREE, FREE, FREE, tail_ids[0], tail.len() as u64),
        (4, "inner", 2, false, FREE, FREE, FREE, inner_ids[0], inner.len() as u64),
    ];
    for (slot, name, ty, red, l, r, c, start, size) in ents {
        let base = 128 * slot;
        let units: Vec<u16> = name.encode_utf16().collect();
        for (i, u) in units.iter().enumerate() {
            put16(&mut sec, base + 2 * i, *u);
        }
        put16(&mut sec, base + 64, ((units.len() + 1) * 2) as u16);
        sec[base + 66] = ty;
        sec[base + 67] = if red { 0 } else { 1 };
        put32(&mut sec, base + 68, l);
        put32(&mut sec, base + 72, r);
        put32(&mut sec, base + 76, c);
        put32(&mut sec, base + 116, start);
        put64(&mut sec, base + 120, size);
    }
    put(dir_ids[0], &sec);
    // FAT sectors
    for (k, &f) in fat_ids.iter().enumerate() {
        for i in 0..per_fat {
            put32(&mut sec, 4 * i, fat[k * per_fat + i]);
        }
        put(f, &sec);
    }
    // DIFAT sectors
    for (k, &d) in difat_ids.iter().enumerate() {
        for i in 0..per_fat - 1 {
            let fi = 109 + k * (per_fat - 1) + i;
            put32(&mut sec, 4 * i, if fi < nfat { fat_ids[fi] } else { FREE });
        }
        put32(&mut sec, SL - 4, if k + 1 < difat_ids.len() { difat_ids[k + 1] } else { END });
        put(d, &sec);
    }
    // stream data
    let mut put_stream = |ids: &[u32], data: &[u8]| {
        for (k, &s) in ids.iter().enumerate() {
            let lo = k * SL;
            let hi = ((k + 1) * SL).min(data.len());
            let mut sec = vec![0x5Eu8; SL]; // the rest of a final sector is not zero
            sec[..hi - lo].copy_from_slice(&data[lo..hi]);
            put(s, &sec);
        }
    };
    put_stream(&inner_ids, &inner);
    put_stream(&tail_ids, &tail);
    let mut big_marks: Vec<(u64, Vec<u8>)> = Vec::new();
    let n = big_ids.len() as u64;
    for (j, k) in [0u64, 1, n / 3, n / 2 + rng.below(1000), n - 2].iter().enumerate() {
        // one whole sector of the big stream
        let data = payload(80 + j as u64, SL);
        put(big_ids[*k as usize], &data);
        big_marks.push((*k * SL as u64, data));
    }
    // header
    let mut h = vec![0u8; SL];
    h[..8].copy_from_slice(&[0xD0, 0xCF, 0x11, 0xE0, 0xA1, 0xB1, 0x1A, 0xE1]);
    put16(&mut h, 24, 0x3E);
    put16(&mut h, 26, 4);
    put16(&mut h, 28, 0xFFFE);
    put16(&mut h, 30, 12);
    put16(&mut h, 32, 6);
    put32(&mut h, 40, dir_ids.len() as u32);
    put32(&mut h, 44, nfat as u32);
    put32(&mut h, 48, dir_ids[0]);
    put32(&mut h, 56, 4096);
    put32(&mut h, 60, END);
    put32(&mut h, 64, 0);
    put32(&mut h, 68, difat_ids[0]);
    put32(&mut h, 72, difat_ids.len() as u32);
    for i in 0..109 {
        put32(&mut h, 76 + 4 * i, fat_ids[i]);
    }
    file.seek(SeekFrom::Start(0)).unwrap();
    file.write_all(&h).unwrap();
    ForeignV4 { shared, big_len, big_marks, tail, inner, nfat, difat_sectors, total_sectors: t as u64 }
}

/// Runs on two shards of C04 (variant 0: 300 FAT sectors, one DIFAT sector with 191
/// entries in use; variant 1: 1140 FAT sectors, 4.8 GB, two DIFAT sectors).
pub fn maybe_run_sparse_foreign(ctx: &Ctx, rep: &mut Report, first_shard: u64) -> bool {
    let mine = ctx.shard >= first_shard && ctx.shard < first_shard + 2;
    match ctx.only_case {
        Some(c) if c == SPARSE_FOREIGN_CASE => {
            if mine {
                sparse_foreign_v4(ctx, rep, ctx.shard - first_shard);
                rep.evaluations += 1;
            }
            true
        }
        Some(_) => false,
        None => {
            if mine {
                crate::guard::case_begin(SPARSE_FOREIGN_CASE);
                sparse_foreign_v4(ctx, rep, ctx.shard - first_shard);
                rep.evaluations += 1;
            }
            false
        }
    }
}

pub fn sparse_foreign_v4(ctx: &Ctx, rep: &mut Report, variant: u64) {
    let mut rng = Rng::derive(ctx.seed, &[0x4817, variant]);
    let nfat = if variant == 0 { 237 + rng.below(200) as usize } else { 1133 + rng.below(20) as usize };
    let t0 = std::time::Instant::now();
    let mut facts: Vec<(&str, J)> = vec![("scenario", J::s("version 4 file in a foreign layout with DIFAT sectors, built on a sparse store")), ("fat_sectors", J::Int(nfat as i128))];
    let res = guard::catch(|| -> Result<(), Fail> {
        let img = build_foreign_v4(nfat, &mut rng);
        rep.max("sparse_foreign.file_bytes", img.shared.len());
        rep.max("sparse_foreign.fat_sectors", img.nfat as u64);
        rep.max("sparse_foreign.difat_sectors", img.difat_sectors as u64);
        let verify = |cf: &mut CompoundFile<SparseFile>, when: &str, extra: &[(&str, &[u8])]| -> Result<(), Fail> {
            let mut listed: Vec<(String, u64)> = cf.walk().map(|e| (e.path().to_string_lossy().into_owned(), e.len())).filter(|x| x.0 != "/").collect();
            listed.sort();
            let mut want = vec![("/big".to_string(), img.big_len), ("/st".to_string(), 0), ("/st/inner".to_string(), img.inner.len() as u64), ("/tail".to_string(), img.tail.len() as u64)];
            for (p, d) in extra {
                want.push((p.to_string(), d.len() as u64));
            }
            want.sort();
            if listed != want {
                return Err(("sparse foreign v4 | listing differs".to_string(), format!("{when}: {:?}, expected {:?}", listed, want)));
            }
            check_small(cf, "/tail", &img.tail, when, "sparse foreign v4")?;
            check_small(cf, "/st/inner", &img.inner, when, "sparse foreign v4")?;
            for (p, d) in extra {
                check_small(cf, p, d, when, "sparse foreign v4")?;
            }
            let mut big = cf.open_stream("/big").map_err(|e| ("sparse foreign v4 | big stream unreadable".to_string(), format!("{when}: {e}")))?;
            for (off, data) in &img.big_marks {
                let lo = off.saturating_sub(10);
                let got = read_at(&mut big, lo, data.len() + 20).map_err(|e| ("sparse foreign v4 | big stream unreadable".to_string(), format!("{when}: read at {lo}: {e}")))?;
                let mut want = vec![0u8; data.len() + 20];
                // neighbours: zero unless they are marks themselves (marks 0 and 1 touch)
                for (o2, d2) in &img.big_marks {
                    for (i, b) in d2.iter().enumerate() {
                        let pos = o2 + i as u64;
                        if pos >= lo && pos < lo + want.len() as u64 {
                            want[(pos - lo) as usize] = *b;
                        }
                    }
                }
                want.truncate((img.big_len - lo).min(want.len() as u64) as usize);
                if got != want {
                    return Err(("sparse foreign v4 | wrong bytes in the big stream".to_string(), format!("{when}: {} bytes at offset {lo}: first difference at {:?}", want.len(), got.iter().zip(want.iter()).position(|(a, b)| a != b))));
                }
            }
            let got = read_at(&mut big, img.big_len - 50, 100).map_err(|e| ("sparse foreign v4 | big stream unreadable".to_string(), format!("{when}: tail: {e}")))?;
            if got.len() != 50 {
                return Err(("sparse foreign v4 | big stream ends elsewhere".to_string(), format!("{when}: {} bytes readable from 50 before the end", got.len())));
            }
            Ok(())
        };
        for strict in [true, false] {
            let mut o = OpenOptions::new();
            if strict {
                o = o.strict();
            }
            let mut cf = o.open_with(img.shared.handle()).map_err(|e| (format!("open {} | rejected a valid layout", if strict { "Strict" } else { "Permissive" }), format!("sparse foreign v4 with {} FAT sectors: {e}", img.nfat)))?;
            verify(&mut cf, if strict { "opened strict" } else { "opened permissive" }, &[])?;
            rep.count("sparse_foreign.opens_checked");
        }
        // modifiable: the free sectors are taken first, then the file grows by a FAT sector
        let mut cf = OpenOptions::new().open_with(img.shared.handle()).map_err(|e| ("sparse foreign v4 | open_rw failed".to_string(), format!("{e}")))?;
        let new_a = payload(90, 20_000);
        let new_b = payload(91, 30_000);
        let before = img.shared.len();
        for (p, d) in [("/new_a", &new_a), ("/st/new_b", &new_b)] {
            let mut s = cf.create_stream(p).map_err(|e| ("sparse foreign v4 | create_stream failed".to_string(), format!("{p}: {e}")))?;
            s.write_all(d).and_then(|_| s.flush()).map_err(|e| ("sparse foreign v4 | write failed".to_string(), format!("{p}: {e}")))?;
            if p == "/new_a" && img.shared.len() != before {
                return Err(("sparse foreign v4 | free sectors not used".to_string(), format!("file grew from {before} to {} for 5 sectors of data with 5 sectors free", img.shared.len())));
            }
        }
        cf.flush().map_err(|e| ("sparse foreign v4 | flush failed".to_string(), format!("{e}")))?;
        verify(&mut cf, "after adding streams", &[("/new_a", &new_a), ("/st/new_b", &new_b)])?;
        drop(cf);
        let mut cf = OpenOptions::new().strict().open_with(img.shared.handle()).map_err(|e| ("sparse foreign v4 | modified file does not reopen".to_string(), format!("{e}")))?;
        verify(&mut cf, "reopened after adding streams", &[("/new_a", &new_a), ("/st/new_b", &new_b)])?;
        rep.count("sparse_foreign.modified_and_reopened");
        let _ = img.total_sectors;
        Ok(())
    });
    rep.count("sparse_foreign.scenarios");
    rep.max("sparse_foreign.max_wall_ms", t0.elapsed().as_millis() as u64);
    facts.push(("variant", J::Int(variant as i128)));
    let witness = ctx.witness(SPARSE_FOREIGN_CASE, facts);
    match res {
        Ok(Ok(())) => rep.count("sparse_foreign.scenarios_passed"),
        Ok(Err((sig, detail))) => rep.finding(sig, detail, witness),
        Err(p) => rep.finding(p.signature(), format!("sparse foreign v4: panic at {}:{}: {}", p.file, p.line, p.message), witness),
    }
    rep.nontrivial(0x4817_0000 ^ variant ^ nfat as u64);
}
