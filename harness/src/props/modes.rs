//! C16 - strict acceptance implies permissive acceptance with the same meaning; every
//! documented deviation is tolerated by permissive open and rejected by strict open.

use crate::backend::MonFile;
use crate::common::Ctx;
use crate::corrupt::Emphasis;
use crate::engine::{self, Mode};
use crate::guard;
use crate::model::EntryView;
use crate::props::foreign::self_check;
use crate::props::hostile::{base_pool, make_input, repo_seeds, Base};
use crate::refparse::{self, rd32, wr16, wr32, wr64, Image, END, FREE, NOSTREAM};
use crate::report::{hex, Report, J};
use crate::rng::{fnv64, Rng};
use crate::synth::{self, Layout};

type Dump = Vec<(EntryView, Vec<u8>)>;

fn dump_mode(bytes: &[u8], mode: Mode) -> Result<Dump, String> {
    let (file, _sh) = MonFile::new(bytes.to_vec());
    // a buffer size is given for two images in three (a pure function of the bytes, the
    // same for both modes): the builder is then used with both of its settings, in
    // either order (see engine::open_with)
    let h = fnv64(bytes);
    let bufsize = if h % 3 == 0 { None } else { Some(1024usize << ((h >> 8) % 5)) };
    let mut cf = engine::open_with(file, mode, bufsize).map_err(|e| e.to_string())?;
    engine::dump_live(&mut cf)
}

/// The same bytes through the path-based entrances (`cfb::open`, `OpenOptions::open` /
/// `open_rw` with and without `strict()`): one image in twelve (a pure function of the
/// bytes) is written to a scratch file and must get the verdict and the content that
/// `open_with` gave.  `strict_mem` / `perm_mem` are the in-memory results.
fn path_cross_check(ctx: &Ctx, bytes: &[u8], strict_mem: &Result<Dump, String>, perm_mem: &Result<Dump, String>, rep: &mut Report) -> Result<(), (String, String)> {
    let h = fnv64(bytes);
    if (h >> 20) % 12 != 0 || bytes.len() > (1 << 20) {
        return Ok(());
    }
    let dir = format!("{}.files", ctx.out);
    let _ = std::fs::create_dir_all(&dir);
    let path = format!("{dir}/{h:016x}.cfb");
    if std::fs::write(&path, bytes).is_err() {
        rep.count("path_based.scratch_file_unavailable");
        return Ok(());
    }
    let res = (|| {
        for (mode, mem) in [(Mode::Strict, strict_mem), (Mode::Permissive, perm_mem)] {
            let variant = (h >> 28) % 3;
            let (how, opened): (&str, std::io::Result<cfb::CompoundFile<std::fs::File>>) = match (mode, variant) {
                (Mode::Strict, 0) => ("OpenOptions::new().strict().open(path)", cfb::OpenOptions::new().strict().open(&path)),
                (Mode::Strict, 1) => ("OpenOptions::new().strict().open_rw(path)", cfb::OpenOptions::new().strict().open_rw(&path)),
                (Mode::Strict, _) => ("OpenOptions::new().max_buffer_size(4096).strict().open(path)", cfb::OpenOptions::new().max_buffer_size(4096).strict().open(&path)),
                (Mode::Permissive, 0) => ("cfb::open(path)", cfb::open(&path)),
                (Mode::Permissive, 1) => ("cfb::open_rw(path)", cfb::open_rw(&path)),
                (Mode::Permissive, _) => ("OpenOptions::new().open(path)", cfb::OpenOptions::new().open(&path)),
            };
            let via_path: Result<Dump, String> = match opened {
                Ok(mut cf) => engine::dump_live(&mut cf),
                Err(e) => Err(e.to_string()),
            };
            match (mem, &via_path) {
                (Ok(a), Ok(b)) => dumps_equal(a, b).map_err(|w| (format!("path-based open | {:?} | content differs from open_with on the same bytes", mode), format!("{how}: {w}")))?,
                (Err(_), Err(_)) => {}
                (Ok(_), Err(e)) => return Err((format!("path-based open | {:?} | rejects what open_with accepts", mode), format!("{how}: {e}"))),
                (Err(e), Ok(_)) => return Err((format!("path-based open | {:?} | accepts what open_with rejects", mode), format!("{how} accepted the file; open_with on the same bytes: {e}"))),
            }
            rep.count(&format!("path_based.{:?}.{}", mode, if via_path.is_ok() { "accepted" } else { "rejected" }));
        }
        Ok(())
    })();
    let _ = std::fs::remove_file(&path);
    res
}

fn dumps_equal(a: &Dump, b: &Dump) -> Result<(), String> {
    // lengths reported for storages/root are physical; everything else must be identical
    if a.len() != b.len() {
        return Err(format!("{} vs {} objects", a.len(), b.len()));
    }
    for (x, y) in a.iter().zip(b.iter()) {
        let mut xv = x.0.clone();
        let mut yv = y.0.clone();
        if xv.kind != crate::model::Kind::Stream {
            xv.len = 0;
            yv.len = 0;
        }
        if xv != yv {
            return Err(format!("{:?} vs {:?}", xv, yv));
        }
        if x.1 != y.1 {
            return Err(format!("content of {} differs", xv.path));
        }
    }
    Ok(())
}

pub const DEVIATIONS: &[&str] = &[
    "zero_padded_fat", "zero_padded_difat", "fat_sector_unmarked", "difat_sector_unmarked", "difat_chain_ends_free", "adjacent_red_nodes", "name_not_terminated",
    "wrong_root_name", "stream_clsid", "stream_ctime", "stream_mtime", "storage_start", "storage_size", "num_fat_wrong", "num_difat_wrong", "num_minifat_wrong",
    "v3_num_dir_nonzero", "minifat_overlong",
];

/// Injects one documented deviation; returns a description of the place, or None if
/// the deviation is not applicable to this image.
pub fn inject(rng: &mut Rng, dev: &str, b: &mut [u8], img: &Image) -> Option<String> {
    let sl = img.sector_len;
    match dev {
        "zero_padded_fat" => {
            if img.fat.len() <= img.nsect {
                return None;
            }
            // cells beyond the end of the file (they are FREE in a valid file): all of them,
            // or only a suffix / a prefix of the padding area (mixed FREE and zero padding)
            let span = img.fat.len() - img.nsect;
            let (lo, hi) = match rng.below(4) {
                0 | 1 => (img.nsect, img.fat.len()),
                2 => (img.nsect + rng.usize_below(span), img.fat.len()),
                _ => (img.nsect, img.nsect + 1 + rng.usize_below(span)),
            };
            let mut n = 0;
            for i in lo..hi {
                if let Some(off) = img.fat_cell_off(i) {
                    wr32(b, off, 0);
                    n += 1;
                }
            }
            Some(format!("FAT cells {lo}..{hi} (of the {span} beyond the last sector) zeroed ({n} cells)"))
        }
        "zero_padded_difat" => {
            let last = *img.difat_sectors.last()?;
            let base = img.sector_off(last);
            let mut n = 0;
            for i in 0..(sl / 4 - 1) {
                if rd32(b, base + 4 * i) == FREE {
                    wr32(b, base + 4 * i, 0);
                    n += 1;
                }
            }
            if n == 0 {
                return None;
            }
            Some(format!("{n} unused cells of DIFAT sector {last} zeroed"))
        }
        "fat_sector_unmarked" => {
            let s = *rng.pick(&img.fat_sectors);
            let off = img.fat_cell_off(s as usize)?;
            // whatever the cell holds instead of FATSECT: a special marker, zero, or a stale
            // ordinary sector number (possibly one that another cell also points to)
            let r = rng.below(img.nsect.max(1) as u64) as u32;
            let v = *rng.pick(&[FREE, END, 0, r, img.dir_chain[0], img.hdr.first_dir.wrapping_add(1) % img.nsect.max(1) as u32]);
            wr32(b, off, v);
            Some(format!("FAT cell of FAT sector {s} = {v:#x}"))
        }
        "difat_sector_unmarked" => {
            if img.difat_sectors.is_empty() {
                return None;
            }
            let s = *rng.pick(&img.difat_sectors);
            let off = img.fat_cell_off(s as usize)?;
            let r = rng.below(img.nsect.max(1) as u64) as u32;
            let v = *rng.pick(&[FREE, END, 0, r]);
            wr32(b, off, v);
            Some(format!("FAT cell of DIFAT sector {s} = {v:#x}"))
        }
        "difat_chain_ends_free" => {
            let last = *img.difat_sectors.last()?;
            wr32(b, img.sector_off(last) + sl - 4, FREE);
            Some(format!("next pointer of last DIFAT sector {last} = FREESECT"))
        }
        "first_difat_free" => {
            if !img.difat_sectors.is_empty() {
                return None;
            }
            wr32(b, 68, FREE);
            Some("header first_difat_sector = FREESECT (no DIFAT sectors)".into())
        }
        "adjacent_red_nodes" => {
            // a parent/child pair inside one sibling tree
            let mut pairs = Vec::new();
            for e in &img.entries {
                if e.obj_type == 1 || e.obj_type == 2 {
                    for c in [e.left, e.right] {
                        if c != NOSTREAM && (c as usize) < img.entries.len() {
                            pairs.push((e.idx, c));
                        }
                    }
                }
            }
            if pairs.is_empty() {
                return None;
            }
            let (p, c) = *rng.pick(&pairs);
            b[img.entries[p as usize].off + 67] = 0;
            b[img.entries[c as usize].off + 67] = 0;
            Some(format!("entries {p} and its child {c} both red"))
        }
        "name_not_terminated" => {
            let cands: Vec<&refparse::RawEntry> = img.entries.iter().filter(|e| e.obj_type != 0 && e.name_len >= 2 && e.name_len <= 64).collect();
            let e = *rng.pick(&cands);
            let k = (e.name_len / 2 - 1) as usize;
            wr16(b, e.off + 2 * k, *rng.pick(&[0x78u16, 0xFFFF, 0x20]));
            Some(format!("terminator position of entry {} non-NUL", e.idx))
        }
        "wrong_root_name" => {
            let e = &img.entries[0];
            let name = *rng.pick(&["R", "Root entry", "ROOT ENTRY", "root entry", "Racine", "\u{30eb}\u{30fc}\u{30c8}", "C:\\docs\\report.doc", "a/b", "Root!", "x:y", "name_of_exactly_31_utf16_units_"]);
            for i in 0..32 {
                wr16(b, e.off + 2 * i, 0);
            }
            let units: Vec<u16> = name.encode_utf16().collect();
            for (i, u) in units.iter().enumerate() {
                wr16(b, e.off + 2 * i, *u);
            }
            wr16(b, e.off + 64, ((units.len() + 1) * 2) as u16);
            Some(format!("root name {name:?}"))
        }
        "stream_clsid" | "stream_ctime" | "stream_mtime" => {
            let cands: Vec<&refparse::RawEntry> = img.entries.iter().filter(|e| e.obj_type == 2).collect();
            if cands.is_empty() {
                return None;
            }
            let e = *rng.pick(&cands);
            match dev {
                "stream_clsid" => {
                    for k in 0..16 {
                        b[e.off + 80 + k] = 1 + (rng.next_u32() as u8 % 250);
                    }
                }
                "stream_ctime" => wr64(b, e.off + 100, 1 + rng.next_u64() % (1 << 60)),
                _ => wr64(b, e.off + 108, 1 + rng.next_u64() % (1 << 60)),
            }
            Some(format!("{dev} on stream entry {}", e.idx))
        }
        "storage_start" | "storage_size" => {
            let cands: Vec<&refparse::RawEntry> = img.entries.iter().filter(|e| e.obj_type == 1).collect();
            if cands.is_empty() {
                return None;
            }
            let e = *rng.pick(&cands);
            if dev == "storage_start" {
                wr32(b, e.off + 116, *rng.pick(&[END, FREE, 1, 7, 0x1234, 0xFFFF_FFFD, 0xFFFF_FFFC, 0xFFFF_FFFB, 0xFFFF_FFFA, 0x7FFF_FFFF]));
            } else {
                wr64(b, e.off + 120, *rng.pick(&[1u64, 64, 4096, 0xFFFF_FFFF]));
            }
            Some(format!("{dev} on storage entry {}", e.idx))
        }
        "num_fat_wrong" => {
            let old = rd32(b, 44);
            let v = *rng.pick(&[old + 1, old.wrapping_sub(1), 0, old + 7, 0xFFFF]);
            if v == old {
                return None;
            }
            wr32(b, 44, v);
            Some(format!("num_fat_sectors {old} -> {v}"))
        }
        "num_difat_wrong" => {
            let old = rd32(b, 72);
            let v = *rng.pick(&[old + 1, old.wrapping_sub(1), 5, 0xFFFF]);
            if v == old {
                return None;
            }
            wr32(b, 72, v);
            Some(format!("num_difat_sectors {old} -> {v}"))
        }
        "num_minifat_wrong" => {
            let old = rd32(b, 64);
            let v = *rng.pick(&[old + 1, old.wrapping_sub(1), 9, 0xFFFF]);
            if v == old {
                return None;
            }
            wr32(b, 64, v);
            Some(format!("num_minifat_sectors {old} -> {v}"))
        }
        "v3_num_dir_nonzero" => {
            if img.version != 3 {
                return None;
            }
            let v = *rng.pick(&[1u32, img.dir_chain.len() as u32, 77]);
            wr32(b, 40, v.max(1));
            Some(format!("v3 num_dir_sectors = {}", v.max(1)))
        }
        "minifat_overlong" => {
            // non-FREE MiniFAT cells beyond the root stream's mini sectors
            let root_minis = (refparse::eff_size(img, &img.entries[0]) / 64) as usize;
            let cap = img.minifat_chain.len() * (sl / 4);
            if cap <= root_minis {
                return None;
            }
            match rng.below(4) {
                0 => {
                    let i = root_minis + rng.usize_below((cap - root_minis).min(6));
                    let off = img.minifat_cell_off(i)?;
                    wr32(b, off, END);
                    Some(format!("MiniFAT cell {i} (beyond the {root_minis} mini sectors of the root stream) = ENDOFCHAIN"))
                }
                1 => {
                    // the usual form: the unused rest of the last MiniFAT sector holds zeros
                    for i in root_minis..cap {
                        let off = img.minifat_cell_off(i)?;
                        wr32(b, off, 0);
                    }
                    Some(format!("MiniFAT cells {root_minis}..{cap} (beyond the mini sectors of the root stream) zero-filled"))
                }
                2 => {
                    // a surplus cell naming a mini sector that exists (and has its own owner)
                    let i = root_minis + rng.usize_below((cap - root_minis).min(6));
                    let off = img.minifat_cell_off(i)?;
                    let v = if root_minis > 0 { rng.usize_below(root_minis) as u32 } else { 0 };
                    wr32(b, off, v);
                    Some(format!("MiniFAT cell {i} (beyond the {root_minis} mini sectors of the root stream) = {v}"))
                }
                _ => {
                    // surplus cells chained to each other
                    if cap - root_minis < 2 {
                        return None;
                    }
                    let i = root_minis + rng.usize_below((cap - root_minis - 1).min(6));
                    wr32(b, img.minifat_cell_off(i)?, i as u32 + 1);
                    wr32(b, img.minifat_cell_off(i + 1)?, END);
                    Some(format!("MiniFAT cells {i} -> {} -> ENDOFCHAIN beyond the {root_minis} mini sectors of the root stream", i + 1))
                }
            }
        }
        _ => None,
    }
}

fn witness(ctx: &Ctx, case: u64, bytes: &[u8], extra: Vec<(&str, J)>) -> J {
    let mut v = vec![("input_len", J::Int(bytes.len() as i128)), ("input_fnv64", J::s(format!("{:016x}", fnv64(bytes))))];
    if bytes.len() <= 70_000 {
        v.push(("input_hex", J::s(hex(bytes))));
    }
    v.extend(extra);
    ctx.witness(case, v)
}

/// Valid bases for part B: library-written and synthesised, plus DIFAT-sector images.
fn deviation_bases(ctx: &Ctx) -> Vec<Base> {
    let mut pool = base_pool(ctx.seed, ctx.shard, if ctx.quick() { 16 } else { 40 });
    // images with DIFAT sectors (v3, > 109 FAT sectors), in a few layouts
    for k in 0..2u64 {
        let mut rng = Rng::derive(ctx.seed, &[0xD1FA, ctx.shard, k]);
        let mut layout = Layout::random(&mut rng);
        layout.version = 3;
        layout.min_total_sectors = 109 * 128 + rng.range(5, 300) as usize;
        if k == 1 {
            layout.min_total_sectors = (109 + 127) * 128 + rng.range(5, 300) as usize; // second DIFAT sector
        }
        let model = synth::random_model(&mut rng, 12, 6000);
        let (bytes, _f) = synth::synthesize(&model, &layout, &mut rng);
        if self_check(&model, &bytes).is_ok() {
            if let Ok(img) = refparse::parse(&bytes) {
                let idx = crate::corrupt::index_fields(&img);
                pool.push(Base { bytes, img, idx, origin: "synthesised with DIFAT sectors".into() });
            }
        }
    }
    // an over-provisioned FAT on a file whose sector count is an exact multiple of the FAT
    // sector capacity: everything beyond the end of the file lies in the spare FAT sector
    for k in 0..2u64 {
        let mut rng = Rng::derive(ctx.seed, &[0x5FA7, ctx.shard, k]);
        let mut layout = Layout::random(&mut rng);
        layout.version = if k == 0 { 3 } else { 4 };
        layout.spare_fat = 1;
        layout.min_total_sectors = if k == 0 { 128 * rng.range(1, 3) as usize } else { 1024 };
        let model = synth::random_model(&mut rng, 10, 5000);
        let (bytes, f) = synth::synthesize(&model, &layout, &mut rng);
        let per = if k == 0 { 128 } else { 1024 };
        if f.total_sectors % per == 0 && self_check(&model, &bytes).is_ok() {
            if let Ok(img) = refparse::parse(&bytes) {
                let idx = crate::corrupt::index_fields(&img);
                pool.push(Base { bytes, img, idx, origin: "synthesised with a spare FAT sector, sector count aligned".into() });
            }
        }
    }
    // library-written images whose mini stream is empty again but whose MiniFAT chain is
    // still there (every small stream was removed)
    for v in [cfb::Version::V3, cfb::Version::V4] {
        if let Ok(mut sess) = crate::engine::Session::create(v, None) {
            use crate::engine::{OpenHow, Step};
            use crate::model::Op;
            let mut ok = true;
            for st in [
                Step::HOpen { slot: 0, path: "/small1".into(), how: OpenHow::Create },
                Step::HWriteAll { slot: 0, len: 700 },
                Step::HClose { slot: 0 },
                Step::HOpen { slot: 0, path: "/small2".into(), how: OpenHow::Create },
                Step::HWriteAll { slot: 0, len: 3000 },
                Step::HClose { slot: 0 },
                Step::HOpen { slot: 0, path: "/large".into(), how: OpenHow::Create },
                Step::HWriteAll { slot: 0, len: 6000 },
                Step::HClose { slot: 0 },
                Step::Api(Op::CreateStorage("/dir".into())),
                Step::Api(Op::RemoveStream("/small1".into())),
                Step::Api(Op::RemoveStream("/small2".into())),
            ] {
                ok &= sess.run(&st).is_none();
            }
            let bytes = sess.shared.bytes();
            if ok {
                if let Ok(img) = refparse::parse(&bytes) {
                    if !img.minifat_chain.is_empty() && refparse::check(&img, &bytes).violations.is_empty() {
                        let idx = crate::corrupt::index_fields(&img);
                        pool.push(Base { bytes, img, idx, origin: "library-written, mini stream emptied".into() });
                    }
                }
            }
        }
    }
    // a library-written image with a DIFAT sector (canonical layout: sector 0 is a FAT sector)
    if let Ok(mut sess) = crate::engine::Session::create(cfb::Version::V3, None) {
        use crate::engine::{OpenHow, Step};
        let mut ok = true;
        for k in 0..114 {
            for st in [Step::HOpen { slot: 0, path: format!("/s{k}"), how: OpenHow::Create }, Step::HWriteAll { slot: 0, len: 65536 }, Step::HClose { slot: 0 }] {
                ok &= sess.run(&st).is_none();
            }
        }
        let bytes = sess.shared.bytes();
        if ok {
            if let Ok(img) = refparse::parse(&bytes) {
                if !img.difat_sectors.is_empty() && refparse::check(&img, &bytes).violations.is_empty() {
                    let idx = crate::corrupt::index_fields(&img);
                    pool.push(Base { bytes, img, idx, origin: "library-written with a DIFAT sector".into() });
                }
            }
        }
    }
    pool
}

pub fn run_c16(ctx: &Ctx, rep: &mut Report) {
    let pool = deviation_bases(ctx);
    let hostile_pool = base_pool(ctx.seed, ctx.shard, 16);
    let seeds = repo_seeds();
    if pool.is_empty() {
        rep.inconclusive("no valid base image could be built".into());
        return;
    }
    // reference dumps of the undamaged bases (both modes must agree on them: part A)
    let mut base_dumps: Vec<Option<Dump>> = Vec::new();
    for b in &pool {
        match (dump_mode(&b.bytes, Mode::Strict), dump_mode(&b.bytes, Mode::Permissive)) {
            (Ok(s), Ok(p)) if dumps_equal(&s, &p).is_ok() => base_dumps.push(Some(s)),
            _ => base_dumps.push(None),
        }
    }
    let mut i = 0;
    while let Some(case) = ctx.next_case(&mut i) {
        let mut rng = ctx.case_rng(case);
        rep.evaluations += 1;
        if case % 3 == 0 {
            // ---- part A: whatever strict accepts, permissive accepts with the same meaning
            let (bytes, desc) = if rng.chance(1, 5) {
                let k = rng.usize_below(pool.len());
                (pool[k].bytes.clone(), vec![format!("undamaged {} base", pool[k].origin)])
            } else {
                make_input(&mut rng, &hostile_pool, &seeds, Emphasis::Any, rep)
            };
            let r = guard::catch(|| -> Result<bool, (String, String)> {
                let strict = dump_mode(&bytes, Mode::Strict);
                let perm = dump_mode(&bytes, Mode::Permissive);
                path_cross_check(ctx, &bytes, &strict, &perm, rep)?;
                match strict {
                    Err(_) => Ok(false),
                    Ok(ds) => {
                        let dp = perm.map_err(|e| ("part A | strict accepts, permissive rejects".to_string(), format!("permissive: {e}")))?;
                        dumps_equal(&ds, &dp).map_err(|w| ("part A | strict and permissive expose different content".to_string(), w))?;
                        Ok(true)
                    }
                }
            });
            match r {
                Ok(Ok(true)) => {
                    rep.count("partA.strict_accepted_and_compared");
                    if desc.len() > 1 {
                        rep.count("partA.strict_accepted_corrupted_input");
                    }
                    rep.nontrivial(fnv64(&bytes));
                }
                Ok(Ok(false)) => rep.count("partA.strict_rejected"),
                Ok(Err((sig, detail))) => rep.finding(sig, format!("{detail} (input built by {:?})", desc), witness(ctx, case, &bytes, vec![])),
                Err(p) => rep.finding(p.signature(), format!("panic at {}:{}: {}", p.file, p.line, p.message), witness(ctx, case, &bytes, vec![])),
            }
            continue;
        }
        // ---- part B: documented deviations, singly and combined
        let difat_bases: Vec<usize> = (0..pool.len()).filter(|&j| !pool[j].img.difat_sectors.is_empty()).collect();
        let k = if !difat_bases.is_empty() && rng.chance(3, 10) { *rng.pick(&difat_bases) } else { rng.usize_below(pool.len()) };
        let base = &pool[k];
        let reference = match &base_dumps[k] {
            Some(d) => d,
            None => {
                rep.count("partB.base_unusable");
                continue;
            }
        };
        let steer_difat = !base.img.difat_sectors.is_empty() && rng.chance(2, 3);
        let n_dev = if steer_difat { rng.range(1, 3) as usize } else if rng.chance(3, 5) { 1 } else { rng.range(2, 4) as usize };
        let mut bytes = base.bytes.clone();
        let mut applied: Vec<(String, String)> = Vec::new();
        let mut tries = 0;
        while applied.len() < n_dev && tries < 30 {
            tries += 1;
            let difat_related = ["zero_padded_difat", "num_fat_wrong", "num_difat_wrong", "difat_chain_ends_free", "difat_sector_unmarked", "zero_padded_fat", "fat_sector_unmarked"];
            let dev = if steer_difat { *rng.pick(&difat_related) } else { *rng.pick(DEVIATIONS) };
            if applied.iter().any(|a| a.0 == dev) {
                continue;
            }
            // the DIFAT ones only apply to DIFAT images: steer
            if let Some(place) = inject(&mut rng, dev, &mut bytes, &base.img) {
                applied.push((dev.to_string(), place));
            }
        }
        if applied.is_empty() {
            continue;
        }
        let combo = applied.len() > 1;
        let mut names: Vec<&str> = applied.iter().map(|a| a.0.as_str()).collect();
        names.sort();
        let label = names.join("+");
        let r = guard::catch(|| -> Result<(), (String, String)> {
            let what = format!("{:?} on a {} base (v{})", applied, base.origin, base.img.version);
            let perm = dump_mode(&bytes, Mode::Permissive);
            let strict = dump_mode(&bytes, Mode::Strict);
            match &perm {
                Err(e) => return Err((format!("part B | {} | permissive rejects", if combo { format!("combo {label}") } else { label.clone() }), format!("{what}: {e}"))),
                Ok(d) => dumps_equal(reference, d).map_err(|w| (format!("part B | {} | permissive content differs", if combo { format!("combo {label}") } else { label.clone() }), format!("{what}: {w}")))?,
            }
            if strict.is_ok() {
                return Err((format!("part B | {} | strict accepts", if combo { format!("combo {label}") } else { label.clone() }), what));
            }
            path_cross_check(ctx, &bytes, &strict, &perm, rep)?;
            Ok(())
        });
        match r {
            Ok(Ok(())) => {
                for (d, _) in &applied {
                    rep.count(&format!("partB.{}.{}", d, if combo { "combined" } else { "single" }));
                }
                rep.count(if combo { "partB.combinations_checked" } else { "partB.singles_checked" });
                rep.count(&format!("partB.base.{}", base.origin));
                rep.nontrivial(fnv64(&bytes));
            }
            Ok(Err((sig, detail))) => rep.finding(sig, detail, witness(ctx, case, &bytes, vec![("deviations", J::Arr(applied.iter().map(|a| J::s(format!("{}: {}", a.0, a.1))).collect()))])),
            Err(p) => rep.finding(p.signature(), format!("panic at {}:{}: {}", p.file, p.line, p.message), witness(ctx, case, &bytes, vec![])),
        }
        if rep.samples.len() < 3 {
            rep.sample(J::obj(vec![("base", J::s(format!("{} v{} {} bytes", base.origin, base.img.version, base.bytes.len()))), ("deviations", J::Arr(applied.iter().map(|a| J::s(format!("{}: {}", a.0, a.1))).collect()))]));
        }
    }
    let _ = std::fs::remove_dir_all(format!("{}.files", ctx.out));
}
