//! The abstract model of C01: a tree of storages holding case-insensitively unique
//! names whose leaves are byte vectors, plus per-object metadata.  Written from the
//! public documentation; it never looks at the library's internals.
//!
//! An operation's prediction is a *set of admissible outcomes*: `Ok(value)` when no
//! precondition is violated, otherwise "an error whose kind belongs to one of the
//! violated preconditions" (error precedence is not pinned by any property).

use crate::order::{self, Key};
use std::collections::BTreeMap;
use std::io::ErrorKind;

pub const EPOCH_TICKS: u64 = 116_444_736_000_000_000;

#[derive(Clone, Copy, Debug, PartialEq, Eq, Hash)]
pub enum Kind {
    Root,
    Storage,
    Stream,
}

#[derive(Clone, Debug)]
pub struct Node {
    pub name: String,
    pub kind: Kind,
    pub clsid: [u8; 16],
    pub state: u32,
    /// Ticks (100 ns since 1601).  `None` = set from the wall clock, not yet observed.
    pub ctime: Option<u64>,
    pub mtime: Option<u64>,
    pub data: Vec<u8>,
    pub children: BTreeMap<Key, Node>,
    /// Unique id of the object (identity survives metadata changes; C07).
    pub uid: u64,
}

impl Node {
    pub fn is_storage(&self) -> bool {
        self.kind != Kind::Stream
    }
}

/// What a query reports about one object.
#[derive(Clone, Debug, PartialEq, Eq)]
pub struct EntryView {
    pub path: String,
    pub name: String,
    pub kind: Kind,
    pub len: u64,
    pub clsid: [u8; 16],
    pub state: u32,
    /// Ticks; for the model `None` means "unknown, adopt the observed value".
    pub ctime: Option<u64>,
    pub mtime: Option<u64>,
}

#[derive(Clone, Debug, PartialEq, Eq)]
pub enum Out {
    Unit,
    Bool(bool),
    Num(u64),
    Bytes(Vec<u8>),
    Entry(EntryView),
    List(Vec<EntryView>),
    /// A handle was returned; value = length of the stream at that moment.
    Handle(u64),
}

#[derive(Clone, Debug)]
pub enum Expect {
    Ok(Out),
    /// The call must fail with one of these kinds.  `classes` names the violated
    /// preconditions (for coverage and signatures).
    Refuse { kinds: Vec<ErrorKind>, classes: Vec<&'static str> },
}

impl Expect {
    pub fn is_refusal(&self) -> bool {
        matches!(self, Expect::Refuse { .. })
    }
}

/// Independent path normaliser: split on '/', drop empty and "." components, pop on
/// ".."; `None` = escapes the root.
pub fn normalise(path: &str) -> Option<Vec<String>> {
    let mut names: Vec<String> = Vec::new();
    for comp in path.split('/') {
        match comp {
            "" | "." => {}
            ".." => {
                names.pop()?;
            }
            other => names.push(other.to_string()),
        }
    }
    Some(names)
}

pub fn join(names: &[String]) -> String {
    if names.is_empty() {
        "/".to_string()
    } else {
        let mut s = String::new();
        for n in names {
            s.push('/');
            s.push_str(n);
        }
        s
    }
}

#[derive(Clone, Debug)]
pub struct Model {
    pub root: Node,
    next_uid: u64,
}

#[derive(Clone, Debug, PartialEq, Eq)]
pub enum Op {
    CreateStorage(String),
    CreateStorageAll(String),
    /// create_stream; the handle is dropped at once (content becomes empty).
    CreateStream(String),
    CreateNewStream(String),
    RemoveStream(String),
    RemoveStorage(String),
    RemoveStorageAll(String),
    /// open_stream; reports the length.
    OpenStream(String),
    Exists(String),
    IsStream(String),
    IsStorage(String),
    Entry(String),
    RootEntry,
    ReadStorage(String),
    ReadRootStorage,
    Walk,
    WalkStorage(String),
    SetClsid(String, [u8; 16]),
    SetState(String, u32),
    /// Time as nanoseconds relative to the Unix epoch (may be off the 100 ns grid and
    /// outside the tick range); the model derives the stored ticks with the
    /// independent oracle `ticks_from_unix_ns`.
    SetCreated(String, i128),
    SetModified(String, i128),
    Touch(String),
}

impl Op {
    pub fn name(&self) -> &'static str {
        match self {
            Op::CreateStorage(_) => "create_storage",
            Op::CreateStorageAll(_) => "create_storage_all",
            Op::CreateStream(_) => "create_stream",
            Op::CreateNewStream(_) => "create_new_stream",
            Op::RemoveStream(_) => "remove_stream",
            Op::RemoveStorage(_) => "remove_storage",
            Op::RemoveStorageAll(_) => "remove_storage_all",
            Op::OpenStream(_) => "open_stream",
            Op::Exists(_) => "exists",
            Op::IsStream(_) => "is_stream",
            Op::IsStorage(_) => "is_storage",
            Op::Entry(_) => "entry",
            Op::RootEntry => "root_entry",
            Op::ReadStorage(_) => "read_storage",
            Op::ReadRootStorage => "read_root_storage",
            Op::Walk => "walk",
            Op::WalkStorage(_) => "walk_storage",
            Op::SetClsid(..) => "set_storage_clsid",
            Op::SetState(..) => "set_state_bits",
            Op::SetCreated(..) => "set_created_time",
            Op::SetModified(..) => "set_modified_time",
            Op::Touch(_) => "touch",
        }
    }
    pub fn path(&self) -> Option<&str> {
        match self {
            Op::CreateStorage(p) | Op::CreateStorageAll(p) | Op::CreateStream(p) | Op::CreateNewStream(p) | Op::RemoveStream(p) | Op::RemoveStorage(p) | Op::RemoveStorageAll(p) | Op::OpenStream(p) | Op::Exists(p) | Op::IsStream(p) | Op::IsStorage(p) | Op::Entry(p) | Op::ReadStorage(p) | Op::WalkStorage(p) | Op::SetClsid(p, _) | Op::SetState(p, _) | Op::SetCreated(p, _) | Op::SetModified(p, _) | Op::Touch(p) => Some(p),
            _ => None,
        }
    }
    pub fn is_mutation(&self) -> bool {
        !matches!(self, Op::OpenStream(_) | Op::Exists(_) | Op::IsStream(_) | Op::IsStorage(_) | Op::Entry(_) | Op::RootEntry | Op::ReadStorage(_) | Op::ReadRootStorage | Op::Walk | Op::WalkStorage(_))
    }
}

fn refuse(pairs: &[(ErrorKind, &'static str)]) -> Expect {
    let mut kinds = Vec::new();
    let mut classes = Vec::new();
    for &(k, c) in pairs {
        if !kinds.contains(&k) {
            kinds.push(k);
        }
        classes.push(c);
    }
    Expect::Refuse { kinds, classes }
}

const NF: ErrorKind = ErrorKind::NotFound;
const AE: ErrorKind = ErrorKind::AlreadyExists;
const II: ErrorKind = ErrorKind::InvalidInput;

impl Model {
    pub fn new() -> Model {
        Model {
            root: Node { name: "Root Entry".into(), kind: Kind::Root, clsid: [0; 16], state: 0, ctime: Some(0), mtime: Some(0), data: Vec::new(), children: BTreeMap::new(), uid: 0 },
            next_uid: 1,
        }
    }

    pub fn fresh_uid(&mut self) -> u64 {
        let u = self.next_uid;
        self.next_uid += 1;
        u
    }

    pub fn get(&self, names: &[String]) -> Option<&Node> {
        let mut cur = &self.root;
        for n in names {
            if !cur.is_storage() {
                return None;
            }
            cur = cur.children.get(&Key::of(n))?;
        }
        Some(cur)
    }

    pub fn get_mut(&mut self, names: &[String]) -> Option<&mut Node> {
        let mut cur = &mut self.root;
        for n in names {
            if !cur.is_storage() {
                return None;
            }
            cur = cur.children.get_mut(&Key::of(n))?;
        }
        Some(cur)
    }

    pub fn get_path(&self, path: &str) -> Option<&Node> {
        self.get(&normalise(path)?)
    }

    fn view(node: &Node, path: String) -> EntryView {
        EntryView { path, name: node.name.clone(), kind: node.kind, len: node.data.len() as u64, clsid: node.clsid, state: node.state, ctime: node.ctime, mtime: node.mtime }
    }

    fn walk_into(node: &Node, path: &str, out: &mut Vec<EntryView>) {
        out.push(Model::view(node, path.to_string()));
        for child in node.children.values() {
            let p = if path == "/" { format!("/{}", child.name) } else { format!("{}/{}", path, child.name) };
            Model::walk_into(child, &p, out);
        }
    }

    /// Pre-order list of everything (root first), with stream contents.
    pub fn dump(&self) -> Vec<(EntryView, Vec<u8>)> {
        fn rec(node: &Node, path: &str, out: &mut Vec<(EntryView, Vec<u8>)>) {
            out.push((Model::view(node, path.to_string()), node.data.clone()));
            for child in node.children.values() {
                let p = if path == "/" { format!("/{}", child.name) } else { format!("{}/{}", path, child.name) };
                rec(child, &p, out);
            }
        }
        let mut out = Vec::new();
        rec(&self.root, "/", &mut out);
        out
    }

    pub fn all_paths(&self) -> Vec<(String, Kind)> {
        self.dump().into_iter().map(|(v, _)| (v.path, v.kind)).collect()
    }

    pub fn count(&self) -> usize {
        fn rec(n: &Node) -> usize {
            1 + n.children.values().map(rec).sum::<usize>()
        }
        rec(&self.root)
    }

    /// Preconditions shared by the create operations for the last component.
    fn create_preconds(&self, names: &[String]) -> Vec<(ErrorKind, &'static str)> {
        let mut bad = Vec::new();
        let (last, parent) = names.split_last().unwrap();
        match self.get(parent) {
            None => {
                // distinguish "parent missing" from "an ancestor is a stream"
                let mut through_stream = false;
                for k in 0..parent.len() {
                    if let Some(n) = self.get(&parent[..=k]) {
                        if !n.is_storage() {
                            through_stream = true;
                            break;
                        }
                    } else {
                        break;
                    }
                }
                if through_stream {
                    bad.push((NF, "parent_is_stream"));
                    bad.push((II, "parent_is_stream"));
                } else {
                    bad.push((NF, "parent_missing"));
                }
            }
            Some(p) if !p.is_storage() => {
                bad.push((NF, "parent_is_stream"));
                bad.push((II, "parent_is_stream"));
            }
            Some(_) => {}
        }
        if !order::name_is_valid(last) {
            bad.push((II, "invalid_name"));
        }
        bad
    }

    /// Applies the operation to the model and returns the admissible outcomes.
    pub fn apply(&mut self, op: &Op) -> Expect {
        match op {
            Op::RootEntry => return Expect::Ok(Out::Entry(Model::view(&self.root, "/".into()))),
            Op::ReadRootStorage => return self.apply(&Op::ReadStorage("/".into())),
            Op::Walk => return self.apply(&Op::WalkStorage("/".into())),
            _ => {}
        }
        let path = op.path().unwrap();
        let names = match normalise(path) {
            Some(n) => n,
            None => {
                return match op {
                    Op::Exists(_) | Op::IsStream(_) | Op::IsStorage(_) => Expect::Ok(Out::Bool(false)),
                    _ => refuse(&[(II, "path_escapes_root")]),
                };
            }
        };
        let norm = join(&names);
        // Lookups of names that cannot exist: NotFound is natural, InvalidInput tolerated.
        let lookup_missing = |names: &[String]| -> Expect {
            if names.iter().any(|n| !order::name_is_valid(n)) {
                refuse(&[(NF, "missing"), (II, "invalid_name_lookup")])
            } else {
                refuse(&[(NF, "missing")])
            }
        };
        match op {
            Op::CreateStorage(_) => {
                if let Some(n) = self.get(&names) {
                    return refuse(&[(AE, if n.is_storage() { "exists_storage" } else { "exists_stream" })]);
                }
                let bad = self.create_preconds(&names);
                if !bad.is_empty() {
                    return refuse(&bad);
                }
                let uid = self.fresh_uid();
                let (last, parent) = names.split_last().unwrap();
                let p = self.get_mut(parent).unwrap();
                p.children.insert(Key::of(last), Node { name: last.clone(), kind: Kind::Storage, clsid: [0; 16], state: 0, ctime: None, mtime: None, data: Vec::new(), children: BTreeMap::new(), uid });
                Expect::Ok(Out::Unit)
            }
            Op::CreateStorageAll(_) => {
                // Evaluate the whole chain before touching anything (C10: no partial effect).
                let mut bad: Vec<(ErrorKind, &'static str)> = Vec::new();
                let mut first_missing = names.len();
                for k in 0..names.len() {
                    match self.get(&names[..=k]) {
                        Some(n) if n.is_storage() => {}
                        Some(_) => {
                            bad.push((AE, "stream_in_the_way"));
                            if k + 1 < names.len() {
                                bad.push((NF, "stream_in_the_way"));
                                bad.push((II, "stream_in_the_way"));
                            }
                            first_missing = names.len();
                            break;
                        }
                        None => {
                            first_missing = k;
                            break;
                        }
                    }
                }
                for n in &names[first_missing.min(names.len())..] {
                    if !order::name_is_valid(n) {
                        bad.push((II, "invalid_name"));
                        break;
                    }
                }
                if !bad.is_empty() {
                    return refuse(&bad);
                }
                for k in first_missing..names.len() {
                    let uid = self.fresh_uid();
                    let p = self.get_mut(&names[..k]).unwrap();
                    p.children.insert(Key::of(&names[k]), Node { name: names[k].clone(), kind: Kind::Storage, clsid: [0; 16], state: 0, ctime: None, mtime: None, data: Vec::new(), children: BTreeMap::new(), uid });
                }
                Expect::Ok(Out::Unit)
            }
            Op::CreateStream(_) | Op::CreateNewStream(_) => {
                let overwrite = matches!(op, Op::CreateStream(_));
                if let Some(n) = self.get_mut(&names) {
                    if n.is_storage() {
                        return refuse(&[(AE, "exists_storage")]);
                    } else if !overwrite {
                        return refuse(&[(AE, "exists_stream")]);
                    } else {
                        n.data.clear();
                        return Expect::Ok(Out::Handle(0));
                    }
                }
                let bad = self.create_preconds(&names);
                if !bad.is_empty() {
                    return refuse(&bad);
                }
                let uid = self.fresh_uid();
                let (last, parent) = names.split_last().unwrap();
                let p = self.get_mut(parent).unwrap();
                p.children.insert(Key::of(last), Node { name: last.clone(), kind: Kind::Stream, clsid: [0; 16], state: 0, ctime: Some(0), mtime: Some(0), data: Vec::new(), children: BTreeMap::new(), uid });
                Expect::Ok(Out::Handle(0))
            }
            Op::RemoveStream(_) => match self.get(&names) {
                None => lookup_missing(&names),
                Some(n) if n.is_storage() => refuse(&[(II, if n.kind == Kind::Root { "is_root" } else { "is_storage" })]),
                Some(_) => {
                    let (last, parent) = names.split_last().unwrap();
                    self.get_mut(parent).unwrap().children.remove(&Key::of(last));
                    Expect::Ok(Out::Unit)
                }
            },
            Op::RemoveStorage(_) => match self.get(&names) {
                None => lookup_missing(&names),
                Some(n) if n.kind == Kind::Root => refuse(&[(II, "is_root")]),
                Some(n) if n.kind == Kind::Stream => refuse(&[(II, "is_stream")]),
                Some(n) if !n.children.is_empty() => refuse(&[(II, "not_empty")]),
                Some(_) => {
                    let (last, parent) = names.split_last().unwrap();
                    self.get_mut(parent).unwrap().children.remove(&Key::of(last));
                    Expect::Ok(Out::Unit)
                }
            },
            Op::RemoveStorageAll(_) => match self.get(&names) {
                None => lookup_missing(&names),
                Some(n) if n.kind == Kind::Root => {
                    self.root.children.clear();
                    Expect::Ok(Out::Unit)
                }
                Some(_) => {
                    // Documented-by-behaviour: on a stream path it removes that stream.
                    let (last, parent) = names.split_last().unwrap();
                    self.get_mut(parent).unwrap().children.remove(&Key::of(last));
                    Expect::Ok(Out::Unit)
                }
            },
            Op::OpenStream(_) => match self.get(&names) {
                None => lookup_missing(&names),
                Some(n) if n.is_storage() => refuse(&[(II, "is_storage")]),
                Some(n) => Expect::Ok(Out::Handle(n.data.len() as u64)),
            },
            Op::Exists(_) => Expect::Ok(Out::Bool(self.get(&names).is_some())),
            Op::IsStream(_) => Expect::Ok(Out::Bool(self.get(&names).map(|n| !n.is_storage()).unwrap_or(false))),
            Op::IsStorage(_) => Expect::Ok(Out::Bool(self.get(&names).map(|n| n.is_storage()).unwrap_or(false))),
            Op::Entry(_) => match self.get(&names) {
                None => lookup_missing(&names),
                Some(n) => Expect::Ok(Out::Entry(Model::view(n, norm))),
            },
            Op::ReadStorage(_) => match self.get(&names) {
                None => lookup_missing(&names),
                Some(n) if !n.is_storage() => refuse(&[(II, "is_stream")]),
                Some(n) => {
                    let list = n.children.values().map(|c| Model::view(c, if norm == "/" { format!("/{}", c.name) } else { format!("{}/{}", norm, c.name) })).collect();
                    Expect::Ok(Out::List(list))
                }
            },
            Op::WalkStorage(_) => match self.get(&names) {
                None => lookup_missing(&names),
                Some(n) => {
                    let mut out = Vec::new();
                    // The walked object itself is reported under its stored name.
                    let start = if names.is_empty() { "/".to_string() } else { let mut p = names[..names.len() - 1].to_vec(); p.push(n.name.clone()); join(&p) };
                    Model::walk_into(n, &start, &mut out);
                    Expect::Ok(Out::List(out))
                }
            },
            Op::SetClsid(_, c) => match self.get_mut(&names) {
                None => lookup_missing(&names),
                Some(n) if !n.is_storage() => refuse(&[(II, "is_stream")]),
                Some(n) => {
                    n.clsid = *c;
                    Expect::Ok(Out::Unit)
                }
            },
            Op::SetState(_, s) => match self.get_mut(&names) {
                None => lookup_missing(&names),
                Some(n) => {
                    n.state = *s;
                    Expect::Ok(Out::Unit)
                }
            },
            Op::SetCreated(_, t) => match self.get_mut(&names) {
                None => lookup_missing(&names),
                Some(n) => {
                    if n.is_storage() {
                        n.ctime = Some(ticks_from_unix_ns(*t));
                    }
                    Expect::Ok(Out::Unit)
                }
            },
            Op::SetModified(_, t) => match self.get_mut(&names) {
                None => lookup_missing(&names),
                Some(n) => {
                    if n.is_storage() {
                        n.mtime = Some(ticks_from_unix_ns(*t));
                    }
                    Expect::Ok(Out::Unit)
                }
            },
            Op::Touch(_) => match self.get_mut(&names) {
                None => lookup_missing(&names),
                Some(n) => {
                    if n.is_storage() {
                        n.mtime = None;
                    }
                    Expect::Ok(Out::Unit)
                }
            },
            Op::RootEntry | Op::ReadRootStorage | Op::Walk => unreachable!(),
        }
    }
}

/// Independent SystemTime -> ticks conversion (C17 oracle): truncation toward the Unix
/// epoch to 100 ns, offset to 1601, saturation at the u64 range.
pub fn ticks_from_unix_ns(ns_since_unix_epoch: i128) -> u64 {
    // truncation toward zero == toward the epoch
    let delta = ns_since_unix_epoch / 100;
    let t = delta + EPOCH_TICKS as i128;
    if t < 0 {
        0
    } else if t > u64::MAX as i128 {
        u64::MAX
    } else {
        t as u64
    }
}

pub fn unix_ns_from_ticks(ticks: u64) -> i128 {
    (ticks as i128 - EPOCH_TICKS as i128) * 100
}

#[cfg(test)]
mod tests {
    use super::*;
    #[test]
    fn norm() {
        assert_eq!(normalise("/a/./b/../c/"), Some(vec!["a".to_string(), "c".to_string()]));
        assert_eq!(normalise("../x"), None);
        assert_eq!(normalise("a/.."), Some(vec![]));
    }
}
