//! Per-shard result accumulation and a minimal JSON writer (no serde offline).

use std::collections::{BTreeMap, BTreeSet};
use std::fmt::Write as _;

pub fn esc(s: &str) -> String {
    let mut o = String::with_capacity(s.len() + 2);
    o.push('"');
    for c in s.chars() {
        match c {
            '"' => o.push_str("\\\""),
            '\\' => o.push_str("\\\\"),
            '\n' => o.push_str("\\n"),
            '\r' => o.push_str("\\r"),
            '\t' => o.push_str("\\t"),
            c if (c as u32) < 0x20 => {
                let _ = write!(o, "\\u{:04x}", c as u32);
            }
            c => o.push(c),
        }
    }
    o.push('"');
    o
}

pub fn hex(b: &[u8]) -> String {
    let mut s = String::with_capacity(b.len() * 2);
    for x in b {
        let _ = write!(s, "{:02x}", x);
    }
    s
}

pub fn unhex(s: &str) -> Vec<u8> {
    let b = s.trim().as_bytes();
    (0..b.len() / 2).map(|i| u8::from_str_radix(std::str::from_utf8(&b[2 * i..2 * i + 2]).unwrap_or("00"), 16).unwrap_or(0)).collect()
}

/// A JSON value built by hand.
#[derive(Clone, Debug)]
pub enum J {
    Null,
    Bool(bool),
    Num(f64),
    Int(i128),
    Str(String),
    Arr(Vec<J>),
    Obj(Vec<(String, J)>),
}

impl J {
    pub fn s(x: impl Into<String>) -> J {
        J::Str(x.into())
    }
    pub fn i(x: impl Into<i128>) -> J {
        J::Int(x.into())
    }
    pub fn obj(pairs: Vec<(&str, J)>) -> J {
        J::Obj(pairs.into_iter().map(|(k, v)| (k.to_string(), v)).collect())
    }
    pub fn render(&self) -> String {
        match self {
            J::Null => "null".into(),
            J::Bool(b) => format!("{b}"),
            J::Num(n) => {
                if n.is_finite() {
                    format!("{n}")
                } else {
                    "null".into()
                }
            }
            J::Int(n) => format!("{n}"),
            J::Str(s) => esc(s),
            J::Arr(a) => format!("[{}]", a.iter().map(|x| x.render()).collect::<Vec<_>>().join(",")),
            J::Obj(o) => format!("{{{}}}", o.iter().map(|(k, v)| format!("{}:{}", esc(k), v.render())).collect::<Vec<_>>().join(",")),
        }
    }
}

#[derive(Clone, Debug)]
pub struct Finding {
    /// Stable signature (known-finding key).
    pub signature: String,
    pub detail: String,
    /// Full witness (explicit steps / input) for the replay file.
    pub witness: J,
    pub count: u64,
}

#[derive(Default)]
pub struct Report {
    pub property: String,
    pub evaluations: u64,
    pub counters: BTreeMap<String, u64>,
    pub maxima: BTreeMap<String, u64>,
    pub sets: BTreeMap<String, BTreeSet<String>>,
    pub samples: Vec<J>,
    pub findings: Vec<Finding>,
    pub inconclusive: Vec<String>,
    /// Hashes of the non-trivial cases (deduplicated across shards by the driver).
    pub nontrivial: Vec<u64>,
}

impl Report {
    pub fn new(property: &str) -> Report {
        Report { property: property.to_string(), ..Default::default() }
    }
    pub fn count(&mut self, key: &str) {
        *self.counters.entry(key.to_string()).or_insert(0) += 1;
    }
    pub fn add(&mut self, key: &str, n: u64) {
        *self.counters.entry(key.to_string()).or_insert(0) += n;
    }
    pub fn get(&self, key: &str) -> u64 {
        self.counters.get(key).copied().unwrap_or(0)
    }
    pub fn max(&mut self, key: &str, v: u64) {
        let e = self.maxima.entry(key.to_string()).or_insert(0);
        if v > *e {
            *e = v;
        }
    }
    pub fn set_insert(&mut self, key: &str, v: impl Into<String>) {
        let s = self.sets.entry(key.to_string()).or_default();
        if s.len() < 400 {
            s.insert(v.into());
        }
    }
    pub fn sample(&mut self, j: J) {
        if self.samples.len() < 3 {
            self.samples.push(j);
        }
    }
    pub fn nontrivial(&mut self, h: u64) {
        self.nontrivial.push(h);
    }
    /// Records a violation; the same signature is stored once with a count.
    pub fn finding(&mut self, signature: String, detail: String, witness: J) {
        if let Some(f) = self.findings.iter_mut().find(|f| f.signature == signature) {
            f.count += 1;
            return;
        }
        if self.findings.len() < 64 {
            self.findings.push(Finding { signature, detail, witness, count: 1 });
        }
    }
    pub fn inconclusive(&mut self, why: String) {
        if self.inconclusive.len() < 32 {
            self.inconclusive.push(why);
        }
    }

    pub fn to_json(&self) -> String {
        let counters = J::Obj(self.counters.iter().map(|(k, v)| (k.clone(), J::Int(*v as i128))).collect());
        let maxima = J::Obj(self.maxima.iter().map(|(k, v)| (k.clone(), J::Int(*v as i128))).collect());
        let sets = J::Obj(self.sets.iter().map(|(k, v)| (k.clone(), J::Arr(v.iter().map(|s| J::Str(s.clone())).collect()))).collect());
        let findings = J::Arr(
            self.findings
                .iter()
                .map(|f| J::obj(vec![("signature", J::s(&f.signature)), ("detail", J::s(&f.detail)), ("count", J::Int(f.count as i128)), ("witness", f.witness.clone())]))
                .collect(),
        );
        J::obj(vec![
            ("property", J::s(&self.property)),
            ("evaluations", J::Int(self.evaluations as i128)),
            ("counters", counters),
            ("maxima", maxima),
            ("sets", sets),
            ("samples", J::Arr(self.samples.clone())),
            ("findings", findings),
            ("inconclusive", J::Arr(self.inconclusive.iter().map(|s| J::s(s)).collect())),
        ])
        .render()
    }

    /// Writes `<out>.json` and `<out>.hashes` (raw little-endian u64s).
    pub fn write(&self, out: &str) -> std::io::Result<()> {
        std::fs::write(format!("{out}.json"), self.to_json())?;
        let mut b = Vec::with_capacity(self.nontrivial.len() * 8);
        for h in &self.nontrivial {
            b.extend_from_slice(&h.to_le_bytes());
        }
        std::fs::write(format!("{out}.hashes"), b)
    }
}
