//! Guards around every case: panic capture (message + location + enclosing function),
//! a counting global allocator, a CPU-time meter and an in-process watchdog thread that
//! measures the *CPU time* a case has burnt (never wall time) and aborts the worker
//! with a marker file when a budget is exceeded; the driver then re-runs that case in
//! isolation to confirm.

use std::alloc::{GlobalAlloc, Layout, System};
use std::cell::RefCell;
use std::panic;
use std::sync::atomic::{AtomicBool, AtomicI64, AtomicU64, AtomicUsize, Ordering};

// ---------------------------------------------------------------- allocator

pub struct CountingAlloc;

static LIVE: AtomicI64 = AtomicI64::new(0);
static PEAK: AtomicI64 = AtomicI64::new(0);
static TOTAL: AtomicU64 = AtomicU64::new(0);
/// Allocation requests above this many bytes fail (return null) instead of taking the
/// machine down; 0 = no cap.  The failure makes Rust abort the process ("memory
/// allocation of N bytes failed"), which the driver attributes to the running case.
static CAP: AtomicUsize = AtomicUsize::new(0);
static TRACK: AtomicBool = AtomicBool::new(false);

unsafe impl GlobalAlloc for CountingAlloc {
    unsafe fn alloc(&self, l: Layout) -> *mut u8 {
        let cap = CAP.load(Ordering::Relaxed);
        if cap != 0 && l.size() > cap {
            return std::ptr::null_mut();
        }
        let p = System.alloc(l);
        if !p.is_null() && TRACK.load(Ordering::Relaxed) {
            let live = LIVE.fetch_add(l.size() as i64, Ordering::Relaxed) + l.size() as i64;
            PEAK.fetch_max(live, Ordering::Relaxed);
            TOTAL.fetch_add(l.size() as u64, Ordering::Relaxed);
        }
        p
    }
    unsafe fn dealloc(&self, p: *mut u8, l: Layout) {
        System.dealloc(p, l);
        if TRACK.load(Ordering::Relaxed) {
            LIVE.fetch_sub(l.size() as i64, Ordering::Relaxed);
        }
    }
    unsafe fn alloc_zeroed(&self, l: Layout) -> *mut u8 {
        let cap = CAP.load(Ordering::Relaxed);
        if cap != 0 && l.size() > cap {
            return std::ptr::null_mut();
        }
        let p = System.alloc_zeroed(l);
        if !p.is_null() && TRACK.load(Ordering::Relaxed) {
            let live = LIVE.fetch_add(l.size() as i64, Ordering::Relaxed) + l.size() as i64;
            PEAK.fetch_max(live, Ordering::Relaxed);
            TOTAL.fetch_add(l.size() as u64, Ordering::Relaxed);
        }
        p
    }
    unsafe fn realloc(&self, p: *mut u8, l: Layout, new_size: usize) -> *mut u8 {
        let cap = CAP.load(Ordering::Relaxed);
        if cap != 0 && new_size > cap {
            return std::ptr::null_mut();
        }
        let q = System.realloc(p, l, new_size);
        if !q.is_null() && TRACK.load(Ordering::Relaxed) {
            let d = new_size as i64 - l.size() as i64;
            let live = LIVE.fetch_add(d, Ordering::Relaxed) + d;
            PEAK.fetch_max(live, Ordering::Relaxed);
            if d > 0 {
                TOTAL.fetch_add(d as u64, Ordering::Relaxed);
            }
        }
        q
    }
}

/// Starts measuring: peak is reset to the current live volume.
pub fn alloc_begin() {
    LIVE.store(0, Ordering::Relaxed);
    PEAK.store(0, Ordering::Relaxed);
    TOTAL.store(0, Ordering::Relaxed);
    TRACK.store(true, Ordering::Relaxed);
}

/// Stops measuring; returns (peak bytes above the starting level, total bytes requested).
pub fn alloc_end() -> (u64, u64) {
    TRACK.store(false, Ordering::Relaxed);
    (PEAK.load(Ordering::Relaxed).max(0) as u64, TOTAL.load(Ordering::Relaxed))
}

pub fn set_alloc_cap(bytes: usize) {
    CAP.store(bytes, Ordering::Relaxed);
}

// ---------------------------------------------------------------- panics

#[derive(Clone, Debug)]
pub struct PanicInfo {
    pub message: String,
    pub file: String,
    pub line: u32,
    pub func: String,
}

impl PanicInfo {
    /// Signature used for known-finding matching: stable under line shifts.
    pub fn signature(&self) -> String {
        format!("panic | {} | {} | {}", short_file(&self.file), self.func, strip_numbers(&self.message))
    }
}

fn short_file(f: &str) -> String {
    match f.find("src/") {
        Some(i) => f[i..].to_string(),
        None => f.to_string(),
    }
}

pub fn strip_numbers(s: &str) -> String {
    let mut out = String::new();
    let mut in_num = false;
    for c in s.chars() {
        if c.is_ascii_digit() {
            if !in_num {
                out.push('N');
                in_num = true;
            }
        } else {
            in_num = false;
            out.push(c);
        }
    }
    if out.len() > 160 {
        out.truncate(160);
    }
    out
}

thread_local! {
    static LAST_PANIC: RefCell<Option<PanicInfo>> = const { RefCell::new(None) };
}

/// Scans the source file upward from the panic line for the enclosing `fn name`.
fn enclosing_fn(file: &str, line: u32) -> String {
    let text = match std::fs::read_to_string(file) {
        Ok(t) => t,
        Err(_) => match std::fs::read_to_string(format!("/repo/{}", short_file(file))) {
            Ok(t) => t,
            Err(_) => return "?".into(),
        },
    };
    let lines: Vec<&str> = text.lines().collect();
    let mut i = (line as usize).min(lines.len());
    while i > 0 {
        i -= 1;
        let l = lines[i].trim_start();
        if let Some(pos) = l.find("fn ") {
            let before = &l[..pos];
            if before.is_empty() || before.ends_with(' ') || before.ends_with('(') {
                let rest = &l[pos + 3..];
                let name: String = rest.chars().take_while(|c| c.is_alphanumeric() || *c == '_').collect();
                if !name.is_empty() && !l.starts_with("//") {
                    return name;
                }
            }
        }
    }
    "?".into()
}

pub fn enclosing_fn_pub(file: &str, line: u32) -> String {
    enclosing_fn(file, line)
}

pub fn install_panic_hook() {
    panic::set_hook(Box::new(|info| {
        let message = if let Some(s) = info.payload().downcast_ref::<&str>() {
            s.to_string()
        } else if let Some(s) = info.payload().downcast_ref::<String>() {
            s.clone()
        } else {
            "<non-string panic payload>".to_string()
        };
        let (file, line) = info.location().map(|l| (l.file().to_string(), l.line())).unwrap_or(("?".into(), 0));
        let func = enclosing_fn(&file, line);
        if std::env::var_os("CFBMON_TRACE").is_some() {
            eprintln!("  PANIC at {file}:{line} in {func}: {message}");
        }
        LAST_PANIC.with(|p| *p.borrow_mut() = Some(PanicInfo { message, file, line, func }));
    }));
}

/// Runs `f`, catching a panic and returning its description.
pub fn catch<R>(f: impl FnOnce() -> R) -> Result<R, PanicInfo> {
    LAST_PANIC.with(|p| *p.borrow_mut() = None);
    match panic::catch_unwind(panic::AssertUnwindSafe(f)) {
        Ok(r) => Ok(r),
        Err(_) => Err(LAST_PANIC.with(|p| p.borrow_mut().take()).unwrap_or(PanicInfo { message: "<panic without hook info>".into(), file: "?".into(), line: 0, func: "?".into() })),
    }
}

// ---------------------------------------------------------------- CPU time

/// utime+stime of the whole process in clock ticks (100 Hz).
pub fn process_cpu_ticks() -> u64 {
    let s = std::fs::read_to_string("/proc/self/stat").unwrap_or_default();
    parse_stat_ticks(&s)
}

fn parse_stat_ticks(s: &str) -> u64 {
    // fields after the ")" that ends comm: state is field 3; utime 14, stime 15
    if let Some(i) = s.rfind(')') {
        let f: Vec<&str> = s[i + 1..].split_whitespace().collect();
        if f.len() > 13 {
            return f[11].parse::<u64>().unwrap_or(0) + f[12].parse::<u64>().unwrap_or(0);
        }
    }
    0
}

pub fn cpu_seconds() -> f64 {
    process_cpu_ticks() as f64 / 100.0
}

// ---------------------------------------------------------------- watchdog

static CASE_ID: AtomicU64 = AtomicU64::new(u64::MAX);
static CASE_START_TICKS: AtomicU64 = AtomicU64::new(0);
static WD_BUDGET_TICKS: AtomicU64 = AtomicU64::new(0);

static HEARTBEAT: std::sync::OnceLock<std::fs::File> = std::sync::OnceLock::new();

/// Opens the heartbeat file: the id of the case being run is written there before the
/// case starts, so that the driver can attribute an abort / OOM / watchdog exit.
pub fn heartbeat_init(path: &str) {
    if let Ok(f) = std::fs::OpenOptions::new().create(true).write(true).truncate(true).open(path) {
        let _ = HEARTBEAT.set(f);
    }
}

/// Marks the start of a case (heartbeat for the watchdog and the driver).
pub fn case_begin(id: u64) {
    CASE_START_TICKS.store(process_cpu_ticks_cached(), Ordering::Relaxed);
    CASE_ID.store(id, Ordering::Relaxed);
    if let Some(f) = HEARTBEAT.get() {
        use std::os::unix::fs::FileExt;
        let _ = f.write_at(format!("{:020}\n", id).as_bytes(), 0);
    }
}

pub fn case_end() {
    CASE_ID.store(u64::MAX, Ordering::Relaxed);
}

static LAST_TICKS: AtomicU64 = AtomicU64::new(0);
fn process_cpu_ticks_cached() -> u64 {
    // refreshed by the watchdog thread every 50 ms; reading /proc per case would cost
    // more than the case itself
    LAST_TICKS.load(Ordering::Relaxed)
}

/// Starts the watchdog: if one case consumes more than `budget_s` seconds of process CPU
/// time, write `marker` (case id) and exit with status 97.
pub fn start_watchdog(budget_s: f64, marker: String) {
    WD_BUDGET_TICKS.store((budget_s * 100.0) as u64, Ordering::Relaxed);
    LAST_TICKS.store(process_cpu_ticks(), Ordering::Relaxed);
    std::thread::spawn(move || loop {
        std::thread::sleep(std::time::Duration::from_millis(50));
        let now = process_cpu_ticks();
        LAST_TICKS.store(now, Ordering::Relaxed);
        let id = CASE_ID.load(Ordering::Relaxed);
        if id != u64::MAX {
            let start = CASE_START_TICKS.load(Ordering::Relaxed);
            if now.saturating_sub(start) > WD_BUDGET_TICKS.load(Ordering::Relaxed) {
                // make sure it is still the same case
                if CASE_ID.load(Ordering::Relaxed) == id {
                    let _ = std::fs::write(&marker, format!("{id}\n"));
                    std::process::exit(97);
                }
            }
        }
    });
}

pub fn current_case() -> u64 {
    CASE_ID.load(Ordering::Relaxed)
}

// ---------------------------------------------------------------- lock discipline

use std::cell::RefCell as LockCell;

thread_local! {
    static LOCKS_HELD: LockCell<Vec<(usize, bool, &'static std::panic::Location<'static>)>> = const { LockCell::new(Vec::new()) };
}

/// Installs a thread-local lock-discipline observer on the crate's instrumented RwLock
/// (cfg cfb_verif) for the single-threaded workloads: a request that is *certain* to
/// block forever - any request while the same thread holds the write guard, or a write
/// request while it holds a read guard - panics here, before the real lock call blocks,
/// so that the defect is reported as a finding instead of stalling the worker at 0% CPU
/// (which no CPU-time watchdog would ever see).  The hot path only pushes and pops a
/// (lock id, kind, &Location) triple.
pub fn install_lock_discipline() {
    use cfb::verif::{set_lock_observer, LockKind, LockPhase};
    let _ = set_lock_observer(Box::new(|e| match e.phase {
        LockPhase::Request => {
            let conflict = LOCKS_HELD.with(|h| h.borrow().iter().find(|x| x.0 == e.lock_id && (x.1 || e.kind == LockKind::Write)).copied());
            if let Some((_, was_write, held)) = conflict {
                let name = |l: &std::panic::Location| format!("{}:{}", l.file().rsplit("src/").next().unwrap_or("?"), enclosing_fn(l.file(), l.line()));
                panic!("lock discipline: {:?} requested at {} while this thread holds the {} guard taken at {}: the call would block forever", e.kind, name(e.site), if was_write { "write" } else { "read" }, name(held));
            }
        }
        LockPhase::Granted => LOCKS_HELD.with(|h| h.borrow_mut().push((e.lock_id, e.kind == LockKind::Write, e.site))),
        LockPhase::Released => LOCKS_HELD.with(|h| {
            let mut h = h.borrow_mut();
            if let Some(p) = h.iter().rposition(|x| x.0 == e.lock_id && x.1 == (e.kind == LockKind::Write)) {
                h.remove(p);
            }
        }),
    }));
}

/// After a caught panic the guards were dropped by unwinding (Released events were
/// delivered), but be safe: forget whatever the thread-local still lists.
pub fn lock_discipline_reset() {
    LOCKS_HELD.with(|h| h.borrow_mut().clear());
}
