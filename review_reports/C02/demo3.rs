//! C02 demo 3: when the one write behind a metadata setter fails (the
//! backend returns Err once, which the Write contract allows), the call
//! returns Err but the change stays in the in-memory directory.  From then on
//! the live object exposes a state the bytes do not have, and the next
//! successful call on the same entry silently persists the "refused" change.
//!
//! Run with: cargo test --offline --test hunt_demo   (same in --release)
use std::io::{self, Cursor, Read, Seek, SeekFrom, Write};
use std::sync::atomic::{AtomicBool, Ordering};
use std::sync::{Arc, Mutex};

/// A `Cursor<Vec<u8>>` whose bytes can be looked at from outside at any time
/// (as a crash would leave them), and whose next write can be made to fail.
#[derive(Clone)]
struct Shared {
    cursor: Arc<Mutex<Cursor<Vec<u8>>>>,
    fail_next_write: Arc<AtomicBool>,
}
impl Shared {
    fn new() -> Shared {
        Shared {
            cursor: Arc::new(Mutex::new(Cursor::new(Vec::new()))),
            fail_next_write: Arc::new(AtomicBool::new(false)),
        }
    }
    fn image(&self) -> Vec<u8> {
        self.cursor.lock().unwrap().get_ref().clone()
    }
}
impl Read for Shared {
    fn read(&mut self, b: &mut [u8]) -> io::Result<usize> {
        self.cursor.lock().unwrap().read(b)
    }
}
impl Seek for Shared {
    fn seek(&mut self, p: SeekFrom) -> io::Result<u64> {
        self.cursor.lock().unwrap().seek(p)
    }
}
impl Write for Shared {
    fn write(&mut self, b: &[u8]) -> io::Result<usize> {
        if self.fail_next_write.swap(false, Ordering::SeqCst) {
            // Nothing is written; a plain, contract-abiding I/O error.
            return Err(io::Error::new(io::ErrorKind::Other, "disk hiccup"));
        }
        self.cursor.lock().unwrap().write(b)
    }
    fn flush(&mut self) -> io::Result<()> {
        Ok(())
    }
}

fn state_bits_in_bytes(bytes: &[u8], strict: bool, path: &str) -> u32 {
    let cursor = Cursor::new(bytes.to_vec());
    let comp = if strict {
        cfb::CompoundFile::open_strict(cursor)
    } else {
        cfb::CompoundFile::open(cursor)
    };
    comp.expect("reopen").entry(path).unwrap().state_bits()
}

#[test]
fn failed_setter_leaves_the_change_in_memory() {
    for version in [cfb::Version::V3, cfb::Version::V4] {
        let file = Shared::new();
        let mut comp =
            cfb::CompoundFile::create_with_version(version, file.clone())
                .unwrap();
        comp.create_storage("/b").unwrap();
        assert_eq!(comp.entry("/b").unwrap().state_bits(), 0);

        // One write fails; the call reports the failure.
        file.fail_next_write.store(true, Ordering::SeqCst);
        let result = comp.set_state_bits("/b", 0xdead);
        assert!(result.is_err(), "the injected error must be reported");
        let before = file.image();

        // Operation boundary: no stream handle exists at all.
        let live = comp.entry("/b").unwrap().state_bits();
        for strict in [false, true] {
            let reopened = state_bits_in_bytes(&before, strict, "/b");
            assert_eq!(
                reopened, live,
                "C02 requires the bytes to reopen to exactly the state the \
                 live object exposes: after set_state_bits returned Err, the \
                 live {:?} object says state_bits={:#x} but the bytes \
                 (strict={}) say {:#x}",
                version, live, strict, reopened
            );
        }
    }
}

/// The same defect seen from the other side: the refused change is written
/// out later by an unrelated successful call.
#[test]
fn refused_change_is_persisted_by_a_later_call() {
    let file = Shared::new();
    let mut comp = cfb::CompoundFile::create(file.clone()).unwrap();
    comp.create_storage("/b").unwrap();
    file.fail_next_write.store(true, Ordering::SeqCst);
    assert!(comp.set_state_bits("/b", 0xdead).is_err());
    assert_eq!(state_bits_in_bytes(&file.image(), true, "/b"), 0);
    // A different, successful call on the same entry.
    comp.set_storage_clsid("/b", uuid_nil()).unwrap();
    let persisted = state_bits_in_bytes(&file.image(), true, "/b");
    assert_eq!(
        persisted, 0,
        "set_state_bits returned Err and the bytes kept state_bits=0, so a \
         later set_storage_clsid must not change them; but the file now has \
         state_bits={:#x}",
        persisted
    );
}

fn uuid_nil() -> uuid::Uuid {
    uuid::Uuid::nil()
}
