//! C02 demo 1: a version-3 compound file accepts a stream of 4 GiB or more
//! (Ok from set_len / write / flush), but the directory entry it writes is
//! read back with the length masked to 32 bits, so the byte image reopens to
//! a different (empty / truncated) stream.
//!
//! Run with: cargo test --offline --release --test hunt_demo
//! (about 6 s and < 200 MB in release; a debug build needs about 70 s).
use std::collections::HashMap;
use std::io::{self, Read, Seek, SeekFrom, Write};
use std::sync::{Arc, Mutex};

const PAGE: u64 = 4096;

/// A sparse in-memory file: pages that were only ever written with zeros are
/// not stored.  It honours the Read/Write/Seek contracts exactly like a
/// `Cursor<Vec<u8>>` would, it just doesn't spend 4 GiB of RAM.
#[derive(Default)]
struct Store {
    pages: HashMap<u64, Box<[u8]>>,
    len: u64,
}

struct SparseFile {
    store: Arc<Mutex<Store>>,
    pos: u64,
}

impl SparseFile {
    fn new() -> SparseFile {
        SparseFile { store: Arc::new(Mutex::new(Store::default())), pos: 0 }
    }
    /// A second, independent handle on the same bytes (like opening the
    /// same file again).
    fn reopen(&self) -> SparseFile {
        SparseFile { store: self.store.clone(), pos: 0 }
    }
}

impl Read for SparseFile {
    fn read(&mut self, buf: &mut [u8]) -> io::Result<usize> {
        let store = self.store.lock().unwrap();
        if self.pos >= store.len || buf.is_empty() {
            return Ok(0);
        }
        let in_page = (self.pos % PAGE) as usize;
        let n = buf
            .len()
            .min(PAGE as usize - in_page)
            .min((store.len - self.pos) as usize);
        match store.pages.get(&(self.pos / PAGE)) {
            Some(page) => buf[..n].copy_from_slice(&page[in_page..in_page + n]),
            None => buf[..n].fill(0),
        }
        self.pos += n as u64;
        Ok(n)
    }
}

impl Write for SparseFile {
    fn write(&mut self, buf: &[u8]) -> io::Result<usize> {
        if buf.is_empty() {
            return Ok(0);
        }
        let mut store = self.store.lock().unwrap();
        let in_page = (self.pos % PAGE) as usize;
        let n = buf.len().min(PAGE as usize - in_page);
        let page_no = self.pos / PAGE;
        let all_zero = buf[..n].iter().all(|&b| b == 0);
        if !all_zero || store.pages.contains_key(&page_no) {
            let page = store
                .pages
                .entry(page_no)
                .or_insert_with(|| vec![0u8; PAGE as usize].into_boxed_slice());
            page[in_page..in_page + n].copy_from_slice(&buf[..n]);
        }
        self.pos += n as u64;
        if self.pos > store.len {
            store.len = self.pos;
        }
        Ok(n)
    }
    fn flush(&mut self) -> io::Result<()> {
        Ok(())
    }
}

impl Seek for SparseFile {
    fn seek(&mut self, pos: SeekFrom) -> io::Result<u64> {
        let len = self.store.lock().unwrap().len;
        let new = match pos {
            SeekFrom::Start(p) => p as i128,
            SeekFrom::End(d) => len as i128 + d as i128,
            SeekFrom::Current(d) => self.pos as i128 + d as i128,
        };
        if new < 0 || new > u64::MAX as i128 {
            return Err(io::Error::new(io::ErrorKind::InvalidInput, "bad seek"));
        }
        self.pos = new as u64;
        Ok(self.pos)
    }
}

#[test]
fn v3_stream_of_4gib_reopens_with_a_different_length() {
    const LEN: u64 = 1 << 32;
    let file = SparseFile::new();
    let mut comp =
        cfb::CompoundFile::create_with_version(cfb::Version::V3, file.reopen())
            .expect("create");
    let mut stream = comp.create_stream("/big").expect("create_stream");
    // Every call below returns Ok.
    stream.set_len(LEN).expect("set_len(4 GiB) on a version 3 file");
    stream.seek(SeekFrom::End(-4)).expect("seek");
    stream.write_all(b"TAIL").expect("write");
    stream.flush().expect("flush");
    drop(stream);

    // What the live object exposes.
    let live_len = comp.entry("/big").unwrap().len();
    assert_eq!(live_len, LEN);
    let mut tail = [0u8; 4];
    {
        let mut s = comp.open_stream("/big").unwrap();
        assert_eq!(s.len(), LEN);
        s.seek(SeekFrom::End(-4)).unwrap();
        s.read_exact(&mut tail).unwrap();
    }
    assert_eq!(&tail, b"TAIL");

    // What the bytes alone (no further call on `comp`) reopen to.
    for strict in [false, true] {
        let reopened = if strict {
            cfb::CompoundFile::open_strict(file.reopen())
        } else {
            cfb::CompoundFile::open(file.reopen())
        };
        let mut reopened = reopened.unwrap_or_else(|e| {
            panic!("C02 requires the image to reopen (strict={}): {}", strict, e)
        });
        let reopened_len = reopened.entry("/big").unwrap().len();
        assert_eq!(
            reopened_len, live_len,
            "C02 requires the byte image to reopen to the state the live \
             object exposed: live /big has {live_len} bytes (all calls \
             returned Ok), but the reopened file (strict={strict}) says \
             {reopened_len} bytes"
        );
        let mut s = reopened.open_stream("/big").unwrap();
        s.seek(SeekFrom::End(-4)).unwrap();
        let mut tail2 = [0u8; 4];
        s.read_exact(&mut tail2).unwrap();
        assert_eq!(&tail2, b"TAIL");
    }
}
