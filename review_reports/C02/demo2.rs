//! C02 demo 2: a `Stream` handle that outlives its stream (the stream was
//! removed and its directory slot reused by a new *storage*) is still accepted
//! for writing.  In a release build write()+flush() return Ok, overwrite the
//! data of an unrelated stream, and give the storage entry a stream length:
//! the live object then reports `/b` with 5 bytes, a permissive reopen of the
//! bytes reports 0, and a strict reopen refuses the file.  In a debug build
//! the same call panics on a debug_assert instead of returning an error.
//!
//! Run with: cargo test --offline --test hunt_demo            (panic variant)
//!           cargo test --offline --release --test hunt_demo  (corruption)
use std::io::{self, Cursor, Read, Seek, SeekFrom, Write};
use std::panic::{catch_unwind, AssertUnwindSafe};
use std::sync::{Arc, Mutex};

/// A `Cursor<Vec<u8>>` whose bytes can be looked at from outside at any time,
/// the way a crash of the process would leave them (no flush, no into_inner).
#[derive(Clone)]
struct Shared(Arc<Mutex<Cursor<Vec<u8>>>>);
impl Shared {
    fn new() -> Shared {
        Shared(Arc::new(Mutex::new(Cursor::new(Vec::new()))))
    }
    fn image(&self) -> Vec<u8> {
        self.0.lock().unwrap().get_ref().clone()
    }
}
impl Read for Shared {
    fn read(&mut self, b: &mut [u8]) -> io::Result<usize> {
        self.0.lock().unwrap().read(b)
    }
}
impl Seek for Shared {
    fn seek(&mut self, p: SeekFrom) -> io::Result<u64> {
        self.0.lock().unwrap().seek(p)
    }
}
impl Write for Shared {
    fn write(&mut self, b: &[u8]) -> io::Result<usize> {
        self.0.lock().unwrap().write(b)
    }
    fn flush(&mut self) -> io::Result<()> {
        Ok(())
    }
}

/// Everything the public API exposes: tree, metadata, stream contents.
fn snapshot<F: Read + Seek>(comp: &mut cfb::CompoundFile<F>) -> Vec<String> {
    let entries: Vec<cfb::Entry> = comp.walk().collect();
    let mut out = Vec::new();
    for e in entries {
        let mut line = format!(
            "{:?} is_stream={} len={} clsid={} state_bits={}",
            e.path(),
            e.is_stream(),
            e.len(),
            e.clsid(),
            e.state_bits()
        );
        if e.is_stream() {
            let mut data = Vec::new();
            let mut s = comp.open_stream(e.path()).unwrap();
            match s.read_to_end(&mut data) {
                Ok(_) => {
                    // (first bytes and a checksum are enough to compare)
                    let sum = data.iter().fold(0xcbf29ce484222325u64, |h, &b| {
                        (h ^ b as u64).wrapping_mul(0x100000001b3)
                    });
                    let head = &data[..data.len().min(8)];
                    line += &format!(" data starts {:?} fnv={:016x}", head, sum)
                }
                Err(err) => line += &format!(" read error: {}", err),
            }
        }
        out.push(line);
    }
    out
}

/// Compares the live object with what the bytes alone reopen to.
fn violations(
    tag: &str,
    file: &Shared,
    live: &mut cfb::CompoundFile<Shared>,
) -> Vec<String> {
    let mut found = Vec::new();
    let live_state = snapshot(live);
    let bytes = file.image();
    for strict in [false, true] {
        let reopened = if strict {
            cfb::CompoundFile::open_strict(Cursor::new(bytes.clone()))
        } else {
            cfb::CompoundFile::open(Cursor::new(bytes.clone()))
        };
        match reopened {
            Err(err) => found.push(format!(
                "{}: reopening the bytes (strict={}) failed: {}",
                tag, strict, err
            )),
            Ok(mut reopened) => {
                let state = snapshot(&mut reopened);
                if state != live_state {
                    found.push(format!(
                        "{}: reopened (strict={}) state differs\n   live:     {:?}\n   reopened: {:?}",
                        tag, strict, live_state, state
                    ));
                }
            }
        }
    }
    found
}

fn run(version: cfb::Version) -> Vec<String> {
    let file = Shared::new();
    let mut comp =
        cfb::CompoundFile::create_with_version(version, file.clone()).unwrap();
    let mut other = comp.create_stream("/other").unwrap();
    other.write_all(&[7u8; 100]).unwrap();
    other.flush().unwrap();
    drop(other);

    let mut handle = comp.create_stream("/a").unwrap();
    handle.flush().unwrap();
    comp.remove_stream("/a").unwrap();
    comp.create_storage("/b").unwrap(); // reuses the directory slot of /a

    let mut found = violations("before the stale write", &file, &mut comp);
    assert!(found.is_empty(), "{:#?}", found);

    // The handle's stream is gone.  The call may fail, but it must not
    // panic and must not change anything else.
    let outcome = catch_unwind(AssertUnwindSafe(|| {
        let w = handle.write_all(b"hello");
        let f = handle.flush();
        (w.map_err(|e| e.to_string()), f.map_err(|e| e.to_string()))
    }));
    match &outcome {
        Err(_) => found.push(format!(
            "{:?}: writing through the stale handle panicked instead of \
             returning an error",
            version
        )),
        Ok(results) => {
            println!("{:?}: stale write/flush returned {:?}", version, results)
        }
    }
    if outcome.is_err() {
        // The lock inside the CompoundFile is poisoned now; nothing more
        // can be checked on the live object.
        return found;
    }
    drop(handle);
    found.extend(violations(
        &format!("{:?}, after the stale write", version),
        &file,
        &mut comp,
    ));
    let mut data = Vec::new();
    comp.open_stream("/other").unwrap().read_to_end(&mut data).unwrap();
    if data != vec![7u8; 100] {
        found.push(format!(
            "{:?}: the unrelated stream /other was overwritten: starts with {:?}",
            version,
            &data[..8]
        ));
    }
    found
}

#[test]
fn stale_handle_on_a_reused_directory_slot() {
    let mut found = run(cfb::Version::V3);
    found.extend(run(cfb::Version::V4));
    assert!(
        found.is_empty(),
        "C02 requires that at every operation boundary the bytes reopen in \
         permissive and strict mode to exactly what the live object exposes \
         (and no call may panic); observed:\n - {}",
        found.join("\n - ")
    );
}
