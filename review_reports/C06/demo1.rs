//! C06: a failed read on a handle whose CompoundFile was dropped moves the
//! position (it must leave it unchanged), and the next position query panics
//! (debug) or reports a position beyond len() and a false end-of-stream
//! (release).
use std::io::{Cursor, Read, Seek, SeekFrom, Write};
use std::panic::{catch_unwind, AssertUnwindSafe};

fn run(version: cfb::Version) {
    // Build a file with one 2000-byte stream.
    let data: Vec<u8> = (0..2000u32).map(|i| (i % 251) as u8).collect();
    let mut comp =
        cfb::CompoundFile::create_with_version(version, Cursor::new(Vec::new()))
            .unwrap();
    comp.create_stream("/s").unwrap().write_all(&data).unwrap();
    let bytes = comp.into_inner().into_inner();

    // Reopen with the smallest buffer, so that the stream needs two windows.
    let mut comp = cfb::OpenOptions::new()
        .max_buffer_size(1024)
        .open_with(Cursor::new(bytes))
        .unwrap();
    let mut stream = comp.open_stream("/s").unwrap();
    let mut first = vec![0u8; 1024];
    stream.read_exact(&mut first).unwrap();
    assert_eq!(&first[..], &data[..1024]);
    assert_eq!(stream.stream_position().unwrap(), 1024);
    assert_eq!(stream.len(), 2000);

    // The handle outlives its CompoundFile: I/O must now fail cleanly.
    drop(comp);
    let mut one = [0u8; 1];
    let err = stream.read(&mut one).expect_err("read without a file");
    assert_eq!(err.to_string(), "CompoundFile was dropped");

    // A failed read must not move the cursor, and a position query must
    // return Ok or Err, never panic.
    let pos = catch_unwind(AssertUnwindSafe(|| {
        stream.seek(SeekFrom::Current(0))
    }));
    let pos = match pos {
        Ok(result) => result.expect("seek(Current(0)) is always in range"),
        Err(_) => panic!(
            "C06 requires every seek to yield Ok or Err; after a failed \
             read at position 1024 of a 2000-byte stream, \
             seek(SeekFrom::Current(0)) PANICKED ({:?})",
            version
        ),
    };
    assert!(
        pos == 1024 && pos <= stream.len(),
        "C06 requires a failed read to leave the position unchanged at 1024 \
         (len {}); observed position {} ({:?})",
        stream.len(),
        pos,
        version
    );
    // 0 may only be returned at the end of the stream.
    match stream.read(&mut one) {
        Err(_) => {}
        Ok(n) => panic!(
            "C06: read at position 1024 of 2000 returned Ok({}) although \
             the data cannot be read",
            n
        ),
    }
}

#[test]
fn failed_read_after_drop_keeps_position_v3() {
    run(cfb::Version::V3);
}

#[test]
fn failed_read_after_drop_keeps_position_v4() {
    run(cfb::Version::V4);
}
