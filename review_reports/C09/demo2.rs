// C09 demo 2: Entry::path() ("the full path to the object that this entry
// represents") is assembled from the caller's spelling of the path instead of
// from the stored names, so the same object is reported under different paths
// depending on which API / which letter case was used to reach it -- and
// walk_storage() even mixes both spellings inside one path.
use cfb::CompoundFile;
use std::io::Cursor;
use std::path::PathBuf;

#[test]
fn entry_paths_use_stored_names_whatever_case_was_used_to_look_them_up() {
    let mut cf = CompoundFile::create(Cursor::new(Vec::new())).unwrap();
    cf.create_storage("/foo").unwrap();
    cf.create_stream("/foo/bar").unwrap();

    // Reference: what a full walk reports (the verbatim stored names).
    let walked: Vec<PathBuf> =
        cf.walk().map(|e| e.path().to_path_buf()).collect();
    assert_eq!(
        walked,
        [PathBuf::from("/"), PathBuf::from("/foo"), PathBuf::from("/foo/bar")]
    );

    // The same two objects, reached through a letter-case variant.
    let e_foo = cf.entry("/FOO").unwrap();
    let e_bar = cf.entry("/FOO/BAR").unwrap();
    assert_eq!(e_foo.name(), "foo", "names are stored verbatim");
    assert_eq!(e_bar.name(), "bar", "names are stored verbatim");
    let via_entry = vec![e_foo.path().to_path_buf(), e_bar.path().to_path_buf()];
    let via_read_storage: Vec<PathBuf> = cf
        .read_storage("/FOO")
        .unwrap()
        .map(|e| e.path().to_path_buf())
        .collect();
    let via_walk_storage_parent: Vec<PathBuf> = cf
        .walk_storage("/FOO")
        .unwrap()
        .map(|e| e.path().to_path_buf())
        .collect();
    let via_walk_storage_leaf: Vec<PathBuf> = cf
        .walk_storage("/FOO/BAR")
        .unwrap()
        .map(|e| e.path().to_path_buf())
        .collect();

    let want_foo = PathBuf::from("/foo");
    let want_bar = PathBuf::from("/foo/bar");
    let ok = via_entry == [want_foo.clone(), want_bar.clone()]
        && via_read_storage == [want_bar.clone()]
        && via_walk_storage_parent == [want_foo.clone(), want_bar.clone()]
        && via_walk_storage_leaf == [want_bar.clone()];
    assert!(
        ok,
        "C09 requires names to be stored verbatim and paths to be normalised \
         consistently: an object found under a letter-case variant is the \
         same object, so Entry::path() must be /foo resp. /foo/bar (as \
         walk() reports, and with file_name() == Entry::name()).  Observed: \
         entry(\"/FOO\"), entry(\"/FOO/BAR\") -> {:?}; \
         read_storage(\"/FOO\") -> {:?}; walk_storage(\"/FOO\") -> {:?}; \
         walk_storage(\"/FOO/BAR\") -> {:?}",
        via_entry, via_read_storage, via_walk_storage_parent,
        via_walk_storage_leaf
    );
}
