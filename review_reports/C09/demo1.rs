// C09 demo 1: the open-time "name ordering" check only compares each directory
// entry with its two direct siblings, so a sibling tree that is NOT a search
// tree is accepted (even by open_strict).  On such a file a listed sibling
// cannot be found by name, the listing is not in CFB order, and a second
// sibling with an identical name can be created.
use cfb::{CompoundFile, Version};
use std::io::Cursor;

const NO_STREAM: u32 = 0xFFFF_FFFF;

fn u32_at(b: &[u8], off: usize) -> u32 {
    u32::from_le_bytes([b[off], b[off + 1], b[off + 2], b[off + 3]])
}

fn put_u32(b: &mut [u8], off: usize, v: u32) {
    b[off..off + 4].copy_from_slice(&v.to_le_bytes());
}

/// Offset of directory entry `id` (all entries used here live in the first
/// directory sector).
fn entry_off(b: &[u8], id: u32) -> usize {
    let sector_len = 1usize << u16::from_le_bytes([b[30], b[31]]);
    let dir_start = u32_at(b, 48) as usize;
    (dir_start + 1) * sector_len + 128 * id as usize
}

fn entry_name(b: &[u8], id: u32) -> String {
    let off = entry_off(b, id);
    let len_bytes = u16::from_le_bytes([b[off + 64], b[off + 65]]) as usize;
    let units: Vec<u16> = (0..(len_bytes / 2).saturating_sub(1))
        .map(|i| u16::from_le_bytes([b[off + 2 * i], b[off + 2 * i + 1]]))
        .collect();
    String::from_utf16(&units).unwrap()
}

#[test]
fn non_search_tree_is_accepted_and_breaks_name_lookup() {
    // Build  m            with the crate itself (three empty streams).
    //       / \
    //      f   z
    let mut cf =
        CompoundFile::create_with_version(Version::V3, Cursor::new(Vec::new()))
            .unwrap();
    for name in ["m", "f", "z"] {
        cf.create_stream(format!("/{name}")).unwrap();
    }
    cf.flush().unwrap();
    let mut bytes = cf.into_inner().into_inner();

    let id_of = |bytes: &[u8], name: &str| -> u32 {
        (1..4).find(|&id| entry_name(bytes, id) == name).unwrap()
    };
    let (m, f, z) = (id_of(&bytes, "m"), id_of(&bytes, "f"), id_of(&bytes, "z"));
    assert_eq!(u32_at(&bytes, entry_off(&bytes, 0) + 76), m, "root.child is m");
    assert_eq!(u32_at(&bytes, entry_off(&bytes, m) + 68), f, "m.left is f");
    assert_eq!(u32_at(&bytes, entry_off(&bytes, m) + 72), z, "m.right is z");

    // Move z from m's right link to f's right link:
    //        m        "z" now sits in the LEFT subtree of "m" although
    //       /         z > m.  Every direct link is still locally ordered
    //      f          (f < m, f < z), but this is not a search tree, which
    //       \         MS-CFB 2.6.4 requires ("left sibling < node < right
    //        z        sibling" for the whole subtree).
    let off_m_right = entry_off(&bytes, m) + 72;
    let off_f_right = entry_off(&bytes, f) + 72;
    put_u32(&mut bytes, off_m_right, NO_STREAM);
    put_u32(&mut bytes, off_f_right, z);

    let mut cf = match CompoundFile::open_strict(Cursor::new(bytes)) {
        // Rejecting the file is the acceptable outcome.
        Err(_) => return,
        Ok(cf) => cf,
    };

    let listed: Vec<String> =
        cf.read_root_storage().map(|e| e.name().to_string()).collect();
    let unfindable: Vec<&String> =
        listed.iter().filter(|n| !cf.exists(format!("/{n}"))).collect();
    let dup_created = cf.create_new_stream("/z").is_ok();
    let listed_after: Vec<String> =
        cf.read_root_storage().map(|e| e.name().to_string()).collect();

    assert!(
        unfindable.is_empty() && !dup_created && listed == ["f", "m", "z"],
        "C09 requires that every sibling stays findable by name, that a second \
         sibling with an equal name is refused, and that listings are in CFB \
         order (f, m, z); a file whose sibling tree is not a search tree must \
         therefore be rejected at open.  Observed: open_strict accepted it; \
         listing = {:?}; listed but not findable = {:?}; \
         create_new_stream(\"/z\") succeeded = {}; listing afterwards = {:?}",
        listed, unfindable, dup_created, listed_after
    );
}
