//! C16 demo 2: strict open accepts a DIFAT chain that is ended by the free
//! marker (FREESECT, 0xFFFFFFFF) when the marker sits in the header's "first
//! DIFAT sector" field, although the very same deviation is rejected one
//! link further down the chain (in a DIFAT sector's "next" field).

use cfb::{CompoundFile, Version};
use std::io::{Cursor, Read, Write};

fn sample(version: Version) -> Vec<u8> {
    let mut comp =
        CompoundFile::create_with_version(version, Cursor::new(Vec::new()))
            .unwrap();
    comp.create_storage("/st").unwrap();
    let mut s = comp.create_stream("/st/data").unwrap();
    s.write_all(&[7u8; 5000]).unwrap();
    drop(s);
    comp.flush().unwrap();
    comp.into_inner().into_inner()
}

fn content(mut comp: CompoundFile<Cursor<Vec<u8>>>) -> Vec<u8> {
    let mut out = Vec::new();
    comp.open_stream("/st/data").unwrap().read_to_end(&mut out).unwrap();
    out
}

#[test]
fn strict_open_must_reject_difat_chain_ended_by_free_marker_in_header() {
    for version in [Version::V3, Version::V4] {
        let valid = sample(version);
        // The writer's own output: no DIFAT sectors, chain head = ENDOFCHAIN.
        assert_eq!(&valid[68..72], &0xFFFF_FFFEu32.to_le_bytes());
        assert!(CompoundFile::open_strict(Cursor::new(valid.clone())).is_ok());

        // Inject the documented deviation at its first applicable place:
        // the (empty) DIFAT chain is ended by FREESECT instead of ENDOFCHAIN.
        let mut damaged = valid.clone();
        damaged[68..72].copy_from_slice(&0xFFFF_FFFFu32.to_le_bytes());

        // Permissive open tolerates it, with the same content (this holds).
        let perm = CompoundFile::open(Cursor::new(damaged.clone()))
            .expect("permissive open must tolerate FREESECT as DIFAT end");
        assert_eq!(content(perm), vec![7u8; 5000]);

        // Strict open must reject it.
        let strict = CompoundFile::open_strict(Cursor::new(damaged.clone()));
        assert!(
            strict.is_err(),
            "C16 requires: a DIFAT chain ended by the free marker \
             (header 'first DIFAT sector' = 0xFFFFFFFF instead of ENDOFCHAIN \
             0xFFFFFFFE, {:?}) is tolerated by permissive open but \
             REJECTED by strict open.  Observed: open_strict returned Ok",
            version
        );
    }
}
