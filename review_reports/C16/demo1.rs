//! C16 demo 1: a too-small "number of FAT sectors" field in the header (a
//! deviation the crate documents as tolerated by permissive open) makes
//! permissive open drop a genuine DIFAT entry that happens to be sector 0,
//! so the last FAT sector is silently forgotten and everything it describes
//! is lost.

use cfb::CompoundFile;
use std::io::{Cursor, Read};

const SECTOR: usize = 512;
const FREE: u32 = 0xFFFF_FFFF;
const EOC: u32 = 0xFFFF_FFFE;
const FATSECT: u32 = 0xFFFF_FFFD;
const DIFSECT: u32 = 0xFFFF_FFFC;
const NOSTREAM: u32 = 0xFFFF_FFFF;

const NUM_FAT: usize = 236; // 109 in the header + one completely full DIFAT sector
const NUM_SECTORS: usize = 30100; // 235*128 < 30100 <= 236*128
const DIFAT_SECTOR: usize = 236;
const DIR_SECTOR: usize = 237;
const BIG_START: usize = 30090; // lives in the range of the 236th FAT sector
const BIG_SECTORS: usize = 8; // 4096 bytes -> regular (not mini) stream

fn put32(buf: &mut [u8], off: usize, v: u32) {
    buf[off..off + 4].copy_from_slice(&v.to_le_bytes());
}

fn sector_off(id: usize) -> usize {
    (id + 1) * SECTOR
}

fn dir_entry(
    name: &str,
    obj_type: u8,
    child: u32,
    start: u32,
    len: u64,
) -> [u8; 128] {
    let mut e = [0u8; 128];
    let units: Vec<u16> = name.encode_utf16().collect();
    for (i, u) in units.iter().enumerate() {
        e[2 * i..2 * i + 2].copy_from_slice(&u.to_le_bytes());
    }
    let nlen = if obj_type == 0 { 0 } else { (units.len() as u16 + 1) * 2 };
    e[64..66].copy_from_slice(&nlen.to_le_bytes());
    e[66] = obj_type;
    e[67] = if obj_type == 0 { 0 } else { 1 }; // black
    put32(&mut e, 68, NOSTREAM);
    put32(&mut e, 72, NOSTREAM);
    put32(&mut e, 76, child);
    put32(&mut e, 116, start);
    e[120..128].copy_from_slice(&len.to_le_bytes());
    e
}

fn big_content() -> Vec<u8> {
    (0..BIG_SECTORS * SECTOR).map(|i| (i * 7 + 3) as u8).collect()
}

/// A valid version-3 file.  Layout: sector 0 is the LAST FAT sector (DIFAT
/// index 235, FAT entries 30080..30207), sectors 1..=235 are FAT sectors
/// with DIFAT indices 0..=234, sector 236 is the (full) DIFAT sector, sector
/// 237 the directory, sectors 30090..30097 hold the stream "big".
fn build_valid() -> Vec<u8> {
    let mut f = vec![0u8; (NUM_SECTORS + 1) * SECTOR];
    // --- header ---
    f[0..8].copy_from_slice(&[0xD0, 0xCF, 0x11, 0xE0, 0xA1, 0xB1, 0x1A, 0xE1]);
    f[24..26].copy_from_slice(&0x003Eu16.to_le_bytes());
    f[26..28].copy_from_slice(&3u16.to_le_bytes());
    f[28..30].copy_from_slice(&0xFFFEu16.to_le_bytes());
    f[30..32].copy_from_slice(&9u16.to_le_bytes());
    f[32..34].copy_from_slice(&6u16.to_le_bytes());
    put32(&mut f, 40, 0); // dir sectors (v3: 0)
    put32(&mut f, 44, NUM_FAT as u32);
    put32(&mut f, 48, DIR_SECTOR as u32);
    put32(&mut f, 56, 4096);
    put32(&mut f, 60, EOC); // first minifat
    put32(&mut f, 64, 0);
    put32(&mut f, 68, DIFAT_SECTOR as u32);
    put32(&mut f, 72, 1);
    // DIFAT index i (0..=234) -> sector i+1 ; DIFAT index 235 -> sector 0
    let difat: Vec<u32> =
        (0..NUM_FAT).map(|i| if i == 235 { 0 } else { i as u32 + 1 }).collect();
    for i in 0..109 {
        put32(&mut f, 76 + 4 * i, difat[i]);
    }
    let d = sector_off(DIFAT_SECTOR);
    for i in 0..127 {
        put32(&mut f, d + 4 * i, difat[109 + i]);
    }
    put32(&mut f, d + 4 * 127, EOC);
    // --- FAT ---
    let mut fat = vec![FREE; NUM_FAT * 128];
    for s in 0..NUM_FAT {
        fat[s] = FATSECT;
    }
    fat[DIFAT_SECTOR] = DIFSECT;
    fat[DIR_SECTOR] = EOC;
    for k in 0..BIG_SECTORS {
        fat[BIG_START + k] =
            if k + 1 == BIG_SECTORS { EOC } else { (BIG_START + k + 1) as u32 };
    }
    for (idx, &fat_sector) in difat.iter().enumerate() {
        let off = sector_off(fat_sector as usize);
        for j in 0..128 {
            put32(&mut f, off + 4 * j, fat[idx * 128 + j]);
        }
    }
    // --- directory ---
    let o = sector_off(DIR_SECTOR);
    f[o..o + 128].copy_from_slice(&dir_entry("Root Entry", 5, 1, EOC, 0));
    f[o + 128..o + 256].copy_from_slice(&dir_entry(
        "big",
        2,
        NOSTREAM,
        BIG_START as u32,
        (BIG_SECTORS * SECTOR) as u64,
    ));
    f[o + 256..o + 384].copy_from_slice(&dir_entry("", 0, NOSTREAM, 0, 0));
    f[o + 384..o + 512].copy_from_slice(&dir_entry("", 0, NOSTREAM, 0, 0));
    // --- stream data ---
    let data = big_content();
    let o = sector_off(BIG_START);
    f[o..o + data.len()].copy_from_slice(&data);
    f
}

fn read_big_permissive(bytes: &[u8]) -> Result<Vec<u8>, String> {
    let mut comp = CompoundFile::open(Cursor::new(bytes.to_vec()))
        .map_err(|e| format!("permissive open failed: {e}"))?;
    let mut s = comp
        .open_stream("/big")
        .map_err(|e| format!("open_stream(/big) failed: {e}"))?;
    let mut out = Vec::new();
    s.read_to_end(&mut out)
        .map_err(|e| format!("read_to_end(/big) failed: {e}"))?;
    Ok(out)
}

#[test]
fn too_small_fat_sector_count_must_not_change_the_meaning() {
    let valid = build_valid();

    // The undamaged file is valid: strict open accepts it, and both modes
    // agree on the content.
    {
        let mut comp = CompoundFile::open_strict(Cursor::new(valid.clone()))
            .expect("the undamaged file must be accepted by strict open");
        let mut out = Vec::new();
        comp.open_stream("/big").unwrap().read_to_end(&mut out).unwrap();
        assert_eq!(out, big_content());
    }
    assert_eq!(read_big_permissive(&valid), Ok(big_content()));

    // Control: a TOO LARGE count is tolerated correctly.
    let mut too_large = valid.clone();
    put32(&mut too_large, 44, 1000);
    assert!(CompoundFile::open_strict(Cursor::new(too_large.clone())).is_err());
    assert_eq!(read_big_permissive(&too_large), Ok(big_content()));

    // The documented deviation "wrong FAT sector count in the header",
    // injected alone: 235 (or 109, or 0) instead of 236.
    for wrong in [235u32, 109, 0] {
        let mut damaged = valid.clone();
        put32(&mut damaged, 44, wrong);
        assert!(
            CompoundFile::open_strict(Cursor::new(damaged.clone())).is_err(),
            "strict open must reject a wrong FAT sector count"
        );
        let got = read_big_permissive(&damaged);
        assert!(
            got == Ok(big_content()),
            "C16 requires: a wrong FAT sector count in the header ({wrong} \
             instead of 236) is accepted by permissive open with the same \
             logical content as the undamaged file (stream /big = 4096 known \
             bytes).  Observed: {}",
            match &got {
                Ok(v) => format!("different content ({} bytes)", v.len()),
                Err(e) => e.clone(),
            }
        );
    }
}
