//! C04 demo 1: a zero-length mini stream owns no sectors, but the crate
//! follows the root entry's starting-sector field anyway and writes the first
//! mini sector into a sector that belongs to another stream.
//!
//! The image below is built by hand, the way another writer could lay it out:
//! stream data first (sectors 0..n), then the directory sector, then the FAT
//! sector.  There is no mini stream (root stream size 0, no MiniFAT), and the
//! root entry's starting-sector field is simply zero-initialised.  MS-CFB
//! 2.6.1 constrains that field only "if the mini stream exists".

use cfb::{CompoundFile, Version};
use std::io::{Cursor, Read, Write};

const END_OF_CHAIN: u32 = 0xFFFF_FFFE;
const FREE_SECTOR: u32 = 0xFFFF_FFFF;
const FAT_SECTOR: u32 = 0xFFFF_FFFD;
const NO_STREAM: u32 = 0xFFFF_FFFF;
const BIG_LEN: usize = 8192;

fn put16(b: &mut [u8], off: usize, v: u16) {
    b[off..off + 2].copy_from_slice(&v.to_le_bytes());
}
fn put32(b: &mut [u8], off: usize, v: u32) {
    b[off..off + 4].copy_from_slice(&v.to_le_bytes());
}
fn put64(b: &mut [u8], off: usize, v: u64) {
    b[off..off + 8].copy_from_slice(&v.to_le_bytes());
}

fn dir_entry(
    name: &str,
    obj_type: u8,
    child: u32,
    start: u32,
    size: u64,
) -> [u8; 128] {
    let mut e = [0u8; 128];
    let units: Vec<u16> = name.encode_utf16().collect();
    for (i, u) in units.iter().enumerate() {
        put16(&mut e, 2 * i, *u);
    }
    if obj_type != 0 {
        put16(&mut e, 64, 2 * (units.len() as u16 + 1));
    }
    e[66] = obj_type;
    e[67] = if obj_type == 0 { 0 } else { 1 }; // black
    put32(&mut e, 68, NO_STREAM);
    put32(&mut e, 72, NO_STREAM);
    put32(&mut e, 76, child);
    put32(&mut e, 116, start);
    put64(&mut e, 120, size);
    e
}

fn big_content() -> Vec<u8> {
    (0..BIG_LEN).map(|i| (i % 251) as u8 + 1).collect()
}

/// Another writer's layout: data sectors first, then directory, then FAT.
fn foreign_image(version: Version, root_start_field: u32) -> Vec<u8> {
    let (sector_len, shift, major) = match version {
        Version::V3 => (512usize, 9u16, 3u16),
        Version::V4 => (4096usize, 12u16, 4u16),
    };
    let n_data = BIG_LEN / sector_len;
    let dir_sector = n_data as u32;
    let fat_sector = n_data as u32 + 1;
    let mut img = vec![0u8; sector_len * (1 + n_data + 2)];
    // Header.
    img[0..8].copy_from_slice(&[0xD0, 0xCF, 0x11, 0xE0, 0xA1, 0xB1, 0x1A, 0xE1]);
    put16(&mut img, 24, 0x3E);
    put16(&mut img, 26, major);
    put16(&mut img, 28, 0xFFFE);
    put16(&mut img, 30, shift);
    put16(&mut img, 32, 6);
    put32(&mut img, 40, if major == 4 { 1 } else { 0 }); // dir sectors
    put32(&mut img, 44, 1); // FAT sectors
    put32(&mut img, 48, dir_sector);
    put32(&mut img, 56, 4096); // mini stream cutoff
    put32(&mut img, 60, END_OF_CHAIN); // first MiniFAT sector
    put32(&mut img, 64, 0); // number of MiniFAT sectors
    put32(&mut img, 68, END_OF_CHAIN); // first DIFAT sector
    put32(&mut img, 72, 0); // number of DIFAT sectors
    for i in 0..109 {
        put32(&mut img, 76 + 4 * i, FREE_SECTOR);
    }
    put32(&mut img, 76, fat_sector);
    // Stream data in sectors 0..n_data.
    let big = big_content();
    img[sector_len..sector_len + BIG_LEN].copy_from_slice(&big);
    // Directory sector.
    let dir_off = sector_len * (1 + dir_sector as usize);
    let root = dir_entry("Root Entry", 5, 1, root_start_field, 0);
    let stream = dir_entry("big", 2, NO_STREAM, 0, BIG_LEN as u64);
    img[dir_off..dir_off + 128].copy_from_slice(&root);
    img[dir_off + 128..dir_off + 256].copy_from_slice(&stream);
    for i in 2..(sector_len / 128) {
        let free = dir_entry("", 0, NO_STREAM, 0, 0);
        img[dir_off + 128 * i..dir_off + 128 * (i + 1)].copy_from_slice(&free);
    }
    // FAT sector.
    let fat_off = sector_len * (1 + fat_sector as usize);
    for i in 0..(sector_len / 4) {
        put32(&mut img, fat_off + 4 * i, FREE_SECTOR);
    }
    for i in 0..n_data {
        let next =
            if i + 1 == n_data { END_OF_CHAIN } else { i as u32 + 1 };
        put32(&mut img, fat_off + 4 * i, next);
    }
    put32(&mut img, fat_off + 4 * dir_sector as usize, END_OF_CHAIN);
    put32(&mut img, fat_off + 4 * fat_sector as usize, FAT_SECTOR);
    img
}

fn read_big<F: Read + std::io::Seek>(cf: &mut CompoundFile<F>) -> Vec<u8> {
    let mut data = Vec::new();
    cf.open_stream("/big").unwrap().read_to_end(&mut data).unwrap();
    data
}

fn check(version: Version) {
    let big = big_content();
    let image = foreign_image(version, 0);

    // The file is accepted in both modes and reads back correctly.
    let mut strict = CompoundFile::open_strict(Cursor::new(image.clone()))
        .expect("strict open of the foreign layout");
    assert_eq!(read_big(&mut strict), big);
    assert_eq!(strict.root_entry().len(), 0);
    let mut cf = CompoundFile::open(Cursor::new(image))
        .expect("permissive open of the foreign layout");
    assert_eq!(read_big(&mut cf), big);

    // Mutate it: add one small stream.
    let result = (|| -> std::io::Result<()> {
        let mut note = cf.create_stream("/note")?;
        note.write_all(b"hello world")?;
        note.flush()
    })();
    assert!(result.is_ok(), "creating a small stream failed: {:?}", result);

    // C04 (and C01-C03 after mutation): every other stream keeps its bytes.
    let after = read_big(&mut cf);
    assert!(
        after == big,
        "{:?}: required: /big keeps its {} bytes after /note was created \
         (the mini stream had length 0, so it owned no sector and a new \
         chain had to be allocated for it); observed: /big now starts with \
         {:?} instead of {:?} - the first mini sector was written into \
         sector 0, which belongs to /big, because the root entry's \
         starting-sector field (0, meaningless while the mini stream is \
         empty) was followed",
        version,
        big.len(),
        String::from_utf8_lossy(&after[..11]),
        &big[..11],
    );
}

#[test]
fn small_stream_in_file_without_mini_stream_v3() {
    check(Version::V3);
}

#[test]
fn small_stream_in_file_without_mini_stream_v4() {
    check(Version::V4);
}
