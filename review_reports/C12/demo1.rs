// C12 demo 1: a failed refill (the CompoundFile behind the handle is gone)
// leaves the Stream handle with its window offset advanced but the old window
// still in the buffer.  Later calls on the same handle then return Ok with a
// wrong position, a false end-of-stream, or bytes of a different part of the
// stream.
use std::io::{Cursor, Read, Seek, SeekFrom, Write};

const LEN: usize = 3000;
const WINDOW: usize = 1024; // smallest (and here configured) buffer size

fn content() -> Vec<u8> {
    (0..LEN).map(|i| (i % 251) as u8 ^ ((i / 251) as u8)).collect()
}

fn image() -> Vec<u8> {
    let mut comp = cfb::CompoundFile::create(Cursor::new(Vec::new())).unwrap();
    let mut s = comp.create_stream("/data").unwrap();
    s.write_all(&content()).unwrap();
    drop(s);
    comp.flush().unwrap();
    comp.into_inner().into_inner()
}

/// Opens the file read-only, reads the first window through the handle and
/// then loses the CompoundFile (`into_inner` with a live handle).
fn handle_after_parent_is_gone() -> cfb::Stream<Cursor<Vec<u8>>> {
    let mut comp = cfb::OpenOptions::new()
        .max_buffer_size(WINDOW)
        .open_with(Cursor::new(image()))
        .unwrap();
    let mut s = comp.open_stream("/data").unwrap();
    let mut first = vec![0u8; WINDOW];
    s.read_exact(&mut first).unwrap();
    assert_eq!(first, &content()[..WINDOW]);
    assert_eq!(s.stream_position().unwrap(), WINDOW as u64);
    let _file = comp.into_inner();
    s
}

#[test]
fn failed_read_must_not_move_the_position() {
    let mut s = handle_after_parent_is_gone();
    let mut buf = [0u8; 16];
    let err = s.read(&mut buf);
    assert!(err.is_err(), "read needs the file, which is gone: {:?}", err);
    let pos = s.stream_position().unwrap();
    assert_eq!(
        pos, WINDOW as u64,
        "C12: a failed call must leave the handle usable and truthful; the \
         position was {} before the failed read and nothing was delivered, \
         but stream_position() now says {}",
        WINDOW, pos
    );
}

#[test]
fn failed_reads_must_not_turn_into_end_of_stream() {
    let mut s = handle_after_parent_is_gone();
    let mut buf = [0u8; 16];
    for attempt in 1..=4 {
        match s.read(&mut buf) {
            Err(_) => {}
            Ok(n) => {
                assert!(
                    n > 0,
                    "C12: every call must fail or return what it returns \
                     without the failure; retry #{} returned Ok(0) = end of \
                     stream although only {} of {} bytes were ever delivered",
                    attempt, WINDOW, LEN
                );
                assert_eq!(&buf[..n], &content()[WINDOW..WINDOW + n]);
                return;
            }
        }
    }
}

#[test]
fn handle_must_not_yield_wrong_bytes_after_a_failed_read() {
    let mut s = handle_after_parent_is_gone();
    let mut buf = [0u8; 16];
    assert!(s.read(&mut buf).is_err());
    // Go (back) to where the handle really is: byte 1024.
    let pos = s.seek(SeekFrom::Start(WINDOW as u64)).unwrap();
    assert_eq!(pos, WINDOW as u64);
    match s.read(&mut buf) {
        Err(_) => {} // fine: the file is gone
        Ok(n) => {
            let truth = &content()[WINDOW..WINDOW + n];
            assert_eq!(
                &buf[..n], truth,
                "C12: after a failed call the handle must never yield bytes \
                 that differ from the stream's true content; read at offset \
                 {} returned Ok({}) with the bytes of offset 0 ({:?})",
                WINDOW, n, &content()[..n]
            );
        }
    }
}
