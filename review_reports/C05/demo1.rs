// C05 demo 1: walking (or listing) the entries of a crafted file needs memory
// that grows with the SQUARE of the input size.
//
// The file is accepted by `open_strict`.  Its directory is a chain of H nested
// storages; the innermost storage has H children that are linked through
// their left-sibling fields only (a degenerate but correctly ordered tree).
// `Entries::stack_left_spine` pushes one *owned copy* of the parent path
// (about 32*H bytes) per sibling, so H copies are alive at the same time:
// 32*H*H bytes for an input of 256*H bytes.
//
// Nothing is collected by the test: it only calls `next()` and drops each
// entry immediately.

use std::alloc::{GlobalAlloc, Layout, System};
use std::io::Cursor;
use std::sync::atomic::{AtomicUsize, Ordering};

struct Counting;
static LIVE: AtomicUsize = AtomicUsize::new(0);
static PEAK: AtomicUsize = AtomicUsize::new(0);

fn add(n: usize) {
    let now = LIVE.fetch_add(n, Ordering::Relaxed) + n;
    PEAK.fetch_max(now, Ordering::Relaxed);
}

unsafe impl GlobalAlloc for Counting {
    unsafe fn alloc(&self, l: Layout) -> *mut u8 {
        let p = System.alloc(l);
        if !p.is_null() {
            add(l.size());
        }
        p
    }
    unsafe fn dealloc(&self, p: *mut u8, l: Layout) {
        System.dealloc(p, l);
        LIVE.fetch_sub(l.size(), Ordering::Relaxed);
    }
    unsafe fn realloc(&self, p: *mut u8, l: Layout, new: usize) -> *mut u8 {
        let q = System.realloc(p, l, new);
        if !q.is_null() {
            if new >= l.size() {
                add(new - l.size());
            } else {
                LIVE.fetch_sub(l.size() - new, Ordering::Relaxed);
            }
        }
        q
    }
}

#[global_allocator]
static A: Counting = Counting;

const END_OF_CHAIN: u32 = 0xffff_fffe;
const FAT_SECTOR: u32 = 0xffff_fffd;
const FREE: u32 = 0xffff_ffff;
const NO_STREAM: u32 = 0xffff_ffff;

fn dir_entry(
    name: &str,
    obj_type: u8,
    left: u32,
    child: u32,
    start: u32,
) -> Vec<u8> {
    let mut e = Vec::with_capacity(128);
    let units: Vec<u16> = name.encode_utf16().collect();
    assert!(units.len() <= 31);
    for i in 0..32 {
        let u = units.get(i).copied().unwrap_or(0);
        e.extend_from_slice(&u.to_le_bytes());
    }
    e.extend_from_slice(&(((units.len() + 1) * 2) as u16).to_le_bytes());
    e.push(obj_type);
    e.push(1); // black
    e.extend_from_slice(&left.to_le_bytes());
    e.extend_from_slice(&NO_STREAM.to_le_bytes()); // right sibling
    e.extend_from_slice(&child.to_le_bytes());
    e.extend_from_slice(&[0u8; 16]); // clsid
    e.extend_from_slice(&0u32.to_le_bytes()); // state bits
    e.extend_from_slice(&0u64.to_le_bytes()); // created
    e.extend_from_slice(&0u64.to_le_bytes()); // modified
    e.extend_from_slice(&start.to_le_bytes());
    e.extend_from_slice(&0u64.to_le_bytes()); // stream length
    assert_eq!(e.len(), 128);
    e
}

/// A version 3 file with `num_entries` directory entries (a multiple of 4).
fn build(num_entries: u32) -> Vec<u8> {
    assert_eq!(num_entries % 4, 0);
    let nd = num_entries / 4; // directory sectors
    let mut nf = 1u32; // FAT sectors
    while nf * 128 < nf + nd {
        nf += 1;
    }
    assert!(nf <= 109);
    let mut f = Vec::new();
    // Header.
    f.extend_from_slice(&[0xd0, 0xcf, 0x11, 0xe0, 0xa1, 0xb1, 0x1a, 0xe1]);
    f.extend_from_slice(&[0u8; 16]);
    f.extend_from_slice(&0x3eu16.to_le_bytes());
    f.extend_from_slice(&3u16.to_le_bytes());
    f.extend_from_slice(&0xfffeu16.to_le_bytes());
    f.extend_from_slice(&9u16.to_le_bytes());
    f.extend_from_slice(&6u16.to_le_bytes());
    f.extend_from_slice(&[0u8; 6]);
    f.extend_from_slice(&0u32.to_le_bytes()); // dir sectors (0 in v3)
    f.extend_from_slice(&nf.to_le_bytes()); // FAT sectors
    f.extend_from_slice(&nf.to_le_bytes()); // first dir sector
    f.extend_from_slice(&0u32.to_le_bytes()); // transaction signature
    f.extend_from_slice(&4096u32.to_le_bytes()); // mini stream cutoff
    f.extend_from_slice(&END_OF_CHAIN.to_le_bytes()); // first MiniFAT sector
    f.extend_from_slice(&0u32.to_le_bytes()); // MiniFAT sectors
    f.extend_from_slice(&END_OF_CHAIN.to_le_bytes()); // first DIFAT sector
    f.extend_from_slice(&0u32.to_le_bytes()); // DIFAT sectors
    for i in 0..109u32 {
        let v = if i < nf { i } else { FREE };
        f.extend_from_slice(&v.to_le_bytes());
    }
    assert_eq!(f.len(), 512);
    // FAT.
    for i in 0..nf * 128 {
        let v = if i < nf {
            FAT_SECTOR
        } else if i < nf + nd - 1 {
            i + 1
        } else if i == nf + nd - 1 {
            END_OF_CHAIN
        } else {
            FREE
        };
        f.extend_from_slice(&v.to_le_bytes());
    }
    // Directory: entry 0 is the root, entries 1..=h are nested storages,
    // entries h+1.. are the children of storage h, each one the left sibling
    // of the one before (names descend, as the ordering rule demands).
    let h = num_entries / 2;
    f.extend_from_slice(&dir_entry("Root Entry", 5, NO_STREAM, 1, END_OF_CHAIN));
    for i in 1..=h {
        let name = format!("s{:030}", i);
        f.extend_from_slice(&dir_entry(&name, 1, NO_STREAM, i + 1, 0));
    }
    for j in h + 1..num_entries {
        let name = format!("{:031}", num_entries - j);
        let left = if j + 1 < num_entries { j + 1 } else { NO_STREAM };
        f.extend_from_slice(&dir_entry(&name, 2, left, NO_STREAM, END_OF_CHAIN));
    }
    assert_eq!(f.len() as u32, 512 * (1 + nf + nd));
    f
}

/// Opens the file strictly, walks it without keeping anything, and returns
/// (input length, number of entries seen, peak extra heap bytes).
fn measure(num_entries: u32) -> (usize, usize, usize) {
    let bytes = build(num_entries);
    let input_len = bytes.len();
    let baseline = LIVE.load(Ordering::Relaxed);
    PEAK.store(baseline, Ordering::Relaxed);
    let comp = cfb::CompoundFile::open_strict(Cursor::new(bytes))
        .expect("the crafted file passes strict validation");
    let mut seen = 0usize;
    for entry in comp.walk() {
        seen += entry.name().len().min(1);
    }
    let peak = PEAK.load(Ordering::Relaxed) - baseline;
    drop(comp);
    (input_len, seen, peak)
}

#[test]
fn walking_needs_memory_proportional_to_the_input() {
    let (len1, seen1, peak1) = measure(2048);
    let (len2, seen2, peak2) = measure(4096);
    let (len3, seen3, peak3) = measure(8192);
    assert_eq!((seen1, seen2, seen3), (2048, 4096, 8192));
    eprintln!(
        "input {} B -> peak {} B ({}x)\ninput {} B -> peak {} B ({}x)\n\
         input {} B -> peak {} B ({}x)",
        len1,
        peak1,
        peak1 / len1,
        len2,
        peak2,
        peak2 / len2,
        len3,
        peak3,
        peak3 / len3
    );
    // C05 requires memory proportional to the input.  The in-memory FAT and
    // directory take a few times the input size; 32x is already generous.
    assert!(
        peak3 <= 32 * len3,
        "C05 requires walk() to stay within memory proportional to the input, \
         but a {} byte file (accepted by open_strict) made walk() hold {} \
         bytes of heap ({}x the input); doubling the input twice multiplied \
         the peak by {} (quadratic growth: {} B, {} B, {} B)",
        len3,
        peak3,
        peak3 / len3,
        peak3 / peak1.max(1),
        peak1,
        peak2,
        peak3
    );
}
