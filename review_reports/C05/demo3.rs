// C05 demo 3: `CompoundFile::into_inner` panics ("entered unreachable code")
// when another thread is in the middle of a read on a `Stream` of that file.
//
// A `Stream` keeps only a `Weak` reference to the shared state, but every
// read upgrades it to a strong `Arc` for the duration of the call.
// `into_inner` assumes that no other strong reference can exist and hits
// `unreachable!()` when `Arc::try_unwrap` fails.
//
// The schedule is made deterministic with a backend whose `read` waits at a
// gate (a slow disk or network file does the same without any gate).  The
// backend honours the Read/Seek contracts.

use std::io::{self, Cursor, Read, Seek, SeekFrom, Write};
use std::panic::{catch_unwind, AssertUnwindSafe};
use std::sync::{Arc, Condvar, Mutex};
use std::thread;

#[derive(Default)]
struct GateState {
    armed: bool,
    reader_is_inside: bool,
    released: bool,
}

#[derive(Clone, Default)]
struct Gate(Arc<(Mutex<GateState>, Condvar)>);

impl Gate {
    fn arm(&self) {
        self.0 .0.lock().unwrap().armed = true;
    }
    fn wait_until_reader_is_inside(&self) {
        let mut state = self.0 .0.lock().unwrap();
        while !state.reader_is_inside {
            state = self.0 .1.wait(state).unwrap();
        }
    }
    fn release(&self) {
        self.0 .0.lock().unwrap().released = true;
        self.0 .1.notify_all();
    }
    fn pass(&self) {
        let mut state = self.0 .0.lock().unwrap();
        if state.armed {
            state.reader_is_inside = true;
            self.0 .1.notify_all();
            while !state.released {
                state = self.0 .1.wait(state).unwrap();
            }
        }
    }
}

struct SlowFile {
    inner: Cursor<Vec<u8>>,
    gate: Gate,
}

impl Read for SlowFile {
    fn read(&mut self, buf: &mut [u8]) -> io::Result<usize> {
        self.gate.pass();
        self.inner.read(buf)
    }
}

impl Seek for SlowFile {
    fn seek(&mut self, pos: SeekFrom) -> io::Result<u64> {
        self.inner.seek(pos)
    }
}

#[test]
fn into_inner_while_another_thread_reads_does_not_panic() {
    // A well-formed file with one 10000 byte stream, written by the crate.
    let bytes = {
        let mut comp =
            cfb::CompoundFile::create(Cursor::new(Vec::new())).unwrap();
        let mut stream = comp.create_stream("/big").unwrap();
        stream.write_all(&[0x5a; 10_000]).unwrap();
        drop(stream);
        comp.flush().unwrap();
        comp.into_inner().into_inner()
    };
    cfb::CompoundFile::open_strict(Cursor::new(bytes.clone())).unwrap();

    let gate = Gate::default();
    let file = SlowFile { inner: Cursor::new(bytes), gate: gate.clone() };
    let mut comp = cfb::CompoundFile::open(file).unwrap();
    let mut stream = comp.open_stream("/big").unwrap();

    // `Stream` is not `Send`, so the stream stays on this thread and the
    // `CompoundFile` (which is `Send`) goes to another one.
    gate.arm();
    let gate_for_owner = gate.clone();
    let owner = thread::spawn(move || {
        gate_for_owner.wait_until_reader_is_inside();
        let outcome = catch_unwind(AssertUnwindSafe(move || {
            let file = comp.into_inner();
            file.inner.into_inner().len()
        }));
        gate_for_owner.release();
        outcome
    });
    // Read-only use: this thread reads the stream (and waits inside the
    // backend's `read`), the other one takes the underlying file back.
    let mut data = Vec::new();
    let reader_outcome =
        stream.read_to_end(&mut data).map_err(|e| e.to_string());
    let outcome = owner.join().unwrap();

    let message = match &outcome {
        Ok(_) => String::new(),
        Err(payload) => payload
            .downcast_ref::<&str>()
            .map(|s| s.to_string())
            .or_else(|| payload.downcast_ref::<String>().cloned())
            .unwrap_or_default(),
    };
    assert!(
        outcome.is_ok(),
        "C05 requires that no sequence of read-only calls on an opened file \
         panics; into_inner() (documented as just 'returning the underlying \
         reader/writer') panicked with {:?} because another thread was inside \
         Stream::read at that moment (reader thread outcome: {:?})",
        message,
        reader_outcome
    );
}
