// C05 demo 2: opening a small file makes the crate allocate about 1000 times
// the size of the file for the FAT.
//
// The DIFAT (header array and DIFAT sectors) may name the same FAT sector any
// number of times; `open_internal` reads one full sector of FAT entries for
// every DIFAT entry *before* it compares the size of the FAT with the number
// of sectors in the file.  A version 4 DIFAT sector of 4096 bytes holds 1023
// entries, each of which makes the crate append 1024 u32 values (4096 bytes)
// to the FAT vector: 4 MiB of heap per 4 KiB of input.  Here the repeated FAT
// sector holds only FREE entries, so afterwards the surplus is stripped again
// and the file is accepted -- even by `open_strict`.

use std::alloc::{GlobalAlloc, Layout, System};
use std::io::Cursor;
use std::sync::atomic::{AtomicUsize, Ordering};

struct Counting;
static LIVE: AtomicUsize = AtomicUsize::new(0);
static PEAK: AtomicUsize = AtomicUsize::new(0);

fn add(n: usize) {
    let now = LIVE.fetch_add(n, Ordering::Relaxed) + n;
    PEAK.fetch_max(now, Ordering::Relaxed);
}

unsafe impl GlobalAlloc for Counting {
    unsafe fn alloc(&self, l: Layout) -> *mut u8 {
        let p = System.alloc(l);
        if !p.is_null() {
            add(l.size());
        }
        p
    }
    unsafe fn dealloc(&self, p: *mut u8, l: Layout) {
        System.dealloc(p, l);
        LIVE.fetch_sub(l.size(), Ordering::Relaxed);
    }
    unsafe fn realloc(&self, p: *mut u8, l: Layout, new: usize) -> *mut u8 {
        let q = System.realloc(p, l, new);
        if !q.is_null() {
            if new >= l.size() {
                add(new - l.size());
            } else {
                LIVE.fetch_sub(l.size() - new, Ordering::Relaxed);
            }
        }
        q
    }
}

#[global_allocator]
static A: Counting = Counting;

const END_OF_CHAIN: u32 = 0xffff_fffe;
const FAT_SECTOR: u32 = 0xffff_fffd;
const DIFAT_SECTOR: u32 = 0xffff_fffc;
const SECTOR: usize = 4096;

fn put(f: &mut [u8], offset: usize, value: u32) {
    f[offset..offset + 4].copy_from_slice(&value.to_le_bytes());
}

/// A version 4 file: sector 0 = FAT, 1 = directory (both as written by the
/// crate itself), 2 = a FAT sector full of FREE entries, 3.. = `k` DIFAT
/// sectors whose every entry is 2.
fn build(k: u32) -> Vec<u8> {
    let comp = cfb::CompoundFile::create_with_version(
        cfb::Version::V4,
        Cursor::new(Vec::new()),
    )
    .unwrap();
    let mut f = comp.into_inner().into_inner();
    assert_eq!(f.len(), 3 * SECTOR);
    // Sector 2: all FREE.
    f.extend(std::iter::repeat(0xffu8).take(SECTOR));
    // DIFAT sectors 3..3+k.
    for i in 0..k {
        for _ in 0..1023 {
            f.extend_from_slice(&2u32.to_le_bytes());
        }
        let next = if i + 1 < k { 3 + i + 1 } else { END_OF_CHAIN };
        f.extend_from_slice(&next.to_le_bytes());
    }
    // FAT entries of the new sectors.
    put(&mut f, SECTOR + 4 * 2, FAT_SECTOR);
    for i in 0..k {
        put(&mut f, SECTOR + 4 * (3 + i as usize), DIFAT_SECTOR);
    }
    // Header: counts, DIFAT chain, and a full header DIFAT array.
    put(&mut f, 44, 109 + 1023 * k); // number of FAT sectors
    put(&mut f, 68, 3); // first DIFAT sector
    put(&mut f, 72, k); // number of DIFAT sectors
    for i in 1..109 {
        put(&mut f, 76 + 4 * i, 2);
    }
    f
}

fn measure(k: u32, strict: bool) -> (usize, usize) {
    let bytes = build(k);
    let input_len = bytes.len();
    let baseline = LIVE.load(Ordering::Relaxed);
    PEAK.store(baseline, Ordering::Relaxed);
    let cursor = Cursor::new(bytes);
    let result = if strict {
        cfb::CompoundFile::open_strict(cursor)
    } else {
        cfb::CompoundFile::open(cursor)
    };
    let peak = PEAK.load(Ordering::Relaxed) - baseline;
    let comp = result.expect("the crafted file is accepted");
    assert_eq!(comp.walk().count(), 1);
    (input_len, peak)
}

#[test]
fn opening_needs_memory_proportional_to_the_input() {
    let (len_p, peak_p) = measure(30, false);
    let (len_s, peak_s) = measure(60, true);
    eprintln!(
        "permissive: input {} B -> peak {} B ({}x)\n\
         strict:     input {} B -> peak {} B ({}x)",
        len_p,
        peak_p,
        peak_p / len_p,
        len_s,
        peak_s,
        peak_s / len_s
    );
    // The FAT of a file with n sectors has n entries, i.e. 1/1024 of the
    // file size in version 4; the directory is about as large as its
    // sectors.  32x the input is far more than any honest file needs.
    assert!(
        peak_s <= 32 * len_s && peak_p <= 32 * len_p,
        "C05 requires opening to stay within memory proportional to the \
         input, but opening a {} byte file (64 sectors, accepted by \
         open_strict) allocated {} bytes ({}x the input) for a FAT that ends \
         up with 63 entries; permissive open of a {} byte file allocated {} \
         bytes ({}x).  16 MiB of such input would ask for 16 GiB.",
        len_s,
        peak_s,
        peak_s / len_s,
        len_p,
        peak_p,
        peak_p / len_p
    );
}
