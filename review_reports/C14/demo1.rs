// C14 hunt, demo 1: CompoundFile::into_inner() panics ("entered unreachable
// code") when another thread is in the middle of a stream operation.
//
// Stream handles hold only a Weak reference to the shared allocator, but every
// handle operation upgrades it to a strong Arc for the duration of the call
// (src/internal/stream.rs:44-48).  into_inner() (src/lib.rs:390-398) assumes
// that Arc::try_unwrap can never fail and calls unreachable!() otherwise.  So
// whether into_inner() returns the backend or panics depends on the thread
// schedule.
//
// The backend below is an ordinary, contract-abiding Read + Write + Seek
// wrapper around a Cursor; it is merely slow on demand (one read() takes
// 300 ms), which makes the schedule deterministic.

use cfb::CompoundFile;
use std::io::{self, Cursor, Read, Seek, SeekFrom, Write};
use std::sync::atomic::{AtomicBool, Ordering};
use std::sync::Arc;
use std::time::{Duration, Instant};

#[derive(Default)]
struct Gate {
    armed: AtomicBool,
    inside_read: AtomicBool,
}

struct SlowFile {
    inner: Cursor<Vec<u8>>,
    gate: Arc<Gate>,
}

impl Read for SlowFile {
    fn read(&mut self, buf: &mut [u8]) -> io::Result<usize> {
        if self.gate.armed.swap(false, Ordering::SeqCst) {
            // A slow device: the stream operation that called us is now in
            // progress (it holds the write lock and an upgraded Arc).
            self.gate.inside_read.store(true, Ordering::SeqCst);
            // The device takes 300 ms to answer.
            std::thread::sleep(Duration::from_millis(300));
        }
        self.inner.read(buf)
    }
}
impl Write for SlowFile {
    fn write(&mut self, buf: &[u8]) -> io::Result<usize> {
        self.inner.write(buf)
    }
    fn flush(&mut self) -> io::Result<()> {
        self.inner.flush()
    }
}
impl Seek for SlowFile {
    fn seek(&mut self, pos: SeekFrom) -> io::Result<u64> {
        self.inner.seek(pos)
    }
}

#[test]
fn into_inner_while_another_thread_reads_through_a_handle() {
    let gate = Arc::new(Gate::default());
    let file = SlowFile { inner: Cursor::new(Vec::new()), gate: gate.clone() };
    let mut cf = CompoundFile::create(file).unwrap();
    let mut stream = cf.create_stream("/data").unwrap();
    stream.write_all(&[7u8; 10_000]).unwrap();
    stream.flush().unwrap();
    drop(stream);
    // A fresh handle, so that reading has to go to the backend.
    let mut stream = cf.open_stream("/data").unwrap();

    // The compound file moves to another thread (CompoundFile<F> is Send, the
    // crate's own tests assert that); the handle stays here.
    let gate2 = gate.clone();
    let other = std::thread::spawn(move || {
        let start = Instant::now();
        while !gate2.inside_read.load(Ordering::SeqCst) {
            assert!(start.elapsed() < Duration::from_secs(20));
            std::thread::sleep(Duration::from_millis(1));
        }
        // The reading thread is now between "handle operation started" and
        // "handle operation finished".
        let result = std::panic::catch_unwind(std::panic::AssertUnwindSafe(
            move || cf.into_inner().inner.into_inner().len(),
        ));
        result
    });

    gate.armed.store(true, Ordering::SeqCst);
    let mut data = Vec::new();
    let read_result = stream.read_to_end(&mut data);

    let into_inner_result = other.join().unwrap();
    // The read itself must be unharmed whichever way the race goes.
    assert!(
        matches!(read_result, Ok(10_000)) || read_result.is_err(),
        "read through the handle: {:?}",
        read_result
    );
    assert!(
        into_inner_result.is_ok(),
        "C14 requires that under every thread schedule all calls complete and \
         none panics; but CompoundFile::into_inner(), called while another \
         thread was inside Stream::read on a handle of the same file, \
         panicked: {:?}",
        into_inner_result
            .as_ref()
            .err()
            .and_then(|p| p
                .downcast_ref::<&str>()
                .map(|s| s.to_string())
                .or_else(|| p.downcast_ref::<String>().cloned()))
    );
}
