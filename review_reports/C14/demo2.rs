// C14 hunt, demo 2: a write-back through a handle whose stream was removed
// (and whose directory slot was re-used by a storage of the same name) trips
// `debug_assert_eq!(dir_entry.obj_type, ObjType::Stream)` in
// write_data_to_stream (src/internal/stream.rs:345) WHILE HOLDING THE WRITE
// LOCK.  The panic poisons the RwLock, and because every read-only method does
// `.read().unwrap()` (src/lib.rs:212, src/internal/entry.rs:146,179), every
// later read-only call on every thread panics too, for the rest of the life
// of the CompoundFile.
//
// In a release build the assertion is compiled out; the same write-back then
// "succeeds": it stores a stream length in the storage's directory entry
// (which readers observe through entry().len()) and scribbles over the mini
// sectors of an unrelated stream.
//
// Run: cargo test --offline --test hunt_demo            (debug: panics/poison)
//      cargo test --offline --release --test hunt_demo  (release: wrong state)

use cfb::CompoundFile;
use std::io::{Cursor, Read, Write};
use std::panic::{catch_unwind, AssertUnwindSafe};
use std::sync::atomic::{AtomicBool, AtomicUsize, Ordering};

#[test]
fn readers_survive_a_write_back_through_a_stale_handle() {
    let mut cf = CompoundFile::create(Cursor::new(Vec::new())).unwrap();
    let mut other = cf.create_stream("/other").unwrap();
    other.write_all(&[9u8; 200]).unwrap();
    other.flush().unwrap();
    drop(other);

    let mut handle = cf.create_stream("/s").unwrap();
    cf.remove_stream("/s").unwrap();
    cf.create_storage("/s").unwrap();

    let writer_done = AtomicBool::new(false);
    let reader_panics = AtomicUsize::new(0);
    let bad_len_seen = AtomicUsize::new(0);
    let cf_ref = &cf;
    let mut writer_outcome = None;
    std::thread::scope(|scope| {
        for _ in 0..3 {
            scope.spawn(|| {
                // Keep calling read-only methods until the writer is done,
                // and a few more times afterwards.
                let mut after = 0;
                while after < 20 {
                    if writer_done.load(Ordering::SeqCst) {
                        after += 1;
                    }
                    let result = catch_unwind(AssertUnwindSafe(|| {
                        let _ = cf_ref.root_entry();
                        assert!(cf_ref.exists("/other"));
                        assert!(cf_ref.is_storage("/s"));
                        let n = cf_ref.walk().count();
                        assert_eq!(n, 3);
                        cf_ref.entry("/s").unwrap().len()
                    }));
                    match result {
                        Ok(0) => {}
                        Ok(_) => {
                            bad_len_seen.fetch_add(1, Ordering::SeqCst);
                        }
                        Err(_) => {
                            reader_panics.fetch_add(1, Ordering::SeqCst);
                        }
                    }
                    std::thread::yield_now();
                }
            });
        }
        // The writer thread (this one: Stream is not Send).
        std::thread::sleep(std::time::Duration::from_millis(20));
        writer_outcome = Some(catch_unwind(AssertUnwindSafe(|| {
            handle.write_all(&[2u8; 100]).and_then(|_| handle.flush())
        })));
        writer_done.store(true, Ordering::SeqCst);
    });
    let writer_outcome = writer_outcome.unwrap();
    let writer_panicked = writer_outcome.is_err();
    let reader_panics = reader_panics.load(Ordering::SeqCst);
    let bad_len_seen = bad_len_seen.load(Ordering::SeqCst);

    // What the readers could legitimately observe: the tree /, /s (storage,
    // length 0), /other (200 bytes), whether the stale write is refused or not.
    let after = catch_unwind(AssertUnwindSafe(|| {
        let mut data = Vec::new();
        cf.open_stream("/other").unwrap().read_to_end(&mut data).unwrap();
        data
    }));
    let other_intact = matches!(&after, Ok(d) if d == &vec![9u8; 200]);

    assert!(
        !writer_panicked && reader_panics == 0 && bad_len_seen == 0 && other_intact,
        "C14 requires that all calls complete, none panics, and every \
         read-only result equals the state before or after a whole stream \
         operation.  Observed: writer panicked = {}, writer result = {:?}, \
         read-only calls that panicked (poisoned lock) = {}, read-only calls \
         that saw the STORAGE /s with a non-zero length = {}, unrelated \
         stream /other still intact = {}",
        writer_panicked,
        writer_outcome.as_ref().ok(),
        reader_panics,
        bad_len_seen,
        other_intact
    );
}
