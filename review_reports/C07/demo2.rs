// C07 demo 2: one failed write while handle A migrates its stream from the
// mini stream to regular sectors leaves /a's directory entry pointing at mini
// sectors that have already been freed.  Handle B (a different stream) is then
// given exactly those mini sectors.  When A's flush is retried -- explicitly,
// or implicitly by merely dropping A -- it "frees the old mini chain of /a"
// again, i.e. it frees /b's sectors, and reports Ok.  /b, which was written
// and flushed successfully through its own handle, is destroyed.
//
// Property C07 requires: several handles to different streams may be used in
// any interleaving, and operations through a handle change only that stream's
// bytes and length; every other stream's content stays as the model predicts.
//
// The backend below honours the Read/Write/Seek contracts: exactly one
// `write` call returns an error (and writes nothing); everything else is a
// plain Cursor<Vec<u8>>.

use cfb::CompoundFile;
use std::cell::Cell;
use std::io::{self, Cursor, Read, Seek, SeekFrom, Write};
use std::rc::Rc;

struct FailNthWrite {
    inner: Cursor<Vec<u8>>,
    /// negative: disarmed; otherwise the number of writes that still succeed
    /// before one write fails (after which it disarms itself).
    countdown: Rc<Cell<i64>>,
}

impl Read for FailNthWrite {
    fn read(&mut self, buf: &mut [u8]) -> io::Result<usize> {
        self.inner.read(buf)
    }
}

impl Seek for FailNthWrite {
    fn seek(&mut self, pos: SeekFrom) -> io::Result<u64> {
        self.inner.seek(pos)
    }
}

impl Write for FailNthWrite {
    fn write(&mut self, buf: &[u8]) -> io::Result<usize> {
        let left = self.countdown.get();
        if left == 0 {
            self.countdown.set(-1);
            return Err(io::Error::new(io::ErrorKind::Other, "injected fault"));
        }
        if left > 0 {
            self.countdown.set(left - 1);
        }
        self.inner.write(buf)
    }

    fn flush(&mut self) -> io::Result<()> {
        self.inner.flush()
    }
}

enum Outcome {
    /// The flush of A completed before the fault position was reached.
    NoFault,
    Fine,
    Violation(String),
}

fn run(fault_at: i64, retry_by_drop_only: bool) -> Outcome {
    let countdown = Rc::new(Cell::new(-1i64));
    let backend = FailNthWrite {
        inner: Cursor::new(Vec::new()),
        countdown: countdown.clone(),
    };
    let mut comp = CompoundFile::create(backend).unwrap();
    let mut a = comp.create_stream("/a").unwrap();
    let mut b = comp.create_stream("/b").unwrap();

    // /a: 4000 bytes, safely in the mini stream.
    a.write_all(&[0xAA; 4000]).unwrap();
    a.flush().unwrap();
    // 200 more bytes take it over the 4096 cutoff: the flush has to move it
    // out of the mini stream.
    a.write_all(&[0xA2; 200]).unwrap();
    countdown.set(fault_at);
    let first = a.flush();
    countdown.set(-1);
    let first = match first {
        Ok(()) => return Outcome::NoFault,
        Err(err) => err,
    };

    // The application carries on with another stream; everything succeeds.
    b.write_all(&[0xBB; 100]).unwrap();
    b.flush().unwrap();
    drop(b);
    let mut check = Vec::new();
    comp.open_stream("/b").unwrap().read_to_end(&mut check).unwrap();
    assert_eq!(check, vec![0xBB; 100], "/b reads back right after writing");

    // Retry the failed flush of A (or just let A go out of scope).
    let second = if retry_by_drop_only {
        drop(a);
        "(handle dropped)".to_string()
    } else {
        let result = a.flush();
        drop(a);
        format!("{:?}", result)
    };

    let mut got = Vec::new();
    let read_b =
        comp.open_stream("/b").and_then(|mut s| s.read_to_end(&mut got));
    if read_b.is_ok() && got == vec![0xBB; 100] {
        Outcome::Fine
    } else {
        Outcome::Violation(format!(
            "write #{} during a.flush() failed ({}); b.write_all(100 x 0xBB) \
             and b.flush() then returned Ok; retrying a.flush() gave {}; now \
             reading /b gives {:?} with {} bytes {:02x?}",
            fault_at,
            first,
            second,
            read_b.map_err(|e| e.to_string()),
            got.len(),
            &got[..got.len().min(8)]
        ))
    }
}

fn scan(retry_by_drop_only: bool) {
    let mut violations = Vec::new();
    let mut positions = 0;
    for fault_at in 0..10_000 {
        match run(fault_at, retry_by_drop_only) {
            Outcome::NoFault => break,
            Outcome::Fine => positions += 1,
            Outcome::Violation(text) => {
                positions += 1;
                violations.push(text);
            }
        }
    }
    assert!(positions > 0);
    assert!(
        violations.is_empty(),
        "C07 requires that operations through handle A change only /a, and \
         that /b -- written and flushed with Ok through its own handle -- \
         keeps its 100 bytes of 0xBB whatever happens to A.  Observed: at {} \
         of {} single-write-fault positions /b was destroyed by A.  First: \
         {}\nLast: {}",
        violations.len(),
        positions,
        violations.first().unwrap(),
        violations.last().unwrap()
    );
}

#[test]
fn retried_flush_of_a_frees_the_sectors_of_b() {
    scan(false);
}

#[test]
fn dropping_a_after_a_failed_flush_frees_the_sectors_of_b() {
    scan(true);
}
