// C07 demo 1: a handle whose stream has been removed still writes -- by raw
// directory slot number -- into whatever lives there now (or, if the slot is
// still free, into mini sector 0, which belongs to some other stream).
//
// Property C07 requires: operations through a handle change only the bytes and
// length of the stream the handle was opened on; every other stream's content
// and every entry's metadata stay as they were.  Once the stream is gone the
// handle refers to nothing, so its operations must fail (or do nothing); they
// must never modify another object.

use cfb::CompoundFile;
use std::io::{Cursor, Read, Seek, SeekFrom, Write};
use std::panic::{catch_unwind, AssertUnwindSafe};

type Cfb = CompoundFile<Cursor<Vec<u8>>>;

fn read_all(comp: &mut Cfb, path: &str) -> Vec<u8> {
    let mut data = Vec::new();
    comp.open_stream(path).unwrap().read_to_end(&mut data).unwrap();
    data
}

/// The freed directory slot is reused by a new stream; a write through the
/// old handle lands in the new stream.  Fails in debug and release builds.
#[test]
fn stale_handle_overwrites_stream_that_reused_its_slot() {
    let mut comp = CompoundFile::create(Cursor::new(Vec::new())).unwrap();
    let mut old = comp.create_stream("/old").unwrap();
    old.write_all(&[0xAA; 10]).unwrap();
    old.flush().unwrap();

    comp.remove_stream("/old").unwrap();
    assert!(!comp.exists("/old"));

    // A different stream, different name; it gets the freed directory slot.
    let mut victim = comp.create_new_stream("/victim").unwrap();
    victim.write_all(&[0xBB; 100]).unwrap();
    victim.flush().unwrap();
    drop(victim);
    assert_eq!(read_all(&mut comp, "/victim"), vec![0xBB; 100]);

    // Use the handle of the stream that no longer exists.
    let result = old
        .seek(SeekFrom::Start(0))
        .and_then(|_| old.write_all(&[0xCC; 10]))
        .and_then(|_| old.flush());
    drop(old);

    let after = read_all(&mut comp, "/victim");
    assert!(
        after == vec![0xBB; 100],
        "C07 requires that a handle never changes another stream's content; \
         /old was removed, yet writing through its stale handle returned \
         {:?} and /victim (created afterwards) now starts with {:02x?} \
         instead of bb bb bb ...",
        result,
        &after[..16]
    );
}

/// No slot reuse at all: the handle merely has unflushed bytes when its
/// stream is removed.  Flushing (or just dropping) it then writes those bytes
/// over mini sector 0, i.e. over the first small stream in the file, and
/// reports success.  (Debug builds instead hit a debug_assert inside the
/// crate while holding the lock, which poisons the whole CompoundFile.)
#[test]
fn stale_handle_with_pending_bytes_overwrites_first_mini_stream() {
    let mut comp = CompoundFile::create(Cursor::new(Vec::new())).unwrap();
    let mut first = comp.create_stream("/first").unwrap();
    first.write_all(&[0xBB; 100]).unwrap();
    drop(first); // flushed; occupies mini sectors 0 and 1

    let mut doomed = comp.create_stream("/doomed").unwrap();
    doomed.write_all(&[0xAA; 10]).unwrap(); // still only in the buffer
    comp.remove_stream("/doomed").unwrap();

    let outcome = catch_unwind(AssertUnwindSafe(|| {
        let result = doomed.flush();
        drop(doomed);
        result
    }));
    let outcome = match outcome {
        Ok(result) => format!("returned {:?}", result),
        Err(_) => "PANICKED inside the crate".to_string(),
    };

    let after = catch_unwind(AssertUnwindSafe(|| read_all(&mut comp, "/first")));
    let after = match after {
        Ok(data) => data,
        Err(_) => panic!(
            "C07 requires that using a handle leaves every other object \
             untouched; flushing the stale handle of the removed /doomed {} \
             and now /first cannot even be read (lock poisoned)",
            outcome
        ),
    };
    assert!(
        after == vec![0xBB; 100],
        "C07 requires that a handle never changes another stream's content; \
         flushing the stale handle of the removed /doomed {} and /first now \
         starts with {:02x?} instead of bb bb bb ...",
        outcome,
        &after[..16]
    );
}
