//! C18 demo 3: `CompoundFile::create` relies on the backend's current
//! position.
//!
//! Every other access seeks first, but `create` writes the header, the first
//! FAT sector and the first directory sector at wherever the backend's cursor
//! happens to be.  The documentation only asks that "the reader/writer should
//! be initially empty".  An empty backend whose cursor is not at zero is easy
//! to get: `File::set_len(0)` and `Vec::clear()` (through `Cursor::get_mut`)
//! both empty the backend and leave the cursor where it was.  On such a
//! backend every call returns Ok, the session looks fine, but the bytes
//! differ from those of the same history on a fresh backend and the file
//! cannot be opened again.

use std::fs;
use std::io::{Cursor, Read, Seek, Write};

use cfb::CompoundFile;

/// The history under test.  It has no storages, so no byte depends on the
/// clock.
fn history<F: Read + Write + Seek>(backend: F) -> F {
    let mut cf = CompoundFile::create(backend).unwrap();
    let mut stream = cf.create_stream("/greeting").unwrap();
    stream.write_all(b"hello, world").unwrap();
    stream.flush().unwrap();
    drop(stream);
    assert!(cf.is_stream("/greeting"));
    cf.flush().unwrap();
    cf.into_inner()
}

fn describe(bytes: &[u8]) -> String {
    let reopened = match CompoundFile::open(Cursor::new(bytes)) {
        Ok(mut cf) => {
            let mut text = String::new();
            match cf
                .open_stream("/greeting")
                .and_then(|mut s| s.read_to_string(&mut text))
            {
                Ok(_) => format!("reopens, /greeting = {:?}", text),
                Err(err) => format!("reopens, but /greeting fails: {}", err),
            }
        }
        Err(err) => format!("cannot be reopened: {}", err),
    };
    format!("{} bytes, starts with {:02x?}, {}", bytes.len(), &bytes[..8], reopened)
}

#[test]
fn create_does_not_depend_on_the_position_of_an_empty_backend() {
    // Reference: a fresh in-memory buffer.
    let reference = history(Cursor::new(Vec::new())).into_inner();
    eprintln!("fresh Cursor:   {}", describe(&reference));

    // A real file that held an earlier compound file and was emptied for
    // reuse.  `File::set_len` doesn't move the cursor.
    let path = std::env::temp_dir()
        .join(format!("cfb-c18-demo3-{}.cfb", std::process::id()));
    let file = history(cfb::create(&path).unwrap().into_inner());
    file.set_len(0).unwrap();
    assert_eq!(file.metadata().unwrap().len(), 0, "the file is empty");
    let file = history(file);
    drop(file);
    let from_file = fs::read(&path).unwrap();
    fs::remove_file(&path).unwrap();
    eprintln!("reused File:    {}", describe(&from_file));

    // The same with an in-memory buffer.
    let mut cursor = history(Cursor::new(Vec::new()));
    cursor.get_mut().clear();
    assert!(cursor.get_ref().is_empty(), "the buffer is empty");
    let from_cursor = history(cursor).into_inner();
    eprintln!("reused Cursor:  {}", describe(&from_cursor));

    assert!(
        from_file == reference,
        "C18 requires a byte-identical file for the same history on a real \
         file and on an in-memory buffer, and no reliance on the backend's \
         position.  Fresh buffer: [{}].  Emptied, reused file (every call \
         returned Ok): [{}]",
        describe(&reference),
        describe(&from_file)
    );
    assert!(
        from_cursor == reference,
        "fresh buffer: [{}]; emptied, reused buffer: [{}]",
        describe(&reference),
        describe(&from_cursor)
    );
}
