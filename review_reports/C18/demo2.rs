//! C18 demo 2: the logical outcome of one history depends on the maximum
//! buffer size.
//!
//! Two handles are open on one 8000-byte stream.  Handle A reads one byte at
//! offset 0 (which fills its buffer with as much of the stream as
//! `max_buffer_size` allows).  Handle B writes one byte at offset 5000 and
//! flushes (Ok).  Handle A then writes one byte at offset 0 and flushes (Ok).
//! A's flush writes back its *whole* buffer, not only the byte it changed:
//! with the default 1 MiB buffer that is all 8000 bytes as they were before
//! B's write, so B's flushed byte is silently reverted; with a 1 KiB buffer
//! the write-back covers only bytes 0..1024 and B's byte survives.

use std::io::{Cursor, Read, Seek, SeekFrom, Write};

use cfb::{CompoundFile, OpenOptions, Version};

const LEN: usize = 8000;
const B_OFFSET: u64 = 5000;

fn history(version: Version, max_buffer_size: usize) -> Vec<u8> {
    // (OpenOptions::create_with always makes a version 4 file, so create the
    // file first and reopen it with the buffer size under test.)
    let mut cf =
        CompoundFile::create_with_version(version, Cursor::new(Vec::new()))
            .unwrap();
    cf.create_stream("/s").unwrap().write_all(&[b'.'; LEN]).unwrap();
    cf.flush().unwrap();
    let mut cf = OpenOptions::new()
        .max_buffer_size(max_buffer_size)
        .open_with(cf.into_inner())
        .unwrap();

    let mut a = cf.open_stream("/s").unwrap();
    let mut b = cf.open_stream("/s").unwrap();

    let mut byte = [0u8; 1];
    a.read_exact(&mut byte).unwrap();
    assert_eq!(byte, [b'.']);

    b.seek(SeekFrom::Start(B_OFFSET)).unwrap();
    b.write_all(b"B").unwrap();
    b.flush().unwrap();

    a.seek(SeekFrom::Start(0)).unwrap();
    a.write_all(b"A").unwrap();
    a.flush().unwrap();
    drop(a);
    drop(b);

    let mut contents = Vec::new();
    cf.open_stream("/s").unwrap().read_to_end(&mut contents).unwrap();
    contents
}

fn summary(contents: &[u8]) -> String {
    format!(
        "len {}, byte 0 = {:?}, byte {} = {:?}",
        contents.len(),
        contents[0] as char,
        B_OFFSET,
        contents[B_OFFSET as usize] as char
    )
}

#[test]
fn outcome_does_not_depend_on_max_buffer_size() {
    let mut expected = vec![b'.'; LEN];
    expected[0] = b'A';
    expected[B_OFFSET as usize] = b'B';
    for version in [Version::V3, Version::V4] {
        let small = history(version, 1024);
        let large = history(version, 1024 * 1024);
        eprintln!("{:?} max_buffer_size 1 KiB: {}", version, summary(&small));
        eprintln!("{:?} max_buffer_size 1 MiB: {}", version, summary(&large));
        assert!(
            small == large,
            "C18 requires the same logical outcome for every maximum buffer \
             size, but in a {:?} file the same history left [{}] with \
             max_buffer_size = 1 KiB and [{}] with max_buffer_size = 1 MiB",
            version,
            summary(&small),
            summary(&large)
        );
        assert!(
            large == expected,
            "both one-byte writes were flushed with Ok, so the stream must \
             hold 'A' at 0 and 'B' at {}; observed [{}]",
            B_OFFSET,
            summary(&large)
        );
    }
}
