//! C18 demo 1: the same history gives a different logical outcome in a
//! version 3 file than in a version 4 file once a stream reaches 4 GiB.
//!
//! A version 3 file accepts `set_len` / `write` that make a stream 2^32 bytes
//! or longer, reports the full length for the rest of the session, and writes
//! the full 64-bit length into the directory entry.  When the file is opened
//! again, the length is masked to its low 32 bits (`Version::stream_len_mask`),
//! so the stream silently shrinks to `len mod 2^32` and the rest of the data is
//! orphaned.  A version 4 file keeps the length.
//!
//! Run with `--release` (about 7 s); a debug build fails the same way but needs
//! about two minutes.  The backend
//! is a sparse in-memory file, so memory stays far below 1 GB.

use std::collections::HashMap;
use std::io::{self, Read, Seek, SeekFrom, Write};

use cfb::{CompoundFile, Version};

const BLK: u64 = 4096;

/// An in-memory file that doesn't store blocks that are entirely zero.  It
/// obeys the Read / Write / Seek contracts (reads and writes are short at
/// block boundaries, which is allowed).
#[derive(Default)]
struct Sparse {
    blocks: HashMap<u64, Box<[u8; BLK as usize]>>,
    len: u64,
    pos: u64,
}

impl Read for Sparse {
    fn read(&mut self, buf: &mut [u8]) -> io::Result<usize> {
        if self.pos >= self.len || buf.is_empty() {
            return Ok(0);
        }
        let blk = self.pos / BLK;
        let off = (self.pos % BLK) as usize;
        let n = buf
            .len()
            .min(BLK as usize - off)
            .min((self.len - self.pos) as usize);
        match self.blocks.get(&blk) {
            Some(b) => buf[..n].copy_from_slice(&b[off..off + n]),
            None => buf[..n].fill(0),
        }
        self.pos += n as u64;
        Ok(n)
    }
}

impl Write for Sparse {
    fn write(&mut self, buf: &[u8]) -> io::Result<usize> {
        if buf.is_empty() {
            return Ok(0);
        }
        let blk = self.pos / BLK;
        let off = (self.pos % BLK) as usize;
        let n = buf.len().min(BLK as usize - off);
        if let Some(b) = self.blocks.get_mut(&blk) {
            b[off..off + n].copy_from_slice(&buf[..n]);
        } else if buf[..n].iter().any(|&b| b != 0) {
            let mut b = Box::new([0u8; BLK as usize]);
            b[off..off + n].copy_from_slice(&buf[..n]);
            self.blocks.insert(blk, b);
        }
        self.pos += n as u64;
        self.len = self.len.max(self.pos);
        Ok(n)
    }

    fn flush(&mut self) -> io::Result<()> {
        Ok(())
    }
}

impl Seek for Sparse {
    fn seek(&mut self, pos: SeekFrom) -> io::Result<u64> {
        let new = match pos {
            SeekFrom::Start(p) => p as i128,
            SeekFrom::End(d) => self.len as i128 + d as i128,
            SeekFrom::Current(d) => self.pos as i128 + d as i128,
        };
        if new < 0 || new > u64::MAX as i128 {
            return Err(io::Error::new(
                io::ErrorKind::InvalidInput,
                "seek out of range",
            ));
        }
        self.pos = new as u64;
        Ok(self.pos)
    }
}

/// What the history observes: every call's result, the length the session
/// reports, and the length and tail of the stream after reopening the file.
#[derive(Debug, PartialEq, Eq)]
struct Outcome {
    set_len_ok: bool,
    write_ok: bool,
    len_in_session: u64,
    len_after_reopen: u64,
    tail_after_reopen: Result<Vec<u8>, String>,
}

fn history(version: Version) -> Outcome {
    let below = (1u64 << 32) - 3;
    let mut cf =
        CompoundFile::create_with_version(version, Sparse::default()).unwrap();
    let mut stream = cf.create_stream("/big").unwrap();
    // 1. Grow the stream to just below 4 GiB.
    let set_len_ok = stream.set_len(below).is_ok();
    // 2. Append eight bytes, which takes it to 2^32 + 5 bytes.
    stream.seek(SeekFrom::End(0)).unwrap();
    let write_ok =
        stream.write_all(b"12345678").and_then(|()| stream.flush()).is_ok();
    drop(stream);
    let len_in_session = cf.entry("/big").unwrap().len();
    cf.flush().unwrap();

    // 3. Open the file again and look at the stream.
    let mut cf = CompoundFile::open(cf.into_inner()).unwrap();
    let len_after_reopen = cf.entry("/big").unwrap().len();
    let mut stream = cf.open_stream("/big").unwrap();
    let tail_len = stream.len().min(8);
    stream.seek(SeekFrom::End(-(tail_len as i64))).unwrap();
    let mut tail = Vec::new();
    let tail_after_reopen = match stream.read_to_end(&mut tail) {
        Ok(_) => Ok(tail),
        Err(err) => Err(err.to_string()),
    };
    Outcome {
        set_len_ok,
        write_ok,
        len_in_session,
        len_after_reopen,
        tail_after_reopen,
    }
}

#[test]
fn stream_crossing_4gib_behaves_the_same_in_v3_and_v4() {
    let v4 = history(Version::V4);
    let v3 = history(Version::V3);
    eprintln!("V4: {:?}", v4);
    eprintln!("V3: {:?}", v3);
    // Whatever a version accepts or refuses, what the session reported must
    // be what is in the file.
    assert_eq!(
        v3.len_after_reopen, v3.len_in_session,
        "C18/V3: set_len ok = {}, write ok = {}, and the session reported {} \
         bytes, but after reopening the file the stream has {} bytes (the \
         length was reduced mod 2^32; the data behind the Ok is lost)",
        v3.set_len_ok, v3.write_ok, v3.len_in_session, v3.len_after_reopen
    );
    // And if version 3 accepted every call, like version 4 did, the logical
    // outcome has to be the same.
    if v3.set_len_ok && v3.write_ok {
        assert_eq!(
            v3, v4,
            "C18 requires the same logical outcome for format versions 3 and \
             4, but the same history gave different results"
        );
    }
}
