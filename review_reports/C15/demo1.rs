//! C15 demo 1: space released by removing mini streams is never handed back
//! to the sector allocator, so a net-zero cycle that mixes a stream below
//! and a stream above the 4096-byte cutoff still grows the file in its
//! SECOND repetition (and a large stream written after small streams were
//! removed grows the file although more than enough space was just released).
//!
//! Uses only the public API.  Fails on the unchanged crate (debug and release).

use cfb::{CompoundFile, Version};
use std::io::{self, Read, Seek, SeekFrom, Write};
use std::sync::{Arc, Mutex};

/// An in-memory file whose length can be observed while the CompoundFile
/// owns (a clone of) it.
#[derive(Clone)]
struct Shared(Arc<Mutex<io::Cursor<Vec<u8>>>>);
impl Shared {
    fn new() -> Self {
        Shared(Arc::new(Mutex::new(io::Cursor::new(Vec::new()))))
    }
    fn size(&self) -> usize {
        self.0.lock().unwrap().get_ref().len()
    }
}
impl Read for Shared {
    fn read(&mut self, b: &mut [u8]) -> io::Result<usize> {
        self.0.lock().unwrap().read(b)
    }
}
impl Write for Shared {
    fn write(&mut self, b: &[u8]) -> io::Result<usize> {
        self.0.lock().unwrap().write(b)
    }
    fn flush(&mut self) -> io::Result<()> {
        Ok(())
    }
}
impl Seek for Shared {
    fn seek(&mut self, p: SeekFrom) -> io::Result<u64> {
        self.0.lock().unwrap().seek(p)
    }
}

fn create_write_remove(
    comp: &mut CompoundFile<Shared>,
    name: &str,
    len: usize,
) {
    let mut s = comp.create_stream(name).unwrap();
    s.write_all(&vec![0xabu8; len]).unwrap();
    s.flush().unwrap();
    drop(s);
    comp.remove_stream(name).unwrap();
}

/// The net-zero cycle: one stream above the cutoff, one below it; both are
/// created, written and removed again.  No handle outlives its stream.
fn cycle(comp: &mut CompoundFile<Shared>) {
    create_write_remove(comp, "/large", 8128); // regular sectors
    create_write_remove(comp, "/small", 4030); // mini stream
}

#[test]
fn second_repetition_of_net_zero_cycle_must_not_grow_the_file() {
    for version in [Version::V3, Version::V4] {
        let file = Shared::new();
        let mut comp =
            CompoundFile::create_with_version(version, file.clone()).unwrap();
        let mut sizes = Vec::new();
        for _ in 0..4 {
            cycle(&mut comp);
            assert_eq!(comp.walk().count(), 1, "cycle is net-zero");
            sizes.push(file.size());
        }
        println!("{:?}: file size after each repetition: {:?}", version, sizes);
        assert!(
            sizes[1..].iter().all(|&s| s == sizes[0]),
            "C15 requires: repeating a net-zero cycle (create+write+remove a \
             8128-byte stream, then create+write+remove a 4030-byte stream) \
             leaves the file size unchanged from the second repetition on. \
             Observed ({:?}): sizes after repetitions 1..4 = {:?}; the second \
             repetition grew the file by {} bytes, because the sectors \
             released by removing the small stream stay bound to the (now \
             empty) mini stream and MiniFAT chains and are not reused for \
             the large stream",
            version,
            sizes,
            sizes[1] - sizes[0],
        );
    }
}

#[test]
fn space_released_by_removing_small_streams_must_be_reused_by_a_large_one() {
    let file = Shared::new();
    let mut comp =
        CompoundFile::create_with_version(Version::V3, file.clone()).unwrap();
    // 256 streams of 4000 bytes each: about 1 MiB of mini stream.
    for i in 0..256 {
        let mut s = comp.create_stream(format!("/s{}", i)).unwrap();
        s.write_all(&[i as u8; 4000]).unwrap();
    }
    let size_full = file.size();
    for i in 0..256 {
        comp.remove_stream(format!("/s{}", i)).unwrap();
    }
    assert_eq!(comp.walk().count(), 1);
    let size_emptied = file.size();
    // Everything was released; now a single 512 KiB stream (half of what was
    // released) is written.
    let mut s = comp.create_stream("/large").unwrap();
    s.write_all(&vec![1u8; 512 * 1024]).unwrap();
    s.flush().unwrap();
    drop(s);
    let size_after = file.size();
    println!(
        "full {} / emptied {} / after writing 512 KiB {}",
        size_full, size_emptied, size_after
    );
    assert!(
        size_after <= size_emptied,
        "C15 requires: space released by removing streams is reused by later \
         allocations.  Removing 256 streams of 4000 bytes released about \
         1 MiB inside a {}-byte file, yet writing one 524288-byte stream \
         afterwards grew the file from {} to {} bytes (+{}): none of the \
         released space was reused",
        size_emptied,
        size_emptied,
        size_after,
        size_after - size_emptied,
    );
}
