//! C15 demo 2: a stream handle that is still alive when its stream is removed
//! flushes its buffered data (on drop, or on an explicit flush) through the
//! directory slot that `remove_stream` has just marked unallocated.
//!
//! Release builds: the flush reads the unallocated slot as "a mini stream
//! that starts at mini sector 0", so it (a) frees or overwrites the mini chain
//! of whichever live stream owns mini sector 0 and (b) allocates a fresh
//! regular chain and records it in the unallocated slot.  That chain belongs
//! to no stream and is not free either: the space is lost for good, so the
//! next allocation grows the file although the cycle was net-zero.
//! Debug builds: the same flush trips `debug_assert_eq!(obj_type, Stream)`
//! (src/internal/stream.rs:345) inside `Drop`, while the RwLock is held for
//! writing, which poisons the lock: every later call on the file panics.
//!
//! Run with `cargo test --offline --test hunt_demo` and with `--release`.

use cfb::{CompoundFile, Version};
use std::io::{self, Read, Seek, SeekFrom, Write};
use std::panic::{catch_unwind, AssertUnwindSafe};
use std::sync::{Arc, Mutex};

#[derive(Clone)]
struct Shared(Arc<Mutex<io::Cursor<Vec<u8>>>>);
impl Shared {
    fn new() -> Self {
        Shared(Arc::new(Mutex::new(io::Cursor::new(Vec::new()))))
    }
    fn size(&self) -> usize {
        self.0.lock().unwrap().get_ref().len()
    }
}
impl Read for Shared {
    fn read(&mut self, b: &mut [u8]) -> io::Result<usize> {
        self.0.lock().unwrap().read(b)
    }
}
impl Write for Shared {
    fn write(&mut self, b: &[u8]) -> io::Result<usize> {
        self.0.lock().unwrap().write(b)
    }
    fn flush(&mut self) -> io::Result<()> {
        Ok(())
    }
}
impl Seek for Shared {
    fn seek(&mut self, p: SeekFrom) -> io::Result<u64> {
        self.0.lock().unwrap().seek(p)
    }
}

const KEEP: [u8; 100] = [7u8; 100];

/// Prefix history: one small stream.  Then the net-zero cycle "create /tmp,
/// write 5000 bytes, remove /tmp" once; `drop_handle_first` chooses whether
/// the handle is dropped before or after `remove_stream`.  Finally a
/// 5000-byte stream is written, which has to fit into the released space.
/// Returns (size after the cycle, size after the final stream, problems).
fn history(drop_handle_first: bool) -> (usize, usize, Vec<String>) {
    let mut problems = Vec::new();
    let file = Shared::new();
    let mut comp =
        CompoundFile::create_with_version(Version::V3, file.clone()).unwrap();
    let mut keep = comp.create_stream("/keep").unwrap();
    keep.write_all(&KEEP).unwrap();
    keep.flush().unwrap();
    drop(keep);

    // The cycle.
    let mut tmp = comp.create_stream("/tmp").unwrap();
    tmp.write_all(&[1u8; 5000]).unwrap(); // still in the handle's buffer
    if drop_handle_first {
        drop(tmp);
        comp.remove_stream("/tmp").unwrap();
    } else {
        comp.remove_stream("/tmp").unwrap();
        if catch_unwind(AssertUnwindSafe(move || drop(tmp))).is_err() {
            problems.push(
                "dropping the handle of a removed stream panicked (and \
                 poisoned the CompoundFile's lock)"
                    .to_string(),
            );
            return (file.size(), file.size(), problems);
        }
    }
    assert!(!comp.exists("/tmp"));
    assert_eq!(comp.walk().count(), 2, "only the root and /keep remain");
    let size_after_cycle = file.size();

    // The other stream must be untouched.
    let mut data = Vec::new();
    match comp.open_stream("/keep").unwrap().read_to_end(&mut data) {
        Ok(_) if data == KEEP => {}
        Ok(_) => problems.push("/keep has different contents now".into()),
        Err(e) => problems.push(format!("/keep can't be read any more: {e}")),
    }

    // Whatever the cycle allocated was released; a stream of the same size
    // must fit into that space.
    let mut again = comp.create_stream("/again").unwrap();
    again.write_all(&[2u8; 5000]).unwrap();
    again.flush().unwrap();
    drop(again);
    (size_after_cycle, file.size(), problems)
}

#[test]
fn removed_streams_handle_must_not_leak_sectors_or_touch_other_streams() {
    let (control_cycle, control_final, control_problems) = history(true);
    assert!(control_problems.is_empty(), "{:?}", control_problems);
    let (cycle, fin, problems) = history(false);
    println!(
        "handle dropped before remove: {} -> {} bytes; handle dropped after \
         remove: {} -> {} bytes; problems: {:?}",
        control_cycle, control_final, cycle, fin, problems
    );
    assert!(
        problems.is_empty() && fin == control_final,
        "C15 requires: space released by removing a stream is reused, so \
         after the net-zero cycle [create /tmp, write 5000 bytes, remove \
         /tmp, drop the handle] a new 5000-byte stream fits into the file \
         without growing it (as it does when the handle is dropped before \
         remove_stream: {} -> {} bytes), and other streams are unaffected. \
         Observed with the handle dropped after remove_stream: file size {} \
         -> {} bytes; problems: {:?}",
        control_cycle,
        control_final,
        cycle,
        fin,
        problems,
    );
}
