//! C10 demo 1: a refused `Stream::set_len` (InvalidInput, length no chain can
//! have) writes the handle's pending buffer back before it refuses, so the
//! refused call changes the underlying bytes and what other observers see.

use std::io::{Cursor, ErrorKind, Read, Write};

/// A backend whose bytes can be inspected from outside while the compound
/// file owns it (it honours the Read/Write/Seek contracts exactly like
/// `Cursor<Vec<u8>>`).
#[derive(Clone)]
struct Shared(std::rc::Rc<std::cell::RefCell<Cursor<Vec<u8>>>>);
impl Shared {
    fn new() -> Shared {
        Shared(std::rc::Rc::new(std::cell::RefCell::new(Cursor::new(
            Vec::new(),
        ))))
    }
    fn snapshot(&self) -> Vec<u8> {
        self.0.borrow().get_ref().clone()
    }
}
impl std::io::Read for Shared {
    fn read(&mut self, buf: &mut [u8]) -> std::io::Result<usize> {
        self.0.borrow_mut().read(buf)
    }
}
impl std::io::Write for Shared {
    fn write(&mut self, buf: &[u8]) -> std::io::Result<usize> {
        self.0.borrow_mut().write(buf)
    }
    fn flush(&mut self) -> std::io::Result<()> {
        self.0.borrow_mut().flush()
    }
}
impl std::io::Seek for Shared {
    fn seek(&mut self, pos: std::io::SeekFrom) -> std::io::Result<u64> {
        self.0.borrow_mut().seek(pos)
    }
}

fn run(version: cfb::Version) {
    let backend = Shared::new();
    let mut comp =
        cfb::CompoundFile::create_with_version(version, backend.clone())
            .unwrap();
    let mut stream = comp.create_stream("/s").unwrap();
    comp.flush().unwrap();

    // Pending (buffered, not yet written back) data in the handle.
    stream.write_all(b"hello world").unwrap();

    let bytes_before = backend.snapshot();
    let len_before = comp.entry("/s").unwrap().len();
    let mut other_before = Vec::new();
    comp.open_stream("/s").unwrap().read_to_end(&mut other_before).unwrap();
    assert_eq!(len_before, 0);
    assert!(other_before.is_empty());
    assert_eq!(backend.snapshot(), bytes_before, "observing changed the bytes");

    // The refused call.
    let err = stream.set_len(u64::MAX).unwrap_err();
    assert_eq!(err.kind(), ErrorKind::InvalidInput, "{err}");

    let bytes_after = backend.snapshot();
    let len_after = comp.entry("/s").unwrap().len();
    let mut other_after = Vec::new();
    comp.open_stream("/s").unwrap().read_to_end(&mut other_after).unwrap();

    let changed =
        bytes_before.iter().zip(&bytes_after).filter(|(a, b)| a != b).count()
            + bytes_before.len().abs_diff(bytes_after.len());
    assert!(
        changed == 0 && len_after == len_before && other_after == other_before,
        "C10 requires that Stream::set_len refused with InvalidInput leaves \
         the underlying bytes bit-for-bit unchanged and every later \
         observation the same as if it had not been called; observed \
         ({version:?}): {changed} underlying bytes differ (file length {} -> \
         {}), Entry::len() of /s went {len_before} -> {len_after}, and a \
         second handle reads {:?} instead of {:?}",
        bytes_before.len(),
        bytes_after.len(),
        String::from_utf8_lossy(&other_after),
        String::from_utf8_lossy(&other_before),
    );
}

#[test]
fn refused_set_len_has_no_effect_v3() {
    run(cfb::Version::V3);
}

#[test]
fn refused_set_len_has_no_effect_v4() {
    run(cfb::Version::V4);
}
