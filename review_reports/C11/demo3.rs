// C11 demo 3: a damaged file in which one stream's directory entry has a bad
// start sector (it names the first sector of the MiniFAT chain) and a size
// that matches that chain.  Permissive open accepts the file (chains named by
// directory entries are not examined at open time).  Shrinking that stream
// shortens the MiniFAT chain behind the MiniAllocator's back; the in-memory
// MiniFAT then has more entries than its chain has room for, and the next
// operation that touches one of those entries trips
// `debug_assert!(chain.len() >= offset + size_of::<u32>() as u64)` in
// MiniAllocator::set_minifat (src/internal/minialloc.rs:422) instead of
// returning an error (the release build reports the same condition as an
// error from Chain::seek).
use std::io::{Cursor, Write};
use std::panic::{catch_unwind, AssertUnwindSafe};

fn u32_at(bytes: &[u8], pos: usize) -> u32 {
    u32::from_le_bytes([bytes[pos], bytes[pos + 1], bytes[pos + 2], bytes[pos + 3]])
}

#[test]
fn stream_that_aliases_the_minifat_chain_must_not_cause_a_panic() {
    // Build a valid version 3 file with 18 small streams (63 mini sectors
    // each, 1134 MiniFAT entries, so the MiniFAT chain has 9 sectors of 128
    // entries) and one regular stream "/victim".
    let mut comp = cfb::CompoundFile::create_with_version(
        cfb::Version::V3,
        Cursor::new(Vec::new()),
    )
    .unwrap();
    for i in 0..18 {
        let mut s = comp.create_stream(format!("/m{:02}", i)).unwrap();
        s.write_all(&vec![i as u8; 4000]).unwrap();
    }
    comp.create_stream("/victim").unwrap().write_all(&[9u8; 4608]).unwrap();
    comp.flush().unwrap();
    let mut bytes = comp.into_inner().into_inner();

    // Field-level corruption: victim.start_sector := first MiniFAT sector
    // (header offset 60); victim.stream_len := 9 sectors * 512 bytes.
    let first_minifat_sector = u32_at(&bytes, 60);
    assert_eq!(u32_at(&bytes, 64), 9, "expected a 9-sector MiniFAT chain");
    let name: Vec<u8> =
        "victim".encode_utf16().flat_map(|u| u.to_le_bytes()).collect();
    let entry_pos = (512..bytes.len())
        .step_by(128)
        .find(|&p| bytes[p..].starts_with(&name) && bytes[p + 64] == 14)
        .expect("directory entry of /victim");
    bytes[entry_pos + 116..entry_pos + 120]
        .copy_from_slice(&first_minifat_sector.to_le_bytes());
    bytes[entry_pos + 120..entry_pos + 128]
        .copy_from_slice(&4608u64.to_le_bytes());

    // Permissive open agrees to open the damaged file.
    let mut comp = cfb::CompoundFile::open(Cursor::new(bytes))
        .expect("permissive open accepts the damaged file");

    // A short mutation history.
    let outcome = catch_unwind(AssertUnwindSafe(|| {
        let shrink = comp
            .open_stream("/victim")
            .and_then(|mut s| s.set_len(4096))
            .map_err(|e| e.to_string());
        let remove = comp.remove_stream("/m17").map_err(|e| e.to_string());
        (shrink, remove)
    }));
    assert!(
        outcome.is_ok(),
        "C11 requires that on any file permissive open accepted, every \
         mutation returns Ok or an error value; observed: set_len(4096) on \
         /victim followed by remove_stream(\"/m17\") PANICKED (failed \
         assertion `chain.len() >= offset + 4` in MiniAllocator::set_minifat, \
         src/internal/minialloc.rs:422)"
    );
}
