// C11 demo 1: a Stream handle that is used after its stream was removed.
//
// Debug build: Stream::flush panics (failed assertion at
// src/internal/stream.rs:345, `dir_entry.obj_type == ObjType::Stream`), and
// the panic happens while the write lock is held, so the CompoundFile's
// RwLock is poisoned and every later call on it panics too.
// Release build: no check at all; the stale handle writes through the freed
// (unallocated) directory slot into mini sector 0, which by then belongs to
// another stream, and that stream's data is silently overwritten.
use std::io::{Cursor, Read, Seek, SeekFrom, Write};
use std::panic::{catch_unwind, AssertUnwindSafe};

#[test]
fn stale_handle_after_remove_stream_must_not_panic_or_corrupt() {
    let mut comp =
        cfb::CompoundFile::create(Cursor::new(Vec::new())).unwrap();
    // "/a" gets mini sector 0, "/b" gets mini sector 1.
    let mut a = comp.create_stream("/a").unwrap();
    a.write_all(b"hello").unwrap();
    a.flush().unwrap();
    let mut b = comp.create_stream("/b").unwrap();
    b.write_all(&[b'B'; 64]).unwrap();
    b.flush().unwrap();

    // Remove "/a" while the handle `a` is still alive (nothing in the API or
    // the documentation forbids this: Stream has no lifetime tied to the
    // CompoundFile and holds only a Weak reference).
    comp.remove_stream("/a").unwrap();

    // "/b" grows and takes over the mini sector that "/a" gave back.
    b.write_all(&[b'B'; 64]).unwrap();
    b.flush().unwrap();
    drop(b);

    // Use the stale handle.  C11 requires Ok or Err, never a panic.
    let outcome = catch_unwind(AssertUnwindSafe(|| {
        let w = a.write_all(b"x");
        let f = a.flush();
        (w.is_ok(), f.is_ok())
    }));
    assert!(
        outcome.is_ok(),
        "C11 requires that every API call returns Ok or an error value; \
         observed: writing and flushing through a Stream handle whose \
         stream was removed PANICKED (debug assertion in \
         write_data_to_stream, src/internal/stream.rs:345)"
    );

    // Release build gets here.  Whatever the stale handle reported, the data
    // of the unrelated stream "/b" must be untouched.
    let (w_ok, f_ok) = outcome.unwrap();
    let mut b = comp.open_stream("/b").unwrap();
    b.seek(SeekFrom::Start(0)).unwrap();
    let mut data = Vec::new();
    b.read_to_end(&mut data).unwrap();
    assert!(
        data == vec![b'B'; 128],
        "a write through a stale handle (write ok: {}, flush ok: {}) must \
         fail or be harmless; observed: it overwrote the data of the \
         unrelated stream /b, which now reads {:?}",
        w_ok,
        f_ok,
        String::from_utf8_lossy(&data[60..72])
    );
}
