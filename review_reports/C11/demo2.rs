// C11 demo 2: two handles on one stream; the stream grows through one of
// them, the other one reads and then asks for its position.
//
// Handle `a` remembers a length of 10.  After the stream grew to 110 bytes
// through handle `b`, a refill of `a`'s buffer takes the length from the
// directory entry (110) and not from the handle, so `a` hands out 110 bytes
// and its position (110) ends up beyond its own `total_len` (10).
// `a.seek(SeekFrom::Current(0))` (what `stream_position()` calls) then trips
// `debug_assert!(old_pos <= self.total_len)` at src/internal/stream.rs:193
// (debug build; without the assertion the next line underflows
// `self.total_len - old_pos`).
use std::io::{Cursor, Read, Seek, SeekFrom, Write};
use std::panic::{catch_unwind, AssertUnwindSafe};

#[test]
fn position_query_on_second_handle_must_not_panic() {
    let mut comp =
        cfb::CompoundFile::create(Cursor::new(Vec::new())).unwrap();
    comp.create_stream("/s").unwrap().write_all(&[1u8; 10]).unwrap();

    let mut a = comp.open_stream("/s").unwrap();
    let mut b = comp.open_stream("/s").unwrap();

    // Grow the stream through `b`.
    b.seek(SeekFrom::End(0)).unwrap();
    b.write_all(&[2u8; 100]).unwrap();
    b.flush().unwrap();

    // Read through `a`, which still believes the stream has 10 bytes.
    let mut data = Vec::new();
    let n = a.read_to_end(&mut data).unwrap();
    let len_seen_by_a = a.len();

    let outcome = catch_unwind(AssertUnwindSafe(|| {
        a.seek(SeekFrom::Current(0)).map_err(|e| e.to_string())
    }));
    assert!(
        outcome.is_ok(),
        "C11 requires that every API call returns Ok or an error value; \
         observed: after reading {} bytes from a handle whose len() is {}, \
         seek(SeekFrom::Current(0)) PANICKED (failed assertion `old_pos <= \
         self.total_len`, src/internal/stream.rs:193)",
        n,
        len_seen_by_a
    );
}
