//! C03 demo 2: in a version 3 file the crate lets a stream grow past the
//! version 3 size limit (2 GiB; the size field is 32 bits wide in v3).  The
//! image then has a stream whose size field does not match its chain, and the
//! crate itself reads the stream back with a different length.
//!
//! Run with --release (about 5 s); a debug build needs considerably longer.
use cfb::{CompoundFile, Version};
use std::io::{self, Read, Seek, SeekFrom, Write};

const PAGE: usize = 4096;
/// Sparse in-memory file: pages that only ever received zeros are not stored.
/// Honours the Read/Write/Seek contracts (reads of holes give zeros).
struct Sparse {
    pages: Vec<Option<Box<[u8; PAGE]>>>,
    len: u64,
    pos: u64,
}
impl Sparse {
    fn new() -> Sparse {
        Sparse { pages: Vec::new(), len: 0, pos: 0 }
    }
    fn at(&mut self, off: u64, n: usize) -> Vec<u8> {
        let mut v = vec![0u8; n];
        self.seek(SeekFrom::Start(off)).unwrap();
        self.read_exact(&mut v).unwrap();
        v
    }
}
impl Read for Sparse {
    fn read(&mut self, buf: &mut [u8]) -> io::Result<usize> {
        if self.pos >= self.len {
            return Ok(0);
        }
        let pi = (self.pos / PAGE as u64) as usize;
        let off = (self.pos % PAGE as u64) as usize;
        let n = buf.len().min(PAGE - off).min((self.len - self.pos) as usize);
        match self.pages.get(pi).and_then(|p| p.as_ref()) {
            Some(p) => buf[..n].copy_from_slice(&p[off..off + n]),
            None => buf[..n].fill(0),
        }
        self.pos += n as u64;
        Ok(n)
    }
}
impl Write for Sparse {
    fn write(&mut self, buf: &[u8]) -> io::Result<usize> {
        if buf.is_empty() {
            return Ok(0);
        }
        let pi = (self.pos / PAGE as u64) as usize;
        let off = (self.pos % PAGE as u64) as usize;
        let n = buf.len().min(PAGE - off);
        if pi >= self.pages.len() {
            self.pages.resize_with(pi + 1, || None);
        }
        let zero = buf[..n].iter().all(|&b| b == 0);
        match &mut self.pages[pi] {
            Some(p) => p[off..off + n].copy_from_slice(&buf[..n]),
            None => {
                if !zero {
                    let mut p = Box::new([0u8; PAGE]);
                    p[off..off + n].copy_from_slice(&buf[..n]);
                    self.pages[pi] = Some(p);
                }
            }
        }
        self.pos += n as u64;
        self.len = self.len.max(self.pos);
        Ok(n)
    }
    fn flush(&mut self) -> io::Result<()> {
        Ok(())
    }
}
impl Seek for Sparse {
    fn seek(&mut self, p: SeekFrom) -> io::Result<u64> {
        let np = match p {
            SeekFrom::Start(o) => o as i128,
            SeekFrom::End(d) => self.len as i128 + d as i128,
            SeekFrom::Current(d) => self.pos as i128 + d as i128,
        };
        if np < 0 || np > u64::MAX as i128 {
            return Err(io::Error::new(io::ErrorKind::InvalidInput, "seek"));
        }
        self.pos = np as u64;
        Ok(self.pos)
    }
}

fn u32at(b: &[u8], o: usize) -> u32 {
    u32::from_le_bytes([b[o], b[o + 1], b[o + 2], b[o + 3]])
}

/// Independent look at the image: (major version, raw 64-bit size field of
/// the first stream entry, number of sectors in that stream's FAT chain).
fn inspect(f: &mut Sparse) -> (u16, u64, u64) {
    const EOC: u32 = 0xFFFF_FFFE;
    const FREE: u32 = 0xFFFF_FFFF;
    let h = f.at(0, 512);
    let major = u16::from_le_bytes([h[26], h[27]]);
    let ss = 1u64 << u16::from_le_bytes([h[30], h[31]]);
    let mut difat: Vec<u32> = (0..109).map(|i| u32at(&h, 76 + 4 * i)).collect();
    let mut cur = u32at(&h, 68);
    while cur != EOC {
        let s = f.at((cur as u64 + 1) * ss, ss as usize);
        for i in 0..(ss as usize / 4 - 1) {
            difat.push(u32at(&s, 4 * i));
        }
        cur = u32at(&s, ss as usize - 4);
    }
    let mut fat: Vec<u32> = Vec::new();
    for &fs in difat.iter().take_while(|&&e| e != FREE) {
        let s = f.at((fs as u64 + 1) * ss, ss as usize);
        for i in 0..ss as usize / 4 {
            fat.push(u32at(&s, 4 * i));
        }
    }
    let mut dir = u32at(&h, 48);
    while dir != EOC {
        let s = f.at((dir as u64 + 1) * ss, ss as usize);
        for e in s.chunks(128) {
            if e[66] == 2 {
                let mut a = [0u8; 8];
                a.copy_from_slice(&e[120..128]);
                let size = u64::from_le_bytes(a);
                let mut n = 0u64;
                let mut c = u32at(e, 116);
                while c != EOC {
                    n += 1;
                    assert!(n <= fat.len() as u64, "loop in chain");
                    c = fat[c as usize];
                }
                return (major, size, n);
            }
        }
        dir = fat[dir as usize];
    }
    panic!("no stream entry found");
}

#[test]
fn v3_stream_can_grow_past_the_v3_size_limit() {
    let mut comp =
        CompoundFile::create_with_version(Version::V3, Sparse::new()).unwrap();
    let want: u64 = (1u64 << 32) + 512;
    let mut s = comp.create_stream("/big").unwrap();
    let set_len_result = s.set_len(want).map_err(|e| e.to_string());
    let flush_result = s.flush().map_err(|e| e.to_string());
    let handle_len = s.len();
    drop(s);
    comp.flush().unwrap();
    let mut image = comp.into_inner();

    let (major, raw_size, chain_sectors) = inspect(&mut image);
    // MS-CFB 2.6.1: in a version 3 file the stream size MUST be <= 0x80000000,
    // so the most significant 32 bits MUST be zero; readers are told to
    // ignore them.
    let v3_size = raw_size & 0xFFFF_FFFF;
    let needed = v3_size.div_ceil(512);

    let reopened_len = CompoundFile::open_strict(image)
        .and_then(|c| c.entry("/big").map(|e| e.len()))
        .map_err(|e| e.to_string());

    assert!(
        raw_size <= 0x8000_0000 && chain_sectors == needed,
        "C03 requires each stream's chain length to match its size under \
         the MS-CFB rules, in both versions.  Version {} file: \
         set_len({}) returned {:?}, flush {:?}, handle.len() = {}.  The \
         image's size field is {:#x} (v3 limit is 0x80000000, high 32 bits \
         MUST be zero); as a v3 reader sees it the stream has {} bytes and \
         needs {} sector(s), but its chain has {} sectors.  The crate's own \
         strict reopen reports the stream length as {:?}.",
        major,
        want,
        set_len_result,
        flush_result,
        handle_len,
        raw_size,
        v3_size,
        needed,
        chain_sectors,
        reopened_len
    );
}
