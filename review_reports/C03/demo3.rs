//! C03 demo 3 (lower severity, borderline scope): the time setters accept the
//! root storage.  MS-CFB 2.6.1 says of the Creation Time field "For a root
//! storage object, this field MUST be all zeroes", and the crate's own doc
//! comment on `touch` promises "Has no effect when called on the root
//! storage".
use cfb::{CompoundFile, Version};
use std::convert::TryInto;
use std::io::Cursor;
use std::time::{Duration, UNIX_EPOCH};

fn root_times(image: &[u8], sector_len: usize) -> (u64, u64) {
    // Entry 0 of the first directory sector is the root entry.
    let first_dir =
        u32::from_le_bytes(image[48..52].try_into().unwrap()) as usize;
    let e = &image[(first_dir + 1) * sector_len..][..128];
    assert_eq!(e[66], 5, "entry 0 must be the root entry");
    (
        u64::from_le_bytes(e[100..108].try_into().unwrap()),
        u64::from_le_bytes(e[108..116].try_into().unwrap()),
    )
}

#[test]
fn set_created_time_on_root_writes_a_root_creation_time() {
    for version in [Version::V3, Version::V4] {
        let mut comp =
            CompoundFile::create_with_version(version, Cursor::new(Vec::new()))
                .unwrap();
        let r = comp.set_created_time(
            "/",
            UNIX_EPOCH + Duration::from_secs(1_000_000_000),
        );
        comp.flush().unwrap();
        let image = comp.into_inner().into_inner();
        let (created, _) = root_times(&image, version.sector_len());
        assert!(
            created == 0,
            "C03 requires the image to satisfy the MS-CFB directory entry \
             rules after any successful history; MS-CFB 2.6.1: for the root \
             storage the creation time MUST be all zeroes.  \
             set_created_time(\"/\") returned {:?} and the root entry's \
             creation time field in the {:?} image is now {:#x}",
            r,
            version,
            created
        );
    }
}

#[test]
fn touch_on_root_is_documented_to_have_no_effect() {
    let mut comp = CompoundFile::create_with_version(
        Version::V3,
        Cursor::new(Vec::new()),
    )
    .unwrap();
    comp.touch("/").unwrap();
    comp.flush().unwrap();
    let image = comp.into_inner().into_inner();
    let (_, modified) = root_times(&image, 512);
    assert!(
        modified == 0,
        "the doc comment of CompoundFile::touch says \"Has no effect when \
         called on the root storage\", but afterwards the root entry's \
         modified time field is {:#x}",
        modified
    );
}
