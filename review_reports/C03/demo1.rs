//! C03 demo 1: a Stream handle that is written back (flush or drop) after
//! `remove_stream` removed its stream scribbles over the freed directory
//! entry and over another stream's mini chain.
use cfb::{CompoundFile, Version};
use std::io::{Cursor, Read, Write};

fn run(version: Version, stale_len: usize) {
    let mut comp =
        CompoundFile::create_with_version(version, Cursor::new(Vec::new()))
            .unwrap();
    // A bystander stream that lives in mini sectors 0 and 1.
    let mut keep = comp.create_stream("/keep").unwrap();
    keep.write_all(&[b'K'; 100]).unwrap();
    keep.flush().unwrap();
    drop(keep);
    // A second stream: the data is written but still only in the handle's
    // buffer when the stream is removed.
    let mut gone = comp.create_stream("/gone").unwrap();
    gone.write_all(&vec![b'g'; stale_len]).unwrap();
    comp.remove_stream("/gone").unwrap();
    assert!(!comp.exists("/gone"));
    // Every call so far returned Ok.  Now the handle is flushed (dropping it
    // instead does the same thing silently).
    // (In a debug build the crate panics on a debug assertion here, which
    // is a defect as well; catch it so that this test can say so.)
    let flushed = std::panic::catch_unwind(std::panic::AssertUnwindSafe(
        || {
            let r = gone.flush();
            drop(gone);
            r
        },
    ));
    let flushed = match flushed {
        Ok(r) => r,
        Err(_) => panic!(
            "C03 requires a history of successful operations to leave a \
             well-formed image; instead flushing a handle whose stream was \
             removed PANICKED inside the crate (debug assertion at \
             src/internal/stream.rs:345); run with --release to see the \
             malformed image this produces when assertions are off"
        ),
    };
    comp.flush().unwrap();

    let mut data = Vec::new();
    let reread = comp
        .open_stream("/keep")
        .and_then(|mut s| s.read_to_end(&mut data))
        .map_err(|e| e.to_string());
    let image = comp.into_inner().into_inner();
    let violations = chk::check(&image);
    let strict = CompoundFile::open_strict(Cursor::new(image.clone()))
        .map(|_| "accepted")
        .map_err(|e| e.to_string());
    assert!(
        violations.is_empty() && data == vec![b'K'; 100],
        "C03 requires every image produced by successful operations to be \
         well-formed MS-CFB (unallocated entries blank, every chain owned by \
         exactly one stream).  After create_stream(/gone) + write + \
         remove_stream(/gone) + flush of the old handle (returned {:?}) in \
         {:?}: checker reports {:#?}; the crate's own strict open says \
         {:?}; reading the other stream /keep gives {:?}, starting with {:?} \
         (expected Ok(100) and 'K's)",
        flushed,
        version,
        violations,
        strict,
        reread,
        String::from_utf8_lossy(&data[..8.min(data.len())])
    );
}

#[test]
fn stale_handle_flush_after_remove_v4() {
    run(Version::V4, 5);
}

/// Same, but the buffered data is past the 4096 cutoff: the write-back
/// "migrates" the removed stream, i.e. frees the bystander's mini chain and
/// allocates a regular chain that nothing owns.
#[test]
fn stale_handle_big_flush_after_remove_v3() {
    run(Version::V3, 5000);
}

#[test]
fn stale_handle_flush_after_remove_v3() {
    run(Version::V3, 5);
}

/// Control: the same history without the stale handle is well-formed, so the
/// checker itself accepts what the crate normally writes.
#[test]
fn control_without_stale_handle() {
    let mut comp = CompoundFile::create_with_version(
        Version::V3,
        Cursor::new(Vec::new()),
    )
    .unwrap();
    let mut keep = comp.create_stream("/keep").unwrap();
    keep.write_all(&[b'K'; 100]).unwrap();
    drop(keep);
    let mut gone = comp.create_stream("/gone").unwrap();
    gone.write_all(b"hello").unwrap();
    drop(gone);
    comp.remove_stream("/gone").unwrap();
    comp.create_storage("/st").unwrap();
    let mut big = comp.create_stream("/st/big").unwrap();
    big.write_all(&vec![7u8; 70000]).unwrap();
    drop(big);
    comp.flush().unwrap();
    let image = comp.into_inner().into_inner();
    assert_eq!(chk::check(&image), Vec::<String>::new());
}
// ------------------------------------------------------------------------
// Independent MS-CFB structural checker (shares no code with the crate).
// Returns the list of rule violations found in the byte image.
// ------------------------------------------------------------------------
#[allow(dead_code)]
mod chk {
    use std::collections::HashSet;
    pub const FREE: u32 = 0xFFFF_FFFF;
    pub const EOC: u32 = 0xFFFF_FFFE;
    pub const FATSECT: u32 = 0xFFFF_FFFD;
    pub const DIFSECT: u32 = 0xFFFF_FFFC;
    pub const MAXREG: u32 = 0xFFFF_FFFA;
    pub const NOSTREAM: u32 = 0xFFFF_FFFF;

    fn u16at(b: &[u8], o: usize) -> u16 {
        u16::from_le_bytes([b[o], b[o + 1]])
    }
    fn u32at(b: &[u8], o: usize) -> u32 {
        u32::from_le_bytes([b[o], b[o + 1], b[o + 2], b[o + 3]])
    }
    fn u64at(b: &[u8], o: usize) -> u64 {
        let mut a = [0u8; 8];
        a.copy_from_slice(&b[o..o + 8]);
        u64::from_le_bytes(a)
    }

    struct Ent {
        name: Vec<u16>,
        name_len: u16,
        typ: u8,
        color: u8,
        left: u32,
        right: u32,
        child: u32,
        clsid_zero: bool,
        ctime: u64,
        mtime: u64,
        start: u32,
        size: u64,
        raw_blank: bool,
    }

    fn up(u: u16) -> u16 {
        if (b'a' as u16..=b'z' as u16).contains(&u) {
            u - 32
        } else {
            u
        }
    }
    fn cmp_names(a: &[u16], b: &[u16]) -> std::cmp::Ordering {
        a.len().cmp(&b.len()).then_with(|| {
            let x: Vec<u16> = a.iter().map(|&u| up(u)).collect();
            let y: Vec<u16> = b.iter().map(|&u| up(u)).collect();
            x.cmp(&y)
        })
    }

    pub fn check(img: &[u8]) -> Vec<String> {
        let mut v: Vec<String> = Vec::new();
        if img.len() < 512 {
            v.push("image shorter than a header".into());
            return v;
        }
        if img[0..8] != [0xd0, 0xcf, 0x11, 0xe0, 0xa1, 0xb1, 0x1a, 0xe1] {
            v.push("bad signature".into());
            return v;
        }
        let major = u16at(img, 26);
        let shift = u16at(img, 30);
        if !((major == 3 && shift == 9) || (major == 4 && shift == 12)) {
            v.push(format!("bad version/sector shift {}/{}", major, shift));
            return v;
        }
        if u16at(img, 28) != 0xFFFE {
            v.push("bad byte order mark".into());
        }
        if u16at(img, 32) != 6 {
            v.push("bad mini sector shift".into());
        }
        if u32at(img, 56) != 4096 {
            v.push("bad mini stream cutoff".into());
        }
        let ss = 1usize << shift;
        if img.len() % ss != 0 {
            v.push(format!(
                "file length {} is not a whole number of {}-byte sectors",
                img.len(),
                ss
            ));
        }
        let nsec = img.len() / ss - 1;
        let sec = |s: u32| -> &[u8] {
            let o = (s as usize + 1) * ss;
            &img[o..o + ss]
        };
        let num_dir_hdr = u32at(img, 40);
        let num_fat_hdr = u32at(img, 44);
        let first_dir = u32at(img, 48);
        let first_minifat = u32at(img, 60);
        let num_minifat_hdr = u32at(img, 64);
        let first_difat = u32at(img, 68);
        let num_difat_hdr = u32at(img, 72);
        if major == 3 && num_dir_hdr != 0 {
            v.push("v3 header has nonzero directory sector count".into());
        }

        // DIFAT
        let mut difat: Vec<u32> =
            (0..109).map(|i| u32at(img, 76 + 4 * i)).collect();
        let mut difat_secs: Vec<u32> = Vec::new();
        let mut cur = first_difat;
        while cur != EOC {
            if cur as usize >= nsec || difat_secs.contains(&cur) {
                v.push(format!("DIFAT chain broken at {:#x}", cur));
                return v;
            }
            difat_secs.push(cur);
            let s = sec(cur);
            for i in 0..(ss / 4 - 1) {
                difat.push(u32at(s, 4 * i));
            }
            cur = u32at(s, ss - 4);
        }
        if difat_secs.len() as u32 != num_difat_hdr {
            v.push(format!(
                "header says {} DIFAT sectors, chain has {}",
                num_difat_hdr,
                difat_secs.len()
            ));
        }
        let used = difat.iter().position(|&e| e == FREE).unwrap_or(difat.len());
        if difat[used..].iter().any(|&e| e != FREE) {
            v.push("DIFAT has entries after its first free slot".into());
        }
        let fat_secs: Vec<u32> = difat[..used].to_vec();
        if fat_secs.len() as u32 != num_fat_hdr {
            v.push(format!(
                "header says {} FAT sectors, DIFAT lists {}",
                num_fat_hdr,
                fat_secs.len()
            ));
        }
        let mut fat: Vec<u32> = Vec::new();
        for &fs in &fat_secs {
            if fs as usize >= nsec {
                v.push(format!("FAT sector {} beyond end of file", fs));
                return v;
            }
            let s = sec(fs);
            for i in 0..ss / 4 {
                fat.push(u32at(s, 4 * i));
            }
        }
        if fat.len() < nsec {
            v.push(format!(
                "FAT covers {} sectors but file has {}",
                fat.len(),
                nsec
            ));
            return v;
        }
        if fat[nsec..].iter().any(|&e| e != FREE) {
            v.push("FAT entries beyond end of file are not FREE".into());
        }
        let mut owner: Vec<Option<String>> = vec![None; nsec];
        let mut claim = |v: &mut Vec<String>, s: u32, who: &str| {
            if let Some(prev) = &owner[s as usize] {
                v.push(format!(
                    "sector {} belongs to both {} and {}",
                    s, prev, who
                ));
            } else {
                owner[s as usize] = Some(who.to_string());
            }
        };
        for &s in &fat_secs {
            if fat[s as usize] != FATSECT {
                v.push(format!("FAT sector {} not marked FATSECT", s));
            }
            claim(&mut v, s, "FAT");
        }
        for &s in &difat_secs {
            if fat[s as usize] != DIFSECT {
                v.push(format!("DIFAT sector {} not marked DIFSECT", s));
            }
            claim(&mut v, s, "DIFAT");
        }
        for (i, &e) in fat[..nsec].iter().enumerate() {
            if e == FATSECT && !fat_secs.contains(&(i as u32)) {
                v.push(format!("sector {} marked FATSECT but not in DIFAT", i));
            }
            if e == DIFSECT && !difat_secs.contains(&(i as u32)) {
                v.push(format!("sector {} marked DIFSECT but not in chain", i));
            }
        }
        // generic chain walker
        let walk = |v: &mut Vec<String>,
                    table: &[u32],
                    limit: usize,
                    start: u32,
                    who: &str|
         -> Vec<u32> {
            let mut out = Vec::new();
            let mut seen = HashSet::new();
            let mut cur = start;
            while cur != EOC {
                if cur > MAXREG || cur as usize >= limit {
                    v.push(format!(
                        "chain of {} reaches invalid id {:#x}",
                        who, cur
                    ));
                    break;
                }
                if !seen.insert(cur) {
                    v.push(format!("chain of {} loops at {}", who, cur));
                    break;
                }
                out.push(cur);
                cur = table[cur as usize];
                if cur == FREE || cur == FATSECT || cur == DIFSECT {
                    v.push(format!(
                        "chain of {} runs into a sector marked {:#x}",
                        who, cur
                    ));
                    break;
                }
            }
            out
        };
        // directory
        let dir_chain = walk(&mut v, &fat, nsec, first_dir, "directory");
        for &s in &dir_chain {
            claim(&mut v, s, "directory");
        }
        if major == 4 && dir_chain.len() as u32 != num_dir_hdr {
            v.push(format!(
                "header says {} directory sectors, chain has {}",
                num_dir_hdr,
                dir_chain.len()
            ));
        }
        let mut ents: Vec<Ent> = Vec::new();
        for &s in &dir_chain {
            let sb = sec(s);
            for k in 0..ss / 128 {
                let e = &sb[k * 128..(k + 1) * 128];
                let raw_blank = e[..68].iter().all(|&b| b == 0)
                    && u32at(e, 68) == NOSTREAM
                    && u32at(e, 72) == NOSTREAM
                    && u32at(e, 76) == NOSTREAM
                    && e[80..].iter().all(|&b| b == 0);
                ents.push(Ent {
                    name: (0..32).map(|i| u16at(e, 2 * i)).collect(),
                    name_len: u16at(e, 64),
                    typ: e[66],
                    color: e[67],
                    left: u32at(e, 68),
                    right: u32at(e, 72),
                    child: u32at(e, 76),
                    clsid_zero: e[80..96].iter().all(|&b| b == 0),
                    ctime: u64at(e, 100),
                    mtime: u64at(e, 108),
                    start: u32at(e, 116),
                    size: u64at(e, 120),
                    raw_blank,
                });
            }
        }
        if ents.is_empty() || ents[0].typ != 5 {
            v.push("entry 0 is not a root entry".into());
            return v;
        }
        // mini stream + MiniFAT
        let root_size = ents[0].size;
        if root_size % 64 != 0 {
            v.push("mini stream size not a multiple of 64".into());
        }
        let mini_chain = if ents[0].start == EOC {
            Vec::new()
        } else {
            walk(&mut v, &fat, nsec, ents[0].start, "mini stream")
        };
        for &s in &mini_chain {
            claim(&mut v, s, "mini stream");
        }
        if ((mini_chain.len() * ss) as u64) < root_size {
            v.push(format!(
                "mini stream size {} but its chain holds only {} bytes",
                root_size,
                mini_chain.len() * ss
            ));
        }
        let minifat_chain = if first_minifat == EOC {
            Vec::new()
        } else {
            walk(&mut v, &fat, nsec, first_minifat, "MiniFAT")
        };
        for &s in &minifat_chain {
            claim(&mut v, s, "MiniFAT");
        }
        if minifat_chain.len() as u32 != num_minifat_hdr {
            v.push(format!(
                "header says {} MiniFAT sectors, chain has {}",
                num_minifat_hdr,
                minifat_chain.len()
            ));
        }
        let mut minifat: Vec<u32> = Vec::new();
        for &s in &minifat_chain {
            let sb = sec(s);
            for i in 0..ss / 4 {
                minifat.push(u32at(sb, 4 * i));
            }
        }
        let nmini = (root_size / 64) as usize;
        if minifat.len() < nmini {
            v.push("MiniFAT does not cover the mini stream".into());
            return v;
        }
        if minifat[nmini..].iter().any(|&e| e != FREE) {
            v.push("MiniFAT entries beyond the mini stream are not FREE".into());
        }
        let mut mowner: Vec<Option<String>> = vec![None; nmini];

        // tree walk
        let mut reached = vec![false; ents.len()];
        reached[0] = true;
        let mut storages = vec![0u32];
        while let Some(sid) = storages.pop() {
            let root_child = ents[sid as usize].child;
            if root_child == NOSTREAM {
                continue;
            }
            // (id, parent_red, lower bound, upper bound)
            let mut stack: Vec<(u32, bool, Option<Vec<u16>>, Option<Vec<u16>>)> =
                vec![(root_child, false, None, None)];
            while let Some((id, parent_red, lo, hi)) = stack.pop() {
                if id as usize >= ents.len() {
                    v.push(format!("tree refers to entry {} beyond directory", id));
                    continue;
                }
                if reached[id as usize] {
                    v.push(format!("entry {} reached twice", id));
                    continue;
                }
                reached[id as usize] = true;
                let e = &ents[id as usize];
                let who = format!("entry {}", id);
                if e.typ != 1 && e.typ != 2 {
                    v.push(format!(
                        "{} is linked into the tree but has object type {}",
                        who, e.typ
                    ));
                }
                if e.name_len < 2 || e.name_len > 64 || e.name_len % 2 != 0 {
                    v.push(format!("{} has bad name length {}", who, e.name_len));
                    continue;
                }
                let n = (e.name_len / 2 - 1) as usize;
                let name = e.name[..n].to_vec();
                if e.name[n..].iter().any(|&u| u != 0) {
                    v.push(format!("{} name not zero padded", who));
                }
                if let Some(lo) = &lo {
                    if cmp_names(lo, &name) != std::cmp::Ordering::Less {
                        v.push(format!("{} violates search tree order", who));
                    }
                }
                if let Some(hi) = &hi {
                    if cmp_names(&name, hi) != std::cmp::Ordering::Less {
                        v.push(format!("{} violates search tree order", who));
                    }
                }
                let red = e.color == 0;
                if red && parent_red {
                    v.push(format!("{} is red under a red parent", who));
                }
                if e.left != NOSTREAM {
                    stack.push((e.left, red, lo.clone(), Some(name.clone())));
                }
                if e.right != NOSTREAM {
                    stack.push((e.right, red, Some(name.clone()), hi.clone()));
                }
                if e.typ == 1 {
                    if e.start != 0 || e.size != 0 {
                        v.push(format!(
                            "storage {} has start sector {:#x} / size {}",
                            who, e.start, e.size
                        ));
                    }
                    storages.push(id);
                } else if e.typ == 2 {
                    if !e.clsid_zero {
                        v.push(format!("stream {} has a CLSID", who));
                    }
                    if e.ctime != 0 || e.mtime != 0 {
                        v.push(format!("stream {} has timestamps", who));
                    }
                    if e.child != NOSTREAM {
                        v.push(format!("stream {} has a child", who));
                    }
                    let size = if major == 3 {
                        if e.size >> 32 != 0 {
                            v.push(format!(
                                "v3 stream {} has size {:#x}: the high 32 bits \
                                 are not zero",
                                who, e.size
                            ));
                        }
                        e.size & 0xFFFF_FFFF
                    } else {
                        e.size
                    };
                    if size >= 4096 {
                        let c = walk(&mut v, &fat, nsec, e.start, &who);
                        for &s in &c {
                            claim(&mut v, s, &who);
                        }
                        let need = size.div_ceil(ss as u64);
                        if c.len() as u64 != need {
                            v.push(format!(
                                "stream {} has size {} (needs {} sectors) but \
                                 its chain has {} sectors",
                                who, size, need, c.len()
                            ));
                        }
                    } else if size > 0 {
                        let c = walk(&mut v, &minifat, nmini, e.start, &who);
                        for &s in &c {
                            if let Some(prev) = &mowner[s as usize] {
                                v.push(format!(
                                    "mini sector {} belongs to both {} and {}",
                                    s, prev, who
                                ));
                            } else {
                                mowner[s as usize] = Some(who.clone());
                            }
                        }
                        let need = size.div_ceil(64);
                        if c.len() as u64 != need {
                            v.push(format!(
                                "stream {} has size {} (needs {} mini sectors) \
                                 but its mini chain has {}",
                                who, size, need, c.len()
                            ));
                        }
                    }
                }
            }
        }
        for (i, e) in ents.iter().enumerate() {
            if !reached[i] && !e.raw_blank {
                v.push(format!(
                    "directory entry {} is not part of the tree (object type \
                     {}) but is not blank: start sector {:#x}, size {}",
                    i, e.typ, e.start, e.size
                ));
            }
        }
        for (i, o) in owner.iter().enumerate() {
            if o.is_none() && fat[i] != FREE {
                v.push(format!(
                    "sector {} is allocated (FAT entry {:#x}) but belongs to \
                     nothing",
                    i, fat[i]
                ));
            }
            if o.is_some() && fat[i] == FREE {
                v.push(format!("sector {} is in use but marked FREE", i));
            }
        }
        for (i, o) in mowner.iter().enumerate() {
            if o.is_none() && minifat[i] != FREE {
                v.push(format!(
                    "mini sector {} is allocated (MiniFAT entry {:#x}) but \
                     belongs to no stream",
                    i, minifat[i]
                ));
            }
            if o.is_some() && minifat[i] == FREE {
                v.push(format!("mini sector {} is in use but marked FREE", i));
            }
        }
        v
    }
}
