// C17 demo 1: a metadata setter that REFUSES (returns Err) still changes what
// entry lookups return, the change does not survive reopening, and a later,
// unrelated, successful call can even persist the refused value.
//
// Part A needs no special backend: `cfb::open(path)` (the documented
// read-only constructor) returns a CompoundFile<File> on which the setters
// are callable; the OS refuses the write (EBADF), the setter returns Err, but
// the in-memory directory entry has already been modified.
//
// Part B uses a backend whose `write` returns one ordinary transient
// io::Error (allowed by the Write contract) and shows that the refused state
// bits later reach the file through a *different* successful setter.

use std::io::{self, Cursor, Read, Seek, SeekFrom, Write};
use std::sync::atomic::{AtomicBool, Ordering};
use std::sync::Arc;
use std::time::{Duration, UNIX_EPOCH};
use uuid::Uuid;

#[test]
fn part_a_refused_setters_on_a_read_only_file_change_lookups() {
    let dir = tempfile::tempdir().unwrap();
    let path = dir.path().join("a.cfb");
    let old_clsid = Uuid::from_u128(0x1111);
    let old_time = UNIX_EPOCH + Duration::from_secs(1_000_000);
    {
        let mut comp = cfb::create(&path).unwrap();
        comp.create_storage("/s").unwrap();
        comp.set_state_bits("/s", 0x1111_1111).unwrap();
        comp.set_storage_clsid("/s", old_clsid).unwrap();
        comp.set_created_time("/s", old_time).unwrap();
        comp.set_modified_time("/s", old_time).unwrap();
        comp.flush().unwrap();
    }

    // Read-only mode.
    let mut comp = cfb::open(&path).unwrap();
    let new_time = UNIX_EPOCH + Duration::from_secs(2_000_000);
    assert!(comp.set_state_bits("/s", 0x2222_2222).is_err());
    assert!(comp.set_storage_clsid("/s", Uuid::from_u128(0x2222)).is_err());
    assert!(comp.set_created_time("/s", new_time).is_err());
    assert!(comp.set_modified_time("/s", new_time).is_err());
    // All four calls were refused, so the metadata that was really set is
    // still the old one, and that is what the file holds:
    let now = comp.entry("/s").unwrap();
    let reopened = cfb::open(&path).unwrap().entry("/s").unwrap();
    assert_eq!(reopened.state_bits(), 0x1111_1111);
    assert_eq!(*reopened.clsid(), old_clsid);
    assert_eq!(reopened.created(), old_time);
    assert_eq!(reopened.modified(), old_time);

    let mut wrong = Vec::new();
    if now.state_bits() != reopened.state_bits() {
        wrong.push(format!(
            "state bits: lookup {:#x}, file {:#x}",
            now.state_bits(),
            reopened.state_bits()
        ));
    }
    if now.clsid() != reopened.clsid() {
        wrong.push(format!(
            "clsid: lookup {}, file {}",
            now.clsid(),
            reopened.clsid()
        ));
    }
    if now.created() != reopened.created() {
        wrong.push(format!(
            "created: lookup {:?}, file {:?}",
            now.created(),
            reopened.created()
        ));
    }
    if now.modified() != reopened.modified() {
        wrong.push(format!(
            "modified: lookup {:?}, file {:?}",
            now.modified(),
            reopened.modified()
        ));
    }
    // The listing shows the same wrong values as the lookup.
    let listed = comp.read_root_storage().next().unwrap();
    assert_eq!(listed.state_bits(), now.state_bits());
    assert!(
        wrong.is_empty(),
        "C17 requires that lookups return the metadata that was set (every \
         setter here returned Err, so that is the old metadata, which is also \
         what survives reopening); observed after the refused setters: {}",
        wrong.join("; ")
    );
}

struct Flaky {
    inner: Cursor<Vec<u8>>,
    fail_writes: Arc<AtomicBool>,
}
impl Read for Flaky {
    fn read(&mut self, buf: &mut [u8]) -> io::Result<usize> {
        self.inner.read(buf)
    }
}
impl Seek for Flaky {
    fn seek(&mut self, pos: SeekFrom) -> io::Result<u64> {
        self.inner.seek(pos)
    }
}
impl Write for Flaky {
    fn write(&mut self, buf: &[u8]) -> io::Result<usize> {
        if self.fail_writes.load(Ordering::SeqCst) {
            return Err(io::Error::new(io::ErrorKind::Other, "disk busy"));
        }
        self.inner.write(buf)
    }
    fn flush(&mut self) -> io::Result<()> {
        self.inner.flush()
    }
}

#[test]
fn part_b_refused_state_bits_are_persisted_by_a_later_unrelated_call() {
    let fail_writes = Arc::new(AtomicBool::new(false));
    let backend = Flaky {
        inner: Cursor::new(Vec::new()),
        fail_writes: fail_writes.clone(),
    };
    let mut comp = cfb::CompoundFile::create(backend).unwrap();
    comp.create_storage("/s").unwrap();
    comp.set_state_bits("/s", 0x1111_1111).unwrap();

    fail_writes.store(true, Ordering::SeqCst);
    let refused = comp.set_state_bits("/s", 0x2222_2222);
    fail_writes.store(false, Ordering::SeqCst);
    assert!(refused.is_err());

    // The caller was told that the state bits were NOT set and moves on to
    // something else, which succeeds:
    comp.set_storage_clsid("/s", Uuid::from_u128(7)).unwrap();
    comp.flush().unwrap();

    let bytes = comp.into_inner().inner.into_inner();
    let reopened = cfb::CompoundFile::open_strict(Cursor::new(bytes)).unwrap();
    let entry = reopened.entry("/s").unwrap();
    assert_eq!(*entry.clsid(), Uuid::from_u128(7));
    assert_eq!(
        entry.state_bits(),
        0x1111_1111,
        "C17 requires the state bits that were set (0x11111111; the call \
         with 0x22222222 returned Err) to survive reopening, but the file \
         holds {:#x}: the refused value was written by the later \
         set_storage_clsid",
        entry.state_bits()
    );
}
