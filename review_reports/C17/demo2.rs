// C17 demo 2: a Stream handle that is used after its stream was removed and
// its directory slot was reused by a new STORAGE destroys the storage's entry:
//  * debug build: the write panics inside the crate while holding the write
//    lock; the lock is poisoned and every later entry lookup panics, so the
//    CLSID / state bits / times that were set can no longer be read at all;
//  * release build: the write returns Ok, goes into mini sector 0 (the data
//    of an unrelated stream), and gives the storage a stream length, so the
//    file the crate wrote is rejected by strict reopening - the metadata does
//    not survive reopening.

use std::io::{Cursor, Read, Write};
use std::panic::{catch_unwind, AssertUnwindSafe};
use std::time::{Duration, UNIX_EPOCH};
use uuid::Uuid;

#[test]
fn stale_stream_handle_on_a_slot_reused_by_a_storage() {
    let mut comp =
        cfb::CompoundFile::create(Cursor::new(Vec::new())).unwrap();
    {
        let mut other = comp.create_stream("/other").unwrap();
        other.write_all(&[7u8; 100]).unwrap();
    }
    // An empty stream, with a handle that is kept.
    let mut handle = comp.create_stream("/a").unwrap();
    comp.remove_stream("/a").unwrap();
    // The freed directory slot is reused by a storage, which gets metadata.
    comp.create_storage("/a").unwrap();
    let clsid = Uuid::from_u128(0x1234_5678_9abc_def0);
    let time = UNIX_EPOCH + Duration::from_secs(123_456_789);
    comp.set_storage_clsid("/a", clsid).unwrap();
    comp.set_state_bits("/a", 0xdead_beef).unwrap();
    comp.set_created_time("/a", time).unwrap();
    comp.set_modified_time("/a", time).unwrap();

    // The old handle is used (all legal calls; nothing documents that a
    // handle must not be used after remove_stream).
    let write_result = catch_unwind(AssertUnwindSafe(|| {
        handle.write_all(b"hello").and_then(|()| handle.flush())
    }));
    let write_desc = match &write_result {
        Ok(result) => format!("returned {:?}", result),
        Err(_) => "PANICKED".to_string(),
    };

    // 1. Immediately: lookups must still return what was set.
    let lookup = catch_unwind(AssertUnwindSafe(|| {
        let entry = comp.entry("/a").unwrap();
        (*entry.clsid(), entry.state_bits(), entry.created(), entry.modified())
    }));
    assert!(
        lookup.is_ok(),
        "C17 requires entry lookups to return the metadata that was set at \
         any point of a history; observed: the write through the old handle \
         {} and afterwards comp.entry(\"/a\") panics (poisoned lock)",
        write_desc
    );
    assert_eq!(lookup.unwrap(), (clsid, 0xdead_beef, time, time));

    // 2. After reopening (strict mode: the crate wrote every byte of this
    //    file itself).
    std::mem::forget(handle);
    comp.flush().unwrap();
    let other_now = {
        let mut data = Vec::new();
        comp.open_stream("/other").unwrap().read_to_end(&mut data).unwrap();
        data
    };
    let bytes = comp.into_inner().into_inner();
    let reopened = cfb::CompoundFile::open_strict(Cursor::new(bytes));
    assert!(
        reopened.is_ok(),
        "C17 requires the metadata of /a to survive reopening; observed: \
         the write through the old handle {}, and the file is now rejected \
         by strict reopening: {}; in addition the unrelated stream /other \
         (100 bytes of 7) now starts with {:?}",
        write_desc,
        reopened.as_ref().err().unwrap(),
        &other_now[..8]
    );
    let entry = reopened.unwrap().entry("/a").unwrap();
    assert_eq!(*entry.clsid(), clsid);
    assert_eq!(entry.state_bits(), 0xdead_beef);
}
