// C08 demo 1: a Stream handle that outlives `remove_stream` of its own stream
// writes into / resizes the mini chain of a DIFFERENT, live stream.
//
// After remove_stream the directory slot is DirEntry::unallocated(), whose
// start_sector is 0 and stream_len is 0.  write_data_to_stream / resize_stream
// never check that the slot still is a stream (only a debug_assert), so they
// treat "start_sector 0, length 0" as a mini chain starting at mini sector 0 -
// which belongs to whichever live stream owns mini sector 0.
//
// debug build : the debug_assert fires inside the call (inside Drop in the
//               first test), poisoning the lock: every later call panics.
// release     : the call returns Ok(()) and the other stream is damaged.
use cfb::{CompoundFile, Version};
use std::io::{Cursor, Read, Write};
use std::panic::{catch_unwind, AssertUnwindSafe};

type Cf = CompoundFile<Cursor<Vec<u8>>>;

fn read_all(c: &mut Cf, p: &str) -> std::io::Result<Vec<u8>> {
    let mut s = c.open_stream(p)?;
    let mut v = Vec::new();
    s.read_to_end(&mut v)?;
    Ok(v)
}

fn check_b(c: Cf, what: &str) {
    // `c` may be poisoned by a panic inside the crate; report that as well.
    let res = catch_unwind(AssertUnwindSafe(move || {
        let mut c = c;
        let now = read_all(&mut c, "b");
        let bytes = c.into_inner().into_inner();
        let reopened = CompoundFile::open_strict(Cursor::new(bytes))
            .and_then(|mut c2| read_all(&mut c2, "b"));
        (now, reopened)
    }));
    let (now, reopened) = match res {
        Ok(x) => x,
        Err(_) => panic!(
            "C08 requires that no data of a removed stream becomes visible \
             through another stream; after {} the CompoundFile cannot \
             even be used any more (lock poisoned by a panic inside the crate)",
            what
        ),
    };
    for (label, got) in [("immediately", now), ("after reopening", reopened)] {
        match got {
            Ok(v) => assert!(
                v == vec![0xBB; 200],
                "C08 requires that no data of a removed stream becomes \
                 visible through another stream; after {}, stream 'b' \
                 (200 x 0xBB, never touched) reads {} as len {} starting \
                 {:02X?}",
                what,
                label,
                v.len(),
                &v[..v.len().min(8)]
            ),
            Err(e) => panic!(
                "C08: after {}, the untouched stream 'b' cannot be read \
                 {}: {}",
                what, label, e
            ),
        }
    }
}

fn setup(version: Version) -> Cf {
    let mut c =
        CompoundFile::create_with_version(version, Cursor::new(Vec::new()))
            .unwrap();
    let mut b = c.create_stream("b").unwrap();
    b.write_all(&[0xBB; 200]).unwrap();
    drop(b);
    c
}

#[test]
fn unflushed_bytes_of_a_removed_stream_land_in_another_stream() {
    for version in [Version::V3, Version::V4] {
        let mut c = setup(version);
        let mut a = c.create_stream("a").unwrap();
        a.write_all(&[0xAA; 100]).unwrap(); // still only in a's buffer
        c.remove_stream("a").unwrap();
        // Dropping the handle flushes its buffer.
        let dropped = catch_unwind(AssertUnwindSafe(move || drop(a)));
        assert!(
            dropped.is_ok(),
            "C08/{:?}: dropping the handle of a removed stream must \
             not panic (it panicked inside Drop, poisoning the CompoundFile)",
            version
        );
        check_b(c, "dropping the dirty handle of the removed stream 'a'");
    }
}

#[test]
fn set_len_through_the_handle_of_a_removed_stream_resizes_another_stream() {
    for version in [Version::V3, Version::V4] {
        let mut c = setup(version);
        let mut a = c.create_stream("a").unwrap();
        a.write_all(&[0xAA; 100]).unwrap();
        a.flush().unwrap();
        c.remove_stream("a").unwrap();
        let r = catch_unwind(AssertUnwindSafe(|| a.set_len(150)));
        match r {
            Err(_) => panic!(
                "C08/{:?}: set_len on the handle of a removed stream \
                 panicked inside the crate instead of returning an error",
                version
            ),
            Ok(r) => println!("set_len(150) on removed stream returned {:?}", r),
        }
        drop(a);
        check_b(c, "set_len(150) through the handle of the removed stream 'a'");
    }
}
