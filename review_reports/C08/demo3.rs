// C08 demo 3: the unflushed bytes of a REMOVED stream end up inside a new
// stream that re-uses its directory slot.
//
// Stream handles identify their stream only by the directory slot number
// (stream_id).  remove_stream does not invalidate open handles, and
// create_stream re-uses the first unallocated slot, so the old handle now
// addresses the new stream; when it is dropped its buffered data is flushed
// into the new stream.  No debug assertion fires here (the slot is a stream
// again), so debug and release behave the same.
use cfb::{CompoundFile, Version};
use std::io::{Cursor, Read, Write};

type Cf = CompoundFile<Cursor<Vec<u8>>>;

fn read_all(c: &mut Cf, p: &str) -> Vec<u8> {
    let mut s = c.open_stream(p).unwrap();
    let mut v = Vec::new();
    s.read_to_end(&mut v).unwrap();
    v
}

#[test]
fn data_of_a_removed_stream_appears_in_the_stream_that_reuses_its_slot() {
    for version in [Version::V3, Version::V4] {
        for &(a_len, b_len) in &[(100usize, 200usize), (100, 5000), (5000, 6000)] {
            let mut c = CompoundFile::create_with_version(
                version,
                Cursor::new(Vec::new()),
            )
            .unwrap();
            let mut a = c.create_stream("secret").unwrap();
            a.write_all(&vec![0xAA; a_len]).unwrap(); // buffered in the handle
            c.remove_stream("secret").unwrap();
            assert!(!c.exists("secret"));

            let mut b = c.create_stream("public").unwrap();
            b.write_all(&vec![0xBB; b_len]).unwrap();
            drop(b);
            assert_eq!(read_all(&mut c, "public"), vec![0xBB; b_len]);

            drop(a); // flushes the removed stream's bytes ... somewhere

            let now = read_all(&mut c, "public");
            let bytes = c.into_inner().into_inner();
            let mut c2 =
                CompoundFile::open_strict(Cursor::new(bytes)).unwrap();
            let reopened = read_all(&mut c2, "public");
            for (label, got) in
                [("immediately", &now), ("after reopening", &reopened)]
            {
                let leaked = got.iter().filter(|&&x| x == 0xAA).count();
                assert!(
                    got == &vec![0xBB; b_len],
                    "C08/{:?}: no data of a removed stream may become visible \
                     through another stream; stream 'public' ({} x 0xBB) \
                     reads {} with {} bytes 0xAA that were only ever written \
                     to the removed stream 'secret' (len now {}, first bytes \
                     {:02X?})",
                    version, b_len, label, leaked, got.len(),
                    &got[..8]
                );
            }
        }
    }
}
