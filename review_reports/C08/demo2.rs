// C08 demo 2: bytes that set_len zeroed come back as the truncated data when a
// second handle on the same stream appends ONE byte.
//
// A Stream's flush writes back its whole buffer window (filled_slice()), not
// just the bytes that were written through the handle.  A handle that merely
// READ the stream earlier still holds the old contents in its window; when it
// later appends a byte, the write-back re-writes the whole cached window over
// the region that a shrink + grow through another handle had zeroed.
use cfb::{CompoundFile, Version};
use std::io::{Cursor, Read, Seek, SeekFrom, Write};

type Cf = CompoundFile<Cursor<Vec<u8>>>;

fn read_all(c: &mut Cf, p: &str) -> Vec<u8> {
    let mut s = c.open_stream(p).unwrap();
    let mut v = Vec::new();
    s.read_to_end(&mut v).unwrap();
    v
}

fn run(version: Version, old_len: usize, short_len: usize) {
    let mut c =
        CompoundFile::create_with_version(version, Cursor::new(Vec::new()))
            .unwrap();
    let mut s = c.create_stream("s").unwrap();
    s.write_all(&vec![0xAA; old_len]).unwrap();
    drop(s);

    // Handle B only reads one byte (this fills its buffer window).
    let mut b = c.open_stream("s").unwrap();
    let mut one = [0u8; 1];
    b.read_exact(&mut one).unwrap();

    // Handle A truncates and grows again: short_len..old_len must now be zero.
    let mut a = c.open_stream("s").unwrap();
    a.set_len(short_len as u64).unwrap();
    a.set_len(old_len as u64).unwrap();
    drop(a);
    let after_grow = read_all(&mut c, "s");
    assert!(after_grow[short_len..].iter().all(|&x| x == 0));

    // Handle B appends a single byte at the end and flushes.
    assert_eq!(b.seek(SeekFrom::End(0)).unwrap(), old_len as u64);
    b.write_all(b"x").unwrap();
    b.flush().unwrap();
    drop(b);

    let now = read_all(&mut c, "s");
    let bytes = c.into_inner().into_inner();
    let mut c2 = CompoundFile::open_strict(Cursor::new(bytes)).unwrap();
    let reopened = read_all(&mut c2, "s");
    for (label, got) in [("immediately", &now), ("after reopening", &reopened)]
    {
        assert_eq!(got.len(), old_len + 1);
        let stale =
            got[short_len..old_len].iter().filter(|&&x| x != 0).count();
        assert!(
            stale == 0,
            "C08/{:?}: set_len({}) then set_len({}) must leave bytes {}..{} \
             zero, and nothing was written there afterwards (only one byte at \
             offset {} through a second handle); {} {} of those bytes read \
             as the truncated data again, e.g. byte {} = {:#04X}",
            version, short_len, old_len, short_len, old_len, old_len, label,
            stale, short_len, got[short_len]
        );
    }
}

#[test]
fn truncated_bytes_come_back_after_a_one_byte_append_through_another_handle() {
    // mini stream, 64-byte boundary, and a regular stream across the cutoff
    for version in [Version::V3, Version::V4] {
        run(version, 100, 10);
        run(version, 128, 64);
        run(version, 6000, 10);
        run(version, 6000, 4096);
    }
}
