#![allow(dead_code, unused_imports)]
use std::cell::{Cell, RefCell};
use std::io::{self, Cursor, Read, Seek, SeekFrom, Write};
use std::rc::Rc;

use cfb::{CompoundFile, Version};

/// An in-memory file that obeys the Read/Write/Seek contracts and can be told
/// to fail exactly one write/seek/flush call (the k-th one) with an error,
/// without performing it.  The bytes are shared, so the test can look at the
/// file image at any time.
#[derive(Clone)]
struct Faulty {
    data: Rc<RefCell<Cursor<Vec<u8>>>>,
    ops: Rc<Cell<u64>>,
    fail_at: Rc<Cell<u64>>, // u64::MAX = never
}

impl Faulty {
    fn new() -> Faulty {
        Faulty {
            data: Rc::new(RefCell::new(Cursor::new(Vec::new()))),
            ops: Rc::new(Cell::new(0)),
            fail_at: Rc::new(Cell::new(u64::MAX)),
        }
    }
    fn tick(&self) -> io::Result<()> {
        let n = self.ops.get();
        self.ops.set(n + 1);
        if n == self.fail_at.get() {
            return Err(io::Error::other("injected fault"));
        }
        Ok(())
    }
    /// Make the k-th write/seek/flush call from now on fail (once).
    fn fail_in(&self, k: u64) {
        self.fail_at.set(self.ops.get() + k);
    }
    fn heal(&self) {
        self.fail_at.set(u64::MAX);
    }
    fn image(&self) -> Vec<u8> {
        self.data.borrow().get_ref().clone()
    }
}

impl Read for Faulty {
    fn read(&mut self, buf: &mut [u8]) -> io::Result<usize> {
        self.data.borrow_mut().read(buf)
    }
}

impl Write for Faulty {
    fn write(&mut self, buf: &[u8]) -> io::Result<usize> {
        self.tick()?;
        self.data.borrow_mut().write(buf)
    }
    fn flush(&mut self) -> io::Result<()> {
        self.tick()
    }
}

impl Seek for Faulty {
    fn seek(&mut self, pos: SeekFrom) -> io::Result<u64> {
        self.tick()?;
        self.data.borrow_mut().seek(pos)
    }
}

fn pattern(seed: u8, len: usize) -> Vec<u8> {
    (0..len).map(|i| seed.wrapping_add((i % 251) as u8)).collect()
}

/// Reads a stream through a fresh handle of the same CompoundFile.
fn read_fresh(cf: &mut CompoundFile<Faulty>, path: &str) -> Result<Vec<u8>, String> {
    let mut v = Vec::new();
    let mut s = cf.open_stream(path).map_err(|e| format!("open_stream: {e}"))?;
    s.read_to_end(&mut v).map_err(|e| format!("read: {e}"))?;
    Ok(v)
}

/// Parses the file image from scratch (strict mode) and reads a stream.
fn read_reopened(img: Vec<u8>, path: &str) -> Result<Vec<u8>, String> {
    let mut cf = CompoundFile::open_strict(Cursor::new(img))
        .map_err(|e| format!("open_strict: {e}"))?;
    let mut v = Vec::new();
    let mut s = cf.open_stream(path).map_err(|e| format!("open_stream: {e}"))?;
    s.read_to_end(&mut v).map_err(|e| format!("read: {e}"))?;
    Ok(v)
}

fn short(r: &Result<Vec<u8>, String>) -> String {
    match r {
        Ok(v) => format!("Ok({} bytes)", v.len()),
        Err(e) => format!("Err({e})"),
    }
}

// C13, finding 2: Directory::with_dir_entry_mut changes the directory entry in
// memory first and then writes it; when the write fails the in-memory entry
// stays changed.  A retry that goes through a fresh handle (the only way to
// retry create_stream, and a natural way to retry set_len) sees "nothing to
// do" and returns Ok, so the entry is never written: the file keeps the old
// start sector / length, which now refer to freed sectors.

/// set_len moves a 100-byte stream to a regular chain; the final directory
/// entry write fails.  Everything afterwards succeeds, including the retry and
/// three flushes - but the file no longer contains the 100 bytes.
#[test]
fn set_len_fault_then_ok_retry_and_ok_flush_but_file_lost_the_bytes() {
    let mut violations = Vec::new();
    let mut positions = 0u64;
    for k in 0u64.. {
        let f = Faulty::new();
        let mut cf =
            CompoundFile::create_with_version(Version::V3, f.clone()).unwrap();
        let data = pattern(1, 100);
        let mut h = cf.create_stream("/a").unwrap();
        h.write_all(&data).unwrap();
        h.flush().unwrap();
        f.fail_in(k);
        let first = h.set_len(5000);
        f.heal();
        if first.is_ok() {
            break;
        }
        positions += 1;
        // Retry of the failed call, through a fresh handle.
        let mut h2 = cf.open_stream("/a").unwrap();
        let retry = h2.set_len(5000);
        let flushes =
            [h.flush().is_ok(), h2.flush().is_ok(), cf.flush().is_ok()];
        if retry.is_err() || flushes != [true; 3] {
            continue; // "later calls may fail" - not what this test is about
        }
        let same = read_fresh(&mut cf, "/a");
        let reopened = read_reopened(f.image(), "/a");
        let ok = |r: &Result<Vec<u8>, String>| matches!(r, Ok(v) if v.len() == 5000 && v[..100] == data[..] && v[100..].iter().all(|&b| b == 0));
        if !ok(&same) || !ok(&reopened) {
            violations.push(format!(
                "k={k}: set_len(5000) failed, retry Ok, 3 flushes Ok; same \
                 CompoundFile reads {}, file image reopened reads {}",
                short(&same),
                short(&reopened)
            ));
        }
    }
    assert!(
        violations.is_empty(),
        "C13 requires: once flush on the handle returns Ok, the bytes it \
         accepted (100 bytes, then zero padding to 5000) are in the compound \
         file.  Observed {} of {} fault positions where the retried set_len \
         and all flushes return Ok but the file does not hold them, e.g.\n{}",
        violations.len(),
        positions,
        violations.iter().take(3).cloned().collect::<Vec<_>>().join("\n")
    );
}

/// create_stream over an existing stream fails at the directory entry write;
/// the retry returns Ok.  Another stream is then written.  In the file, /a
/// still has its old length and start sector and reads /b's bytes.
#[test]
fn create_stream_fault_then_ok_retry_leaves_stale_entry_in_the_file() {
    let mut violations = Vec::new();
    let mut positions = 0u64;
    for k in 0u64.. {
        let f = Faulty::new();
        let mut cf =
            CompoundFile::create_with_version(Version::V3, f.clone()).unwrap();
        let mut h = cf.create_stream("/a").unwrap();
        h.write_all(&pattern(1, 100)).unwrap();
        h.flush().unwrap();
        drop(h);
        f.fail_in(k);
        let first = cf.create_stream("/a"); // truncates /a
        f.heal();
        if first.is_ok() {
            break;
        }
        drop(first);
        positions += 1;
        let Ok(mut h) = cf.create_stream("/a") else { continue };
        if h.flush().is_err() {
            continue;
        }
        drop(h);
        let b_data = pattern(50, 100);
        let mut b = cf.create_stream("/b").unwrap();
        b.write_all(&b_data).unwrap();
        b.flush().unwrap();
        drop(b);
        cf.flush().unwrap();
        let same = read_fresh(&mut cf, "/a");
        let reopened = read_reopened(f.image(), "/a");
        if same != Ok(vec![]) || reopened != Ok(vec![]) {
            violations.push(format!(
                "k={k}: create_stream(/a) failed, retry Ok, flush Ok; same \
                 CompoundFile reads {}, file image reopened (strict) reads {}{}",
                short(&same),
                short(&reopened),
                if reopened.as_ref() == Ok(&b_data) { " == the bytes of /b" } else { "" }
            ));
        }
    }
    assert!(
        violations.is_empty(),
        "C13 requires: a failed write is reported and not swallowed - a retry \
         that returns Ok, followed by Ok flushes, means the change is in the \
         file.  Observed {} of {} fault positions where /a is empty in memory \
         but not in the file, e.g.\n{}",
        violations.len(),
        positions,
        violations.iter().take(3).cloned().collect::<Vec<_>>().join("\n")
    );
}
