#![allow(dead_code, unused_imports)]
use std::cell::{Cell, RefCell};
use std::io::{self, Cursor, Read, Seek, SeekFrom, Write};
use std::rc::Rc;

use cfb::{CompoundFile, Version};

/// An in-memory file that obeys the Read/Write/Seek contracts and can be told
/// to fail exactly one write/seek/flush call (the k-th one) with an error,
/// without performing it.  The bytes are shared, so the test can look at the
/// file image at any time.
#[derive(Clone)]
struct Faulty {
    data: Rc<RefCell<Cursor<Vec<u8>>>>,
    ops: Rc<Cell<u64>>,
    fail_at: Rc<Cell<u64>>, // u64::MAX = never
}

impl Faulty {
    fn new() -> Faulty {
        Faulty {
            data: Rc::new(RefCell::new(Cursor::new(Vec::new()))),
            ops: Rc::new(Cell::new(0)),
            fail_at: Rc::new(Cell::new(u64::MAX)),
        }
    }
    fn tick(&self) -> io::Result<()> {
        let n = self.ops.get();
        self.ops.set(n + 1);
        if n == self.fail_at.get() {
            return Err(io::Error::other("injected fault"));
        }
        Ok(())
    }
    /// Make the k-th write/seek/flush call from now on fail (once).
    fn fail_in(&self, k: u64) {
        self.fail_at.set(self.ops.get() + k);
    }
    fn heal(&self) {
        self.fail_at.set(u64::MAX);
    }
    fn image(&self) -> Vec<u8> {
        self.data.borrow().get_ref().clone()
    }
}

impl Read for Faulty {
    fn read(&mut self, buf: &mut [u8]) -> io::Result<usize> {
        self.data.borrow_mut().read(buf)
    }
}

impl Write for Faulty {
    fn write(&mut self, buf: &[u8]) -> io::Result<usize> {
        self.tick()?;
        self.data.borrow_mut().write(buf)
    }
    fn flush(&mut self) -> io::Result<()> {
        self.tick()
    }
}

impl Seek for Faulty {
    fn seek(&mut self, pos: SeekFrom) -> io::Result<u64> {
        self.tick()?;
        self.data.borrow_mut().seek(pos)
    }
}

fn pattern(seed: u8, len: usize) -> Vec<u8> {
    (0..len).map(|i| seed.wrapping_add((i % 251) as u8)).collect()
}

/// Reads a stream through a fresh handle of the same CompoundFile.
fn read_fresh(cf: &mut CompoundFile<Faulty>, path: &str) -> Result<Vec<u8>, String> {
    let mut v = Vec::new();
    let mut s = cf.open_stream(path).map_err(|e| format!("open_stream: {e}"))?;
    s.read_to_end(&mut v).map_err(|e| format!("read: {e}"))?;
    Ok(v)
}

/// Parses the file image from scratch (strict mode) and reads a stream.
fn read_reopened(img: Vec<u8>, path: &str) -> Result<Vec<u8>, String> {
    let mut cf = CompoundFile::open_strict(Cursor::new(img))
        .map_err(|e| format!("open_strict: {e}"))?;
    let mut v = Vec::new();
    let mut s = cf.open_stream(path).map_err(|e| format!("open_stream: {e}"))?;
    s.read_to_end(&mut v).map_err(|e| format!("read: {e}"))?;
    Ok(v)
}

fn short(r: &Result<Vec<u8>, String>) -> String {
    match r {
        Ok(v) => format!("Ok({} bytes)", v.len()),
        Err(e) => format!("Err({e})"),
    }
}

// C13, finding 1: when the write-back of a handle moves a stream from the mini
// stream to a regular chain (it grows past 4096 bytes), the old mini chain is
// freed BEFORE the new chain is written and before the directory entry is
// updated.  A fault in between leaves the directory entry pointing at freed
// mini sectors.

/// A failed flush of /a, then another stream /b is written and flushed (Ok),
/// then the flush of /a is retried and returns Ok.  The retry reads "its" old
/// mini chain (now /b's sectors), frees it, and /b is gone.
#[test]
fn retried_flush_destroys_another_stream_that_was_flushed_ok() {
    let mut violations = Vec::new();
    let mut positions = 0u64;
    for k in 0u64.. {
        let f = Faulty::new();
        let mut cf =
            CompoundFile::create_with_version(Version::V3, f.clone()).unwrap();
        let mut a = cf.create_stream("/a").unwrap();
        let a1 = pattern(1, 4000);
        a.write_all(&a1).unwrap();
        a.flush().unwrap();
        let a2 = pattern(2, 200);
        a.write_all(&a2).unwrap(); // accepted; crosses the 4096 cutoff
        f.fail_in(k);
        let first = a.flush();
        f.heal();
        if first.is_ok() {
            break; // k is beyond the last underlying call of this flush
        }
        positions += 1;
        // The rest of the workload: another stream, flushed successfully.
        let b_data = pattern(77, 4000);
        let mut b = cf.create_stream("/b").unwrap();
        b.write_all(&b_data).unwrap();
        b.flush().expect("no fault is injected here");
        assert_eq!(read_fresh(&mut cf, "/b").as_ref(), Ok(&b_data));
        // Retry of the failed call.
        let retry = a.flush();
        let b_after = read_fresh(&mut cf, "/b");
        if retry.is_ok() && b_after.as_ref() != Ok(&b_data) {
            violations.push(format!(
                "k={k}: a.flush() failed, b written + b.flush() Ok, a.flush() \
                 retried -> Ok; fresh handle on /b now gives {}",
                short(&b_after)
            ));
        }
    }
    assert!(
        violations.is_empty(),
        "C13 requires: after flush on the /b handle returned Ok, every byte it \
         accepted is read back by a fresh handle, and a later (retried, \
         successful) flush on another handle must not lose it.  Observed {} \
         of {} fault positions where /b is destroyed, e.g.\n{}",
        violations.len(),
        positions,
        violations.iter().take(3).cloned().collect::<Vec<_>>().join("\n")
    );
}

/// Same fault, immediate retries: they fail forever, and the 4000 bytes that
/// an earlier flush on this very handle had reported as written are gone.
#[test]
fn failed_flush_destroys_bytes_of_the_previous_successful_flush() {
    let mut violations = Vec::new();
    let mut positions = 0u64;
    for k in 0u64.. {
        let f = Faulty::new();
        let mut cf =
            CompoundFile::create_with_version(Version::V3, f.clone()).unwrap();
        let mut a = cf.create_stream("/a").unwrap();
        let a1 = pattern(1, 4000);
        a.write_all(&a1).unwrap();
        a.flush().unwrap(); // Ok: these 4000 bytes are in the compound file
        a.write_all(&pattern(2, 200)).unwrap();
        f.fail_in(k);
        let first = a.flush();
        f.heal();
        if first.is_ok() {
            break;
        }
        positions += 1;
        let retries: Vec<bool> = (0..3).map(|_| a.flush().is_ok()).collect();
        let got = read_fresh(&mut cf, "/a");
        let prefix_ok =
            matches!(&got, Ok(v) if v.len() >= 4000 && v[..4000] == a1[..]);
        if !prefix_ok {
            violations.push(format!(
                "k={k}: retries ok? {retries:?}; fresh handle on /a gives {}",
                short(&got)
            ));
        }
    }
    assert!(
        violations.is_empty(),
        "C13 requires: bytes covered by a flush that returned Ok are in the \
         compound file and read back by a fresh handle; a later failed flush \
         may fail, but must not destroy them.  Observed {} of {} fault \
         positions after which the first 4000 bytes of /a are unreadable and \
         every retry fails, e.g.\n{}",
        violations.len(),
        positions,
        violations.iter().take(3).cloned().collect::<Vec<_>>().join("\n")
    );
}
