#![allow(dead_code, unused_imports)]
use std::cell::{Cell, RefCell};
use std::io::{self, Cursor, Read, Seek, SeekFrom, Write};
use std::rc::Rc;

use cfb::{CompoundFile, Version};

/// An in-memory file that obeys the Read/Write/Seek contracts and can be told
/// to fail exactly one write/seek/flush call (the k-th one) with an error,
/// without performing it.  The bytes are shared, so the test can look at the
/// file image at any time.
#[derive(Clone)]
struct Faulty {
    data: Rc<RefCell<Cursor<Vec<u8>>>>,
    ops: Rc<Cell<u64>>,
    fail_at: Rc<Cell<u64>>, // u64::MAX = never
}

impl Faulty {
    fn new() -> Faulty {
        Faulty {
            data: Rc::new(RefCell::new(Cursor::new(Vec::new()))),
            ops: Rc::new(Cell::new(0)),
            fail_at: Rc::new(Cell::new(u64::MAX)),
        }
    }
    fn tick(&self) -> io::Result<()> {
        let n = self.ops.get();
        self.ops.set(n + 1);
        if n == self.fail_at.get() {
            return Err(io::Error::other("injected fault"));
        }
        Ok(())
    }
    /// Make the k-th write/seek/flush call from now on fail (once).
    fn fail_in(&self, k: u64) {
        self.fail_at.set(self.ops.get() + k);
    }
    fn heal(&self) {
        self.fail_at.set(u64::MAX);
    }
    fn image(&self) -> Vec<u8> {
        self.data.borrow().get_ref().clone()
    }
}

impl Read for Faulty {
    fn read(&mut self, buf: &mut [u8]) -> io::Result<usize> {
        self.data.borrow_mut().read(buf)
    }
}

impl Write for Faulty {
    fn write(&mut self, buf: &[u8]) -> io::Result<usize> {
        self.tick()?;
        self.data.borrow_mut().write(buf)
    }
    fn flush(&mut self) -> io::Result<()> {
        self.tick()
    }
}

impl Seek for Faulty {
    fn seek(&mut self, pos: SeekFrom) -> io::Result<u64> {
        self.tick()?;
        self.data.borrow_mut().seek(pos)
    }
}

fn pattern(seed: u8, len: usize) -> Vec<u8> {
    (0..len).map(|i| seed.wrapping_add((i % 251) as u8)).collect()
}

/// Reads a stream through a fresh handle of the same CompoundFile.
fn read_fresh(cf: &mut CompoundFile<Faulty>, path: &str) -> Result<Vec<u8>, String> {
    let mut v = Vec::new();
    let mut s = cf.open_stream(path).map_err(|e| format!("open_stream: {e}"))?;
    s.read_to_end(&mut v).map_err(|e| format!("read: {e}"))?;
    Ok(v)
}

/// Parses the file image from scratch (strict mode) and reads a stream.
fn read_reopened(img: Vec<u8>, path: &str) -> Result<Vec<u8>, String> {
    let mut cf = CompoundFile::open_strict(Cursor::new(img))
        .map_err(|e| format!("open_strict: {e}"))?;
    let mut v = Vec::new();
    let mut s = cf.open_stream(path).map_err(|e| format!("open_stream: {e}"))?;
    s.read_to_end(&mut v).map_err(|e| format!("read: {e}"))?;
    Ok(v)
}

fn short(r: &Result<Vec<u8>, String>) -> String {
    match r {
        Ok(v) => format!("Ok({} bytes)", v.len()),
        Err(e) => format!("Err({e})"),
    }
}

// C13, finding 3: when the MiniFAT needs another sector,
// MiniAllocator::allocate_mini_sector extends the MiniFAT chain and then
// writes the new sector count into the header (offset 64).  If the seek or the
// write for the header fails, the retry finds the chain already long enough,
// skips the whole block, and the header write is never made up for.

fn minifat_sectors_in_header(img: &[u8]) -> u32 {
    u32::from_le_bytes([img[64], img[65], img[66], img[67]])
}

#[test]
fn retry_after_fault_never_writes_the_minifat_sector_count() {
    let mut violations = Vec::new();
    let mut positions = 0u64;
    for k in 0u64.. {
        let f = Faulty::new();
        let mut cf =
            CompoundFile::create_with_version(Version::V3, f.clone()).unwrap();
        // 63 + 63 + 2 = 128 mini sectors: exactly one full MiniFAT sector.
        for (i, len) in [4032usize, 4032, 128].iter().copied().enumerate() {
            let mut s = cf.create_stream(format!("/s{i}")).unwrap();
            s.write_all(&pattern(i as u8, len)).unwrap();
            s.flush().unwrap();
        }
        assert_eq!(minifat_sectors_in_header(&f.image()), 1);
        let data = pattern(9, 100);
        let mut last = cf.create_stream("/last").unwrap();
        last.write_all(&data).unwrap();
        f.fail_in(k);
        let first = last.flush(); // needs mini sector 128 -> 2nd MiniFAT sector
        f.heal();
        if first.is_ok() {
            break;
        }
        positions += 1;
        if last.flush().is_err() {
            continue; // "later calls may fail"
        }
        drop(last);
        cf.flush().unwrap();
        assert_eq!(read_fresh(&mut cf, "/last").as_ref(), Ok(&data));
        let img = f.image();
        let count = minifat_sectors_in_header(&img);
        let reopened = read_reopened(img, "/last");
        if reopened.as_ref() != Ok(&data) {
            violations.push(format!(
                "k={k}: flush failed, retried flush Ok; header says {count} \
                 MiniFAT sector(s); strict reopen + read of /last: {}",
                short(&reopened)
            ));
        }
    }
    assert!(
        violations.is_empty(),
        "C13 requires: a retried flush that returns Ok means the accepted \
         bytes are in the compound file (a valid one: the MiniFAT entries of \
         /last are in MiniFAT sector 2, which the header must count).  \
         Observed {} of {} fault positions where the file the crate wrote is \
         rejected by the crate's own strict mode, e.g.\n{}",
        violations.len(),
        positions,
        violations.iter().take(3).cloned().collect::<Vec<_>>().join("\n")
    );
}
