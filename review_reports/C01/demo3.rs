// C01 demo 3 (minor): `CompoundFile::touch` is documented as "Has no effect
// when called on the root storage", but it rewrites the root entry's modified
// time (in memory and in the file), so the entry metadata diverges from a
// model built from the documented behaviour.
use std::io::Cursor;

#[test]
fn touch_on_root_has_no_effect_as_documented() {
    for version in [cfb::Version::V3, cfb::Version::V4] {
        let mut comp = cfb::CompoundFile::create_with_version(
            version,
            Cursor::new(Vec::new()),
        )
        .unwrap();
        let before = comp.root_entry().modified();
        comp.touch("/").expect("touch on the root succeeds");
        let after = comp.entry("/").unwrap().modified();
        assert!(
            before == after,
            "{:?}: the documentation of touch() promises \"Has no effect \
             when called on the root storage\", so property C01 (entry \
             metadata matches the model after every step) requires the \
             root's modified time to stay {:?}, but it became {:?}",
            version,
            before,
            after
        );
    }
}
