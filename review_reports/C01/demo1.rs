// C01 demo 1: a Stream handle that is flushed/dropped after its stream was
// removed writes into whatever now lives at its old directory slot / mini
// sector 0, silently replacing the bytes of a DIFFERENT stream.
use std::io::{Cursor, Read, Write};
use std::panic::{catch_unwind, AssertUnwindSafe};

fn scenario(version: cfb::Version) {
    let mut comp =
        cfb::CompoundFile::create_with_version(version, Cursor::new(Vec::new()))
            .unwrap();
    // /a: 100 bytes of 0x01, written and dropped (lives in mini sectors 0,1).
    let mut a = comp.create_stream("/a").unwrap();
    a.write_all(&[1u8; 100]).unwrap();
    drop(a);
    // /b: 100 bytes of 0x02 are written (buffered in the handle), then the
    // stream is removed while the handle is still alive.
    let mut b = comp.create_stream("/b").unwrap();
    b.write_all(&[2u8; 100]).unwrap();
    comp.remove_stream("/b").unwrap();
    // The handle goes away (explicit flush; Drop does exactly the same).
    let outcome = catch_unwind(AssertUnwindSafe(move || {
        let r = b.flush();
        drop(b);
        r.map_err(|e| e.to_string())
    }));
    assert!(
        outcome.is_ok(),
        "{:?}: flushing a handle whose stream was removed must not panic \
         (model: the stream is gone; an error or a no-op is fine)",
        version
    );
    // Model: the tree is { /a = [1;100] }, whatever the stale handle returned.
    let names: Vec<String> =
        comp.read_root_storage().map(|e| e.name().to_string()).collect();
    assert_eq!(names, vec!["a".to_string()]);
    let mut data = Vec::new();
    comp.open_stream("/a").unwrap().read_to_end(&mut data).unwrap();
    assert!(
        data == vec![1u8; 100],
        "{:?}: property C01 requires /a to still hold the 100 bytes 0x01 that \
         were written to it (nothing ever wrote to /a again), but after the \
         stale handle of the removed stream /b was flushed ({:?}) /a reads \
         back as {} bytes starting {:?}",
        version,
        outcome,
        data.len(),
        &data[..4.min(data.len())]
    );
}

#[test]
fn stale_handle_of_removed_stream_v3() {
    scenario(cfb::Version::V3);
}

#[test]
fn stale_handle_of_removed_stream_v4() {
    scenario(cfb::Version::V4);
}
