// C01 demo 2: in a version 3 file a stream may be grown past 4 GiB (set_len
// and write both return Ok), but the directory entry's length is read back
// modulo 2^32 when the file is reopened, so the stream silently shrinks to
// (len mod 2^32) bytes and its contents are lost.
// Uses a sparse in-memory backend (all-zero blocks are not stored), so it
// needs ~300 MB and about 5 seconds with --release (run it with --release: a debug build needs
// over a minute for the 8.4 million sector allocations).
use std::collections::HashMap;
use std::io::{self, Read, Seek, SeekFrom, Write};

const BLK: u64 = 4096;
/// A sparse in-memory file: blocks that were never written with non-zero data
/// are not stored and read back as zeros (like a sparse file on disk).
#[derive(Default)]
struct Sparse {
    blocks: HashMap<u64, Box<[u8; BLK as usize]>>,
    len: u64,
    pos: u64,
}
impl Read for Sparse {
    fn read(&mut self, buf: &mut [u8]) -> io::Result<usize> {
        if self.pos >= self.len { return Ok(0); }
        let off = (self.pos % BLK) as usize;
        let n = buf.len().min(BLK as usize - off).min((self.len - self.pos) as usize);
        match self.blocks.get(&(self.pos / BLK)) {
            Some(b) => buf[..n].copy_from_slice(&b[off..off + n]),
            None => buf[..n].fill(0),
        }
        self.pos += n as u64;
        Ok(n)
    }
}
impl Write for Sparse {
    fn write(&mut self, buf: &[u8]) -> io::Result<usize> {
        if buf.is_empty() { return Ok(0); }
        let off = (self.pos % BLK) as usize;
        let n = buf.len().min(BLK as usize - off);
        let idx = self.pos / BLK;
        if let Some(b) = self.blocks.get_mut(&idx) {
            b[off..off + n].copy_from_slice(&buf[..n]);
        } else if buf[..n].iter().any(|&x| x != 0) {
            let mut b = Box::new([0u8; BLK as usize]);
            b[off..off + n].copy_from_slice(&buf[..n]);
            self.blocks.insert(idx, b);
        }
        self.pos += n as u64;
        self.len = self.len.max(self.pos);
        Ok(n)
    }
    fn flush(&mut self) -> io::Result<()> { Ok(()) }
}
impl Seek for Sparse {
    fn seek(&mut self, p: SeekFrom) -> io::Result<u64> {
        let np = match p {
            SeekFrom::Start(n) => n as i128,
            SeekFrom::End(d) => self.len as i128 + d as i128,
            SeekFrom::Current(d) => self.pos as i128 + d as i128,
        };
        if np < 0 { return Err(io::Error::new(io::ErrorKind::InvalidInput, "neg")); }
        self.pos = np as u64;
        Ok(self.pos)
    }
}

#[test]
fn v3_stream_longer_than_4gib_survives_reopen() {
    let mut comp = cfb::CompoundFile::create_with_version(
        cfb::Version::V3,
        Sparse::default(),
    )
    .unwrap();
    let want: u64 = (1u64 << 32) + 100;
    let mut s = comp.create_stream("/big").unwrap();
    if let Err(err) = s.set_len(want) {
        // Refusing the length would be a correct way to keep the property.
        assert_eq!(err.kind(), io::ErrorKind::InvalidInput);
        return;
    }
    s.seek(SeekFrom::Start(want - 4)).unwrap();
    s.write_all(b"tail").unwrap();
    s.flush().unwrap();
    assert_eq!(s.len(), want);
    drop(s);
    assert_eq!(comp.entry("/big").unwrap().len(), want);
    comp.flush().unwrap();

    // Reopen the file the crate just produced.
    let inner = comp.into_inner();
    let mut comp = cfb::CompoundFile::open(inner).expect("reopen");
    let got = comp.entry("/big").unwrap().len();
    assert!(
        got == want,
        "property C01 requires a stream's length to be the same on the \
         reopened file as it was when set_len({}) returned Ok on the \
         version 3 file, but after reopening, entry(\"/big\").len() is {} \
         (= {} mod 2^32)",
        want, got, want
    );
    let mut s = comp.open_stream("/big").unwrap();
    s.seek(SeekFrom::End(-4)).unwrap();
    let mut b = [0u8; 4];
    s.read_exact(&mut b).unwrap();
    assert_eq!(&b, b"tail");
}
