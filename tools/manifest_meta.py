HOOKS = {
    "guard": "cfb_verif",
    "enable": "RUSTFLAGS=--cfg cfb_verif (set by ./check and harness/.cargo/config.toml); harness depends on cfb by path = /repo",
    "baseline_off_cmd": "cd /repo && cargo test --workspace --no-fail-fast --offline",
    "source_commits": [],
    "add_only": True,
}

PENDING = "check not built yet in this session (machinery in progress; see DESIGN.md section 2)"
NOT_APPLICABLE = {f"C{i:02d}": PENDING for i in range(1, 19)}

META = {
    "C01": {
        "text": "Exploration: seeded operation histories executed on the real crate and on an abstract tree model written from "
                "the documentation; outcome (Ok/Err kind) of every call and a full dump (walk order, metadata, bytes) compared after "
                "every step, both versions, fresh and reopened files, two build profiles. Finite sampling of an infinite history "
                "space: right level for a behavioural agreement property; no proof is claimed.",
        "design_ref": "DESIGN.md section 2, C01",
        "note": "Trusts the harness's model/order oracle (Perl UCD table) and the observation through the public API; covers only the histories generated.",
        "technique": "runtime monitoring: reference-model monitor at the API boundary over seeded histories",
    },
}
