HOOKS = {
    "guard": "cfb_verif",
    "enable": "RUSTFLAGS=--cfg cfb_verif (set by ./check and harness/.cargo/config.toml); harness depends on cfb by path = /repo",
    "baseline_off_cmd": "cd /repo && cargo test --workspace --no-fail-fast --offline",
    "source_commits": [],
    "add_only": True,
}

PENDING = "check not built yet in this session (machinery in progress; see DESIGN.md section 2)"
NOT_APPLICABLE = {f"C{i:02d}": PENDING for i in range(1, 19)}

META = {
    "C01": {
        "text": "Exploration: seeded operation histories executed on the real crate and on an abstract tree model written from "
                "the documentation; outcome (Ok/Err kind) of every call and a full dump (walk order, metadata, bytes) compared after "
                "every step, both versions, fresh and reopened files, two build profiles. Finite sampling of an infinite history "
                "space: right level for a behavioural agreement property; no proof is claimed.",
        "design_ref": "DESIGN.md section 2, C01",
        "note": "Trusts the harness's model/order oracle (Perl UCD table) and the observation through the public API; covers only the histories generated.",
        "technique": "runtime monitoring: reference-model monitor at the API boundary over seeded histories",
    },
}

META["C02"] = {
    "text": "Exploration over histories x crash points: the bytes of the instrumented backing store, taken without flush at every call "
            "boundary with no dirty handle, are reopened in both validation modes and must expose the model's state; forks continue the "
            "history on the reopened object. Write-through is a per-call-site obligation, so sampling many histories that cross each "
            "piecemeal-update site (counted in the evidence) is the fitting level.",
    "design_ref": "DESIGN.md section 2, C02",
    "note": "Trusts model + dump comparison; a crash is modelled as 'bytes as they are between two API calls' (in-memory backend, no torn writes inside one call).",
    "technique": "runtime monitoring: byte-snapshot reopen oracle at every quiescent call boundary + forked continuation",
}
META["C03"] = {
    "text": "Exploration: every image the real writer produces along seeded histories (plus large DIFAT/directory/MiniFAT scenarios) is "
            "judged by an independent structural checker that shares no code with the library.",
    "design_ref": "DESIGN.md section 2, C03",
    "note": "Trusts refparse.rs's reading of MS-CFB (self-checked against synth.rs); v4 DIFAT-sector images (457 MB) are not generated.",
    "technique": "runtime monitoring: independent offline checker over byte images recorded after every operation",
}
META["C06"] = {
    "text": "Exploration: call scripts on a handle checked call-by-call against a byte-vector+cursor model under many buffer sizes and "
            "both versions and both build profiles (overflow checks on), with extreme seek arguments.",
    "design_ref": "DESIGN.md section 2, C06",
    "note": "Trusts the Vec<u8>+cursor model and std's Read/Write/BufRead contracts as the meaning of raw calls.",
    "technique": "runtime monitoring: reference-model monitor on Read/BufRead/Write/Seek calls + differential replay across configurations",
}
META["C07"] = {
    "text": "Exploration: histories steered onto the dangerous shapes (two-child removal with a live handle on the in-order predecessor, "
            "slot reuse) with a model of every handle and every stream, compared through fresh lookups and an independent parser.",
    "design_ref": "DESIGN.md section 2, C07",
    "note": "Trusts model and refparse; one handle per stream.",
    "technique": "runtime monitoring: multi-handle reference model + independent byte-level parser at checkpoints",
}
META["C08"] = {
    "text": "Exploration: every growing set_len in seeded shrink/grow/remove histories is followed by reading the gained bytes (same "
            "handle, reopened file); payloads are never zero so any non-zero byte is stale data, classified by provenance.",
    "design_ref": "DESIGN.md section 2, C08",
    "note": "Trusts the harness's payload discipline (no zero bytes are ever written).",
    "technique": "runtime monitoring: zero-fill assertion on the gained range with unique non-zero payloads",
}

META["C09"] = {
    "text": "Exploration: random Unicode names and path spellings over all insertion orders, judged by an independent validity rule, an "
            "independent case-folding/order oracle (Perl UCD table) and the independent parser's view of the on-disk tree.",
    "design_ref": "DESIGN.md section 2, C09",
    "note": "Trusts order.rs (UCD 14 simple upper-casing) for the curated alphabets.",
    "technique": "runtime monitoring: five online monitors (validation/no-write, case-insensitive lookup, findability, order, path normaliser) over seeded sibling-set histories",
}
META["C10"] = {
    "text": "Exploration: every refusal class at every point of seeded histories; the instrumented backing store proves zero write events "
            "and identical bytes for each refused call, the model proves no later observable difference.",
    "design_ref": "DESIGN.md section 2, C10",
    "note": "Trusts the model's refusal prediction; only calls refused with a predicted kind are judged (a wrong outcome is C01's).",
    "technique": "runtime monitoring: write-event log + byte snapshot comparison around every refused call",
}
META["C15"] = {
    "text": "Exploration: net-zero cycles (certified by the model) repeated after random prefixes; the backing store's length is the "
            "conserved quantity.",
    "design_ref": "DESIGN.md section 2, C15",
    "note": "Seven cycle templates; the conclusion covers those templates x the observed prefixes.",
    "technique": "runtime monitoring: conservation check (file length) over repeated model-certified net-zero cycles",
}
META["C17"] = {
    "text": "Exploration over values x histories: independent 128-bit tick arithmetic and an independent byte-level GUID/timestamp "
            "decoder as oracles, immediately and across reopen in both modes.",
    "design_ref": "DESIGN.md section 2, C17",
    "note": "Trusts the i128 oracle and refparse's field layout (MS-CFB 2.6.1).",
    "technique": "runtime monitoring: value round-trip monitor with independent arithmetic + raw-byte decoder",
}
META["C18"] = {
    "text": "Differential exploration: the same explicit history under repeat run, real file, chunked/interrupted I/O, other buffer size "
            "and other version; byte-identical images where the property demands it.",
    "design_ref": "DESIGN.md section 2, C18",
    "note": "Real files live under /verif/work and are removed after each history.",
    "technique": "runtime monitoring: differential replay across backends/configurations with a perturbing backing store",
}

META["C04"] = {
    "text": "Exploration over (logical content x physical layout): an independent writer produces layouts the library's own writer never "
            "does; each image is certified by the independent checker before it may judge the library.",
    "design_ref": "DESIGN.md section 2, C04",
    "note": "Trusts synth.rs + refparse.rs as a pair (self-check per image). v4 DIFAT layouts (457 MB) are not generated.",
    "technique": "runtime monitoring: differential reading of independently synthesised images + model monitors on later mutations",
}
META["C05"] = {
    "text": "Exploration of hostile inputs with runtime guards: panic hook, CPU-time watchdog with isolated confirmation, I/O step budget, "
            "counting allocator. Liveness restated as bounded progress.",
    "design_ref": "DESIGN.md section 2, C05",
    "note": "Bounds (10 s CPU, step budget, 8 MiB + 4096*len) are the restatement of 'terminates' and 'proportional'; measured maxima are in the evidence.",
    "technique": "runtime monitoring: panic/CPU/allocation/step-count guards over structure-aware corrupted inputs",
}
META["C11"] = {
    "text": "Exploration of mutation histories on accepted-but-damaged files (field corruptions, compound deviations, stream entries aliasing the format's own chains) with panic and CPU-time guards in isolated workers.",
    "design_ref": "DESIGN.md section 2, C11",
    "note": "Only panics and hangs are judged; errors are fine. A worker death is attributed by heartbeat and confirmed in isolation.",
    "technique": "runtime monitoring: panic hook + CPU watchdog over corrupted-input x mutation-history workloads",
}

META["C16"] = {
    "text": "Exploration: (A) differential strict-vs-permissive on everything strict accepts from the hostile-input generator; (B) a "
            "byte-level injector of each documented deviation into valid files of many layouts, singly and combined, with the "
            "undamaged file's dump as oracle.",
    "design_ref": "DESIGN.md section 2, C16",
    "note": "Trusts refparse's field offsets for the injector and the synth/refparse self-check for the bases.",
    "technique": "runtime monitoring: differential open-mode oracle + documented-deviation injector",
}

META["C12"] = {
    "text": "Fault enumeration: for each workload every single position of the underlying read/seek call sequence receives a one-shot "
            "failure (exhaustive over positions, four variants each), plus pairs; results are compared with the fault-free run and with "
            "the stream's true content, with retries after each error.",
    "design_ref": "DESIGN.md section 2, C12",
    "note": "Exhaustive over fault positions of the listed workloads, not over workloads. Backend is in-memory with injected io::Errors.",
    "technique": "runtime monitoring: exhaustive single-fault injection at the backing store + content oracle with retry",
}
META["C13"] = {
    "text": "Fault enumeration: every position of the underlying write, seek and flush calls of each mutating workload receives a one-shot "
            "failure; the backing store's log attributes the failure to the API call that was active, which must report it; an Ok flush "
            "must be durable as seen by a fresh handle, by the reopened bytes and - once every failed call has succeeded on retry - by the "
            "library's own permissive and strict readers; failed calls are repeated at once or after other streams were created and flushed.",
    "design_ref": "DESIGN.md section 2, C13; section 7 (strict acceptance, interlude, marker positions)",
    "note": "Exhaustive over fault positions of the listed workloads (seven script families). Drop-time errors excluded as the property says.",
    "technique": "runtime monitoring: exhaustive single-fault injection with API-call attribution + durability readback",
}

META["C14"] = {
    "text": "Exploration over schedules with three cooperating monitors: a deterministic lock-discipline monitor on the instrumented "
            "RwLock (re-entrant acquisition = the hazard the quantifier names), real-thread runs with a forced bad schedule and with "
            "random delays plus a wait-for-state deadlock certificate and an offline result check, and Miri's randomised scheduler on "
            "the real std RwLock.",
    "design_ref": "DESIGN.md section 2, C14",
    "note": "Uses the cfg(cfb_verif) lock hook (src/internal/sync.rs); Miri explores a small fixed program only.",
    "technique": "runtime monitoring: instrumented-lock discipline monitor + stress with injected delays + Miri schedule exploration",
}
HOOKS["source_commits"] = ["d2da82d"]
