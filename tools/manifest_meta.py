HOOKS = {
    "guard": "cfb_verif",
    "enable": "RUSTFLAGS=--cfg cfb_verif (set by ./check and harness/.cargo/config.toml); harness depends on cfb by path = /repo",
    "baseline_off_cmd": "cd /repo && cargo test --workspace --no-fail-fast --offline",
    "source_commits": [],
    "add_only": True,
}

PENDING = "check not built yet in this session (machinery in progress; see DESIGN.md section 2)"
NOT_APPLICABLE = {f"C{i:02d}": PENDING for i in range(1, 19)}

META = {
    "C01": {
        "text": "Exploration: seeded operation histories executed on the real crate and on an abstract tree model written from "
                "the documentation; outcome (Ok/Err kind) of every call and a full dump (walk order, metadata, bytes) compared after "
                "every step, both versions, fresh and reopened files, two build profiles. Finite sampling of an infinite history "
                "space: right level for a behavioural agreement property; no proof is claimed.",
        "design_ref": "DESIGN.md section 2, C01",
        "note": "Trusts the harness's model/order oracle (Perl UCD table) and the observation through the public API; covers only the histories generated.",
        "technique": "runtime monitoring: reference-model monitor at the API boundary over seeded histories",
    },
}

META["C02"] = {
    "text": "Exploration over histories x crash points: the bytes of the instrumented backing store, taken without flush at every call "
            "boundary with no dirty handle, are reopened in both validation modes and must expose the model's state; forks continue the "
            "history on the reopened object. Write-through is a per-call-site obligation, so sampling many histories that cross each "
            "piecemeal-update site (counted in the evidence) is the fitting level.",
    "design_ref": "DESIGN.md section 2, C02",
    "note": "Trusts model + dump comparison; a crash is modelled as 'bytes as they are between two API calls' (in-memory backend, no torn writes inside one call).",
    "technique": "runtime monitoring: byte-snapshot reopen oracle at every quiescent call boundary + forked continuation",
}
META["C03"] = {
    "text": "Exploration: every image the real writer produces along seeded histories (plus large DIFAT/directory/MiniFAT scenarios) is "
            "judged by an independent structural checker that shares no code with the library.",
    "design_ref": "DESIGN.md section 2, C03",
    "note": "Trusts refparse.rs's reading of MS-CFB (self-checked against synth.rs); v4 DIFAT-sector images (457 MB) are not generated.",
    "technique": "runtime monitoring: independent offline checker over byte images recorded after every operation",
}
META["C06"] = {
    "text": "Exploration: call scripts on a handle checked call-by-call against a byte-vector+cursor model under many buffer sizes and "
            "both versions and both build profiles (overflow checks on), with extreme seek arguments.",
    "design_ref": "DESIGN.md section 2, C06",
    "note": "Trusts the Vec<u8>+cursor model and std's Read/Write/BufRead contracts as the meaning of raw calls.",
    "technique": "runtime monitoring: reference-model monitor on Read/BufRead/Write/Seek calls + differential replay across configurations",
}
META["C07"] = {
    "text": "Exploration: histories steered onto the dangerous shapes (two-child removal with a live handle on the in-order predecessor, "
            "slot reuse) with a model of every handle and every stream, compared through fresh lookups and an independent parser.",
    "design_ref": "DESIGN.md section 2, C07",
    "note": "Trusts model and refparse; one handle per stream.",
    "technique": "runtime monitoring: multi-handle reference model + independent byte-level parser at checkpoints",
}
META["C08"] = {
    "text": "Exploration: every growing set_len in seeded shrink/grow/remove histories is followed by reading the gained bytes (same "
            "handle, reopened file); payloads are never zero so any non-zero byte is stale data, classified by provenance.",
    "design_ref": "DESIGN.md section 2, C08",
    "note": "Trusts the harness's payload discipline (no zero bytes are ever written).",
    "technique": "runtime monitoring: zero-fill assertion on the gained range with unique non-zero payloads",
}
