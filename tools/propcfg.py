"""Per-property configuration of the check driver: level, evidence rule text,
assumptions, budgets, shard split between the two build profiles, and the floor
counters below which a run is INCONCLUSIVE rather than "held"."""

COMMON_ASSUMPTIONS = [
    "the harness crate (model, order table from Perl's UCD 14, refparse, MonFile) is correct; it is self-checked by `cfbmon selftest` and by the synth/refparse round trip",
    "rustc/std behave as documented; cfb is 100% safe Rust",
    "verdict covers only the executions of this run (listed in coverage.counters)",
]

PROPS = {}

PROPS["C01"] = {
    "level": "exploration",
    "rule": "case = one seeded history (10-80 steps quick, 20-300 thorough) of create/overwrite/remove/recursive/"
            "query/metadata/reopen steps over a 57-name pool with case variants and respelled paths, executed on the real "
            "crate and the abstract tree model side by side, full dump compared after every step group; "
            "non-trivial = the history contains >= 1 removal and >= 1 stream write >= 4096 bytes; distinct = FNV-64 of "
            "(version, step list)",
    "assumptions": COMMON_ASSUMPTIONS + [
        "paths returned by queries are compared case-insensitively (the library echoes the query spelling for the prefix)",
        "storage times set from the wall clock are adopted on first observation and must then stay constant",
    ],
    "checked_share": 0.7,
    "quick": {"budget_s": 20},
    "thorough": {"budget_s": 300},
    "floors": {
        "quick": {"evaluations": 2000, "removal_children.2": 100, "dumps_compared": 20000, "reopen.Strict": 50},
        "thorough": {"evaluations": 20000, "removal_children.2": 1000, "dumps_compared": 200000},
    },
}
